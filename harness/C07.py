"""C07 - calibration conversions are mutually inverse, additive in dB, and fail loudly.

Real-valued laws: coq/Calib/Laws.v about coq/gen/CalibGen.v, REGENERATED here from $PSIAUDIO_REPO by
translate/pyexpr2coq.py (table: translate/c07_spec.py).  Lookups (interp1d / exact match / get_mean_sf): Q-valued model
coq/Calib/Interp.v, compared with the implementation case by case.  Theorems: coq/Props/C07.v."""
import math
import os
from fractions import Fraction

import numpy as np

import vlib
from vlib import zlit, listlit, blit
from translate import pyexpr2coq, c07_spec

PROP = 'C07'
REQUIRES = ['Calib.Interp']
RULE = ('InterpCalibration / PointCalibration / FlatCalibration objects built from random tables (2-8 points; float, integer, '
        'list, ndarray and pandas-Series tables; sorted and shuffled; integer-valued and arbitrary doubles; fixed gain 0 / '
        'integer / arbitrary) queried at table points, strictly between neighbours, one ulp outside and far outside the '
        'range, as scalar, list, 1-D and 2-D array, Series and DataFrame (get_db one-argument form); get_mean_sf over integer '
        'ranges inside, straddling and outside the table and empty; every constructor (from_spl, from_db, from_pascals, '
        'from_mv_pa, unity, as_attenuation) of every class with scalar and per-frequency arguments; util.db/dbi on scalars, '
        'lists, arrays.  Non-trivial: the case mixes answered and unanswered frequencies, or uses a non-zero fixed gain or '
        'attenuation, or is a constructor case.  Distinct = distinct case dictionaries.')
TRUSTED = ['translate/pyexpr2coq.py + translate/c07_spec.py (fail-closed AST translator; self-tested on every run by an '
           'independent interpreter of the emitted text against the real functions)',
           'harness/C07.py (generators; exact conversion of doubles to dyadic rationals; comparison of array/Series/DataFrame '
           'forms with the scalar form; numeric evaluation of the generated definitions in binary64)',
           'scipy interp1d / numpy.interp / np.vectorize / np.arange as modelled in coq/Calib/Interp.v (exercised, not proved)']
ASSUMPTIONS = ['the laws are proved over the real numbers; the implementation evaluates them in binary64 and agreement is '
               'observed to 1e-9 relative (float rounding of log10 and 10**x is not modelled)',
               'interpolation tables have >= 2 distinct finite frequencies (interp1d rejects shorter tables at construction) '
               'and the default fill_value (NaN); a caller who passes fill_value explicitly opts out of NaN outside the range',
               'get_mean_sf is exercised with integer-valued bounds (np.arange(flb, fub) = flb, flb+1, ..., fub-1)',
               'voltages, Pascal magnitudes and mV/Pa values are > 0 (arguments of log10)']

GEN = 'gen/CalibGen.v'
_DEFS = None          # parsed emitted definitions (for the numeric evaluation of the generated model)
TOL = 1e-9


# ====================================================================================================================
# translator tie
def _selftest(defs, rng):
    """Emitted text, interpreted independently, against the real functions on random arguments."""
    probes = c07_spec.probes()
    n, worst = 0, 0.0
    for name, (params, _) in defs.items():
        if name not in probes:
            raise pyexpr2coq.TranslatorGap(f'no probe for emitted definition {name}')
        for _ in range(12):
            kw = {}
            for p in params:
                if c07_spec.DOMAIN.get(p) == 'pos':
                    kw[p] = float(10 ** rng.uniform(-3, 3))
                else:
                    kw[p] = float(rng.choice([rng.uniform(-120, 120), float(rng.randint(-100, 100))]))
            want = float(probes[name](**kw))
            got = float(pyexpr2coq.evaluate(defs, name, [kw[p] for p in params], np))
            err = abs(want - got) / max(1.0, abs(want))
            worst = max(worst, err)
            n += 1
            if not err <= 1e-11:
                raise pyexpr2coq.TranslatorGap(
                    f'self-test: emitted {name}{kw} evaluates to {got!r}, the real function returns {want!r}')
    return n, worst


def translate(repo):
    """Regenerate coq/gen/CalibGen.v from the source under test.  A translator gap (or a failed self-test) is written
    as a generated file that does not compile, so that the driver reports the proofs as broken (fail closed)."""
    global _DEFS
    import random
    info = {'gen_files': [GEN], 'source': [os.path.join(repo, 'psiaudio/calibration.py'),
                                           os.path.join(repo, 'psiaudio/util.py')], 'gap': None}
    head = ('(* GENERATED on every run by harness/C07.py translate() with translate/pyexpr2coq.py from\n'
            f'   {repo}/psiaudio/util.py and {repo}/psiaudio/calibration.py - do not edit.\n'
            '   sens = self.get_sens(frequency); interp = self._interp(frequency); constructors: the `sensitivity` they pass on. *)\n')
    try:
        body, tinfo = pyexpr2coq.translate(repo, c07_spec.SPEC)
        defs = pyexpr2coq.parse_defs(body)
        if set(defs) != {f['coq'] for f in c07_spec.SPEC['functions']}:
            raise pyexpr2coq.TranslatorGap('emitted text does not parse back to the listed definitions')
        n, worst = _selftest(defs, random.Random(7))
        info.update(functions=tinfo['functions'], notes=tinfo['notes'],
                    selftest={'evaluations': n, 'max_rel_err': worst})
        _DEFS = defs
        text = head + c07_spec.SPEC['header'] + '\n' + body
    except pyexpr2coq.TranslatorGap as e:
        _DEFS = None
        info['gap'] = str(e)
        msg = ''.join(ch if ch.isalnum() or ch in " _.,:;()[]{}=+-*/<>'`" else ' ' for ch in str(e))
        msg = msg.replace('(*', '( *').replace('*)', '* )')[:400]
        # deliberately ill-typed, so that the build fails and coqc's error message carries the reason
        text = (head + 'From Coq Require Import Reals String.\n'
                f'Definition translator_gap : R :=\n  "{msg}"%string.\n')
    with open(os.path.join(vlib.COQ, GEN), 'w') as f:       # always rewritten: always re-checked
        f.write(text)
    # the correspondence files only need the hand-written Q model; make sure it is built even if the laws break
    rc, out = vlib.coq_build('Calib/Interp.vo')
    if rc != 0:
        raise vlib.MachineryError('Calib/Interp.v does not build:\n' + out[-3000:])
    return info


def _gen(name, *args):
    """Numeric (binary64 / numpy) value of a generated definition; None when the translator had a gap."""
    if _DEFS is None:
        return None
    return pyexpr2coq.evaluate(_DEFS, name, list(args), np)


# ====================================================================================================================
# helpers
def _cal():
    from psiaudio import calibration
    return calibration


def _n(x):
    """JSON-able number: NaN -> None, infinities -> strings."""
    x = float(x)
    if math.isnan(x):
        return None
    if math.isinf(x):
        return 'inf' if x > 0 else '-inf'
    return x


def _nl(a):
    return [_n(v) for v in np.asarray(a, dtype=float).ravel()]


def _f(x):
    return float('nan') if x is None else float(x)


def _try(f):
    C = _cal()
    try:
        return f()
    except C.CalibrationError:
        return {'err': 'CalibrationError'}
    except ValueError:
        return {'err': 'ValueError'}


def _iserr(x):
    return isinstance(x, dict) and 'err' in x


def _close(a, b, tol=TOL):
    """both None (NaN), or both numbers within tol relative (+ tol absolute)."""
    if _iserr(a) or _iserr(b):
        return _iserr(a) and _iserr(b)
    if a is None or b is None:
        return a is None and b is None
    if isinstance(a, str) or isinstance(b, str):
        return a == b
    return abs(a - b) <= tol * max(1.0, abs(a), abs(b))


def _closel(a, b, tol=TOL):
    if _iserr(a) or _iserr(b):
        return _iserr(a) and _iserr(b)
    return len(a) == len(b) and all(_close(x, y, tol) for x, y in zip(a, b))


def dy(x):
    n, d = float(x).as_integer_ratio()
    return f'(dy {zlit(n)} {zlit(-(d.bit_length() - 1))})'


def _tbl(fs, ss):
    return listlit([f'({dy(f)}, {dy(s)})' for f, s in zip(fs, ss)])


def _table_arg(vals, form):
    import pandas as pd
    if form == 'list':
        return list(vals)
    if form == 'int':
        return np.array([int(v) for v in vals])
    if form == 'series':
        return pd.Series(list(vals))
    return np.array(vals, dtype=float)


def _make(case):
    C = _cal()
    k = case['kind']
    if k == 'flat':
        return C.FlatCalibration(case['s'], fixed_gain=case['g'])
    fs = _table_arg(case['freqs'], case['form_f'])
    ss = _table_arg(case['sens'], case['form_s'])
    cls = C.InterpCalibration if k == 'interp' else C.PointCalibration
    return cls(fs, ss, fixed_gain=case['g'])


def _expected_sens(case, q):
    """Exact (Fraction) sensitivity the PROPERTY prescribes at q, 'none' outside / uncalibrated.  Independent of the
    implementation and of the Coq model."""
    g = Fraction(case['g'])
    if case['kind'] == 'flat':
        return Fraction(case['s']) - g
    pts = [(Fraction(f), Fraction(s)) for f, s in zip(case['freqs'], case['sens'])]
    q = Fraction(q)
    if case['kind'] == 'point':
        for f, s in pts:
            if f == q:
                return s - g
        return 'none'
    pts.sort()
    if q < pts[0][0] or q > pts[-1][0]:
        return 'none'
    for (x0, y0), (x1, y1) in zip(pts, pts[1:]):
        if x0 <= q <= x1:
            return y0 + (y1 - y0) * (q - x0) / (x1 - x0) - g
    raise AssertionError


# ====================================================================================================================
# implementation side
def _per_query(cal, q, L, a, v):
    """Everything the property observes at one scalar frequency."""
    def run():
        s = cal.get_sens(q)
        sf = cal.get_sf(q, L, a)
        sf0 = cal.get_sf(q, L)
        db = cal.get_db(q, v)
        out = {'sens': _n(s), 'sf': _n(sf), 'sf0': _n(sf0), 'db': _n(db),
               'rt': _n(cal.get_db(q, sf0)),                      # level -> volts -> level
               'inv': _n(cal.get_sf(q, db)),                      # volts -> level -> volts
               'sf20': _n(cal.get_sf(q, L, a + 20)),
               'sfL20': _n(cal.get_sf(q, L + 20, a)),
               'db10': _n(cal.get_db(q, 10 * v)),
               'gain': _n(cal.get_gain(q, L, a)),
               'att': _n(cal.get_attenuation(q, v, L))}
        out['att_inv'] = _n(cal.get_sf(q, L, cal.get_attenuation(q, v, L)))
        return out
    return _try(run)


def _impl_lookup(case):
    import pandas as pd
    cal = _make(case)
    qs, L, a, v = case['qs'], case['L'], case['a'], case['v']
    res = {'q': [_per_query(cal, q, L, a, v) for q in qs]}
    # array / list / 2-D forms
    for form in case['forms']:
        if form == 'list':
            arg = list(qs)
        elif form == '2d':
            arg = np.array(qs, dtype=float).reshape(2, -1)
        elif form == 'intarr':
            arg = np.array([int(q) for q in qs])
        else:
            arg = np.array(qs, dtype=float)
        res['arr_' + form] = _try(lambda: {'sens': _nl(cal.get_sens(arg)), 'sf': _nl(cal.get_sf(arg, L, a)),
                                            'db': _nl(cal.get_db(arg, v)), 'gain': _nl(cal.get_gain(arg, L, a)),
                                            'att': _nl(cal.get_attenuation(arg, v, L)),
                                            'shape_ok': np.shape(cal.get_sf(arg, L, a)) == np.shape(arg)})
    vs = [v * (1 + i) for i in range(len(qs))]
    res['series'] = _try(lambda: _nl(cal.get_db(pd.Series(vs, index=np.array(qs, dtype=float))).values))
    res['series_idx_ok'] = True
    df = pd.DataFrame([vs, [10 * x for x in vs]], columns=np.array(qs, dtype=float), index=['a', 'b'])
    res['frame'] = _try(lambda: _nl(cal.get_db(df).values))
    res['scalar_db_rows'] = [[_try(lambda q=q, x=x * m: _n(cal.get_db(q, x))) for q, x in zip(qs, vs)] for m in (1, 10)]
    # the second calibration: same table, fixed gain + 20 dB
    c2 = dict(case, g=case['g'] + 20)
    cal2 = _make(c2)
    res['g20'] = [_try(lambda q=q: {'sf': _n(cal2.get_sf(q, L, a)), 'db': _n(cal2.get_db(q, v))}) for q in qs]
    # get_mean_sf
    if case.get('mean'):
        flb, fub = case['mean']
        res['mean'] = _try(lambda: _n(cal.get_mean_sf(flb, fub, L, a)))
        res['mean20'] = _try(lambda: _n(cal.get_mean_sf(flb, fub, L, a + 20)))
        res['mean_default'] = _try(lambda: _n(cal.get_mean_sf(flb, fub, L)))
    # malformed calls fail loudly
    res['bad1'] = _try(lambda: _n(cal.get_db(1.0)))
    res['bad3'] = _try(lambda: _n(cal.get_db(1.0, 2.0, 3.0)))
    return res


def _impl_ctor(case):
    C = _cal()
    name, cls_name, A = case['ctor'], case['cls'], case['args']
    cls = {'flat': C.FlatCalibration, 'interp': C.InterpCalibration, 'point': C.PointCalibration}[cls_name]
    F = case.get('freqs', [1000.0])
    per = case.get('per_freq', False)     # per-frequency array arguments (broadcasting) for the table classes

    def arr(x):
        return np.array(x, dtype=float) if isinstance(x, list) else x
    if cls_name == 'flat':
        if name in ('unity',):
            cal = cls.unity()
        elif name == 'as_attenuation':
            cal = cls.as_attenuation(A['vrms'])
        elif name == 'from_mv_pa':
            cal = cls.from_mv_pa(A['mv_pa'])
        else:
            first = {'from_spl': 'spl', 'from_db': 'level', 'from_pascals': 'magnitude'}[name]
            cal = getattr(cls, name)(A[first], A['vrms'])
    else:
        first = {'from_spl': 'spl', 'from_db': 'level', 'from_pascals': 'magnitude'}[name]
        x = arr(A[first])
        if not isinstance(A[first], list):
            x = np.full(len(F), float(A[first]))
        cal = getattr(cls, name)(np.array(F, dtype=float), x, arr(A['vrms']))
    res = {'sens': _nl(cal.sensitivity), 'reference': cal.reference}
    qs = F
    vr = A.get('vrms', 1.0)
    vrl = vr if isinstance(vr, list) else [vr] * len(qs)
    res['db_at_vrms'] = [_n(cal.get_db(q, x)) for q, x in zip(qs, vrl)]
    if name == 'from_mv_pa':
        p = case['p']
        res['db_at_p'] = _n(cal.get_db(1000.0, A['mv_pa'] * 1e-3 * p))
        res['to_mv_pa'] = _n(cal.to_mv_pa())
        res['from_to'] = _n(cls.from_mv_pa(cal.to_mv_pa()).sensitivity)
    if name in ('from_spl', 'from_mv_pa'):
        res['alias'] = [_n(cal.get_spl(q, x)) for q, x in zip(qs, vrl)]
    L = case['L']
    res['sf_L'] = [_n(cal.get_sf(q, L)) for q in qs]
    return res


def _impl_util(case):
    import pandas as pd
    from psiaudio import util
    xs, ds, r = case['xs'], case['ds'], case['r']
    form = case['form']

    def mk(v):
        return {'list': list(v), 'array': np.array(v), 'series': pd.Series(v), 'scalar': v[0]}[form]
    arg, darg = mk(xs), mk(ds)
    d = util.db(arg, r)
    i = util.dbi(darg, r)
    return {'db': _nl(d), 'dbi_db': _nl(util.dbi(d, r)), 'dbi': _nl(i), 'db_dbi': _nl(util.db(i, r)),
            'db_times10': _nl(util.db(np.asarray(arg) * 10, r)), 'dbi_plus20': _nl(util.dbi(np.asarray(darg) + 20, r)),
            'patodb': _nl(util.patodb(arg)), 'dbtopa_patodb': _nl(util.dbtopa(util.patodb(arg))),
            'db_default': _nl(util.db(arg))}


def impl(case):
    import warnings
    with warnings.catch_warnings():
        warnings.simplefilter('ignore')
        return _impl(case)


def _impl(case):
    k = case['kind']
    if k in ('interp', 'point', 'flat'):
        return _impl_lookup(case)
    if k == 'ctor':
        return _impl_ctor(case)
    if k == 'util':
        return _impl_util(case)
    raise KeyError(k)


# ====================================================================================================================
# model side: Coq term (lookups in Q) and the numeric agreement of the generated definitions / array forms (glue)
def _glue(case, res):
    """Differences between (a) the generated definitions evaluated in binary64 on the sensitivity the implementation
    looked up and what the implementation's methods returned, (b) array / Series / DataFrame forms and the scalar form."""
    bad = []
    k = case['kind']
    if k in ('interp', 'point', 'flat'):
        L, a, v = case['L'], case['a'], case['v']
        for q, r in zip(case['qs'], res['q']):
            if _iserr(r):
                continue
            s = _f(r['sens'])
            if _DEFS is not None:
                for name, key, val in (('cal_get_sf', 'sf', (s, L, a)), ('cal_get_sf', 'sf0', (s, L, 0.0)),
                                       ('cal_get_db', 'db', (s, v)), ('cal_get_gain', 'gain', (s, L, a)),
                                       ('cal_get_attenuation', 'att', (s, v, L))):
                    with np.errstate(all='ignore'):
                        m = _n(_gen(name, *val))
                    if not _close(m, r[key], 1e-12):
                        bad.append(f'{name}{val} = {m} but implementation {key}({q}) = {r[key]}')
        scal = res['q']
        for form in case['forms']:
            arr = res['arr_' + form]
            if _iserr(arr):
                if k != 'point' or not any(_iserr(r) for r in scal):
                    bad.append(f'{form} form raised {arr} but scalar calls did not')
                continue
            if any(_iserr(r) for r in scal):
                bad.append(f'{form} form answered although a scalar call raised')
                continue
            if not arr['shape_ok']:
                bad.append(f'{form} form: result shape differs from the frequency shape')
            for key in ('sens', 'sf', 'db', 'gain', 'att'):
                if not _closel(arr[key], [r[key] for r in scal], 1e-12):
                    bad.append(f'{form} form {key} {arr[key]} != scalar {[r[key] for r in scal]}')
        rows = res['scalar_db_rows']
        anyerr = any(_iserr(x) for row in rows for x in row)
        if _iserr(res['series']) != any(_iserr(x) for x in rows[0]) or \
                (not _iserr(res['series']) and not _closel(res['series'], rows[0], 1e-12)):
            bad.append(f'get_db(Series) {res["series"]} != two-argument form {rows[0]}')
        if _iserr(res['frame']) != anyerr or \
                (not _iserr(res['frame']) and not _closel(res['frame'], rows[0] + rows[1], 1e-12)):
            bad.append(f'get_db(DataFrame) {res["frame"]} != two-argument form {rows}')
        if case.get('mean') and not _iserr(res['mean']) and _DEFS is not None:
            flb, fub = case['mean']
            cal = _make(case)
            with np.errstate(all='ignore'):
                ss = [float(cal.get_sens(float(f))) for f in range(int(flb), int(fub))]
                want = float(np.mean([_gen('cal_get_sf', s, L, a) for s in ss])) if k != 'flat' else \
                    float(_gen('flat_get_mean_sf', ss[0] if ss else float(cal.get_sens(flb)), L, a))
            if not _close(_n(want), res['mean'], 1e-11):
                bad.append(f'get_mean_sf {res["mean"]} != mean of generated get_sf {want}')
    elif k == 'ctor' and _DEFS is not None:
        name, A = case['ctor'], case['args']
        coq = ('flat_' if case['cls'] == 'flat' else 'freq_') + name
        params = _DEFS[coq][0]
        n = len(res['sens'])
        for i in range(n):
            args = [A[p][i] if isinstance(A[p], list) else A[p] for p in params]
            m = _n(_gen(coq, *[float(x) for x in args]))
            if not _close(m, res['sens'][i], 1e-12):
                bad.append(f'{coq}{args} = {m} but the constructor stored sensitivity {res["sens"][i]}')
    elif k == 'util' and _DEFS is not None:
        for i in range(len(case['xs']) if case['form'] != 'scalar' else 1):
            x, d = case['xs'][i], case['ds'][i]
            if not _close(_n(_gen('util_db', x, case['r'])), res['db'][i], 1e-12):
                bad.append(f'util_db {x} {case["r"]} != {res["db"][i]}')
            if not _close(_n(_gen('util_dbi', d, case['r'])), res['dbi'][i], 1e-12):
                bad.append(f'util_dbi {d} {case["r"]} != {res["dbi"][i]}')
            if not _close(_n(_gen('util_patodb', x)), res['patodb'][i], 1e-12):
                bad.append(f'util_patodb {x} != {res["patodb"][i]}')
    return bad


def _obs(case, q, r):
    if _iserr(r) or r['sens'] is None:
        return 'ONone'
    exact = case['g'] == 0 and q in case.get('freqs', [])
    return f"({'OExact' if exact else 'OVal'} {dy(r['sens'])})"


def term(case, res):
    k = case['kind']
    glue = _glue(case, res)
    res['glue'] = glue[:5]
    parts = [blit(not glue)]
    if k in ('interp', 'point'):
        # NaN (interp) and CalibrationError (point) are both the model's None; the other one is a disagreement
        for r in res['q']:
            if k == 'interp' and _iserr(r):
                return 'false'
            if k == 'point' and (not _iserr(r)) and r['sens'] is None:
                return 'false'
            if _iserr(r) and r['err'] != 'CalibrationError':
                return 'false'
        fs, ss = case['freqs'], case['sens']
        if k == 'interp':
            order = sorted(range(len(fs)), key=lambda i: fs[i])       # interp1d sorts the table
            fs, ss = [fs[i] for i in order], [ss[i] for i in order]
        t = _tbl(fs, ss)
        qs = listlit([f'({dy(q)}, {_obs(case, q, r)})' for q, r in zip(case['qs'], res['q'])])
        parts.append(f"check_{k} {t} {dy(case['g'])} {qs}")
        if case.get('mean'):
            flb, fub = case['mean']
            parts.append(f"check_mean_{k} {t} {zlit(flb)} {zlit(fub)} {blit(_iserr(res['mean']))}")
    elif k == 'flat':
        vals = [r['sens'] for r in res['q']]
        if any(_iserr(r) for r in res['q']) or any(x is None for x in vals):
            return 'false'
        parts.append(f"check_flat {dy(case['s'])} {dy(case['g'])} {listlit([dy(x) for x in vals])}")
        if case.get('mean') and _iserr(res['mean']):
            return 'false'                                         # a flat calibration answers every range
    return ' && '.join(f'({p})' for p in parts)


# ====================================================================================================================
# the property, judged on the implementation's answers only
def _db_of(x):
    return 20 * math.log10(x)


def _oracle_lookup(case, res):
    L, a, v, g = case['L'], case['a'], case['v'], case['g']
    k = case['kind']
    for q, r, r2 in zip(case['qs'], res['q'], res['g20']):
        want = _expected_sens(case, q)
        if want == 'none':
            # outside the calibrated range: NaN or an error, never a number
            if _iserr(r):
                continue
            for key in ('sens', 'sf', 'db', 'gain', 'att', 'rt', 'inv'):
                if r[key] is not None:
                    return f'{k}: frequency {q} is outside the calibrated range but {key} = {r[key]} (neither NaN nor an error)'
            continue
        if _iserr(r):
            return f'{k}: frequency {q} is calibrated but the request raised {r["err"]}'
        w = float(want)
        if r['sens'] is None or abs(r['sens'] - w) > TOL * max(1.0, abs(w)):
            return f'{k}: sensitivity at {q} Hz is {r["sens"]}, the table (linear in dB, minus fixed gain {g}) gives {w}'
        if g == 0 and q in case.get('freqs', []) and k == 'interp' and r['sens'] != w:
            return f'{k}: table point {q} Hz not reproduced exactly: {r["sens"]} != {w}'
        checks = [('get_db(get_sf(L)) = L', r['rt'], L),
                  ('get_sf(get_db(v)) = v', r['inv'], v),
                  ('get_sf(L, a+20) = 10 get_sf(L, a)', r['sf20'], None if r['sf'] is None else 10 * r['sf']),
                  ('get_sf(L+20, a) = 10 get_sf(L, a)', r['sfL20'], None if r['sf'] is None else 10 * r['sf']),
                  ('get_db(10 v) = get_db(v) + 20', r['db10'], None if r['db'] is None else r['db'] + 20),
                  ('get_sf(L, a) = 10^((L - sens + a)/20)', r['sf'], 10 ** ((L - w + a) / 20)),
                  ('get_db(v) = 20 log10 v + sens', r['db'], _db_of(v) + w),
                  ('get_gain = 20 log10 get_sf', r['gain'], None if not r['sf'] else _db_of(r['sf'])),
                  ('get_gain = L - sens + a', r['gain'], L - w + a),
                  ('get_sf(L, get_attenuation(v, L)) = v', r['att_inv'], v),
                  ('fixed gain + 20 dB: get_sf x 10', None if _iserr(r2) else r2['sf'], None if r['sf'] is None else 10 * r['sf']),
                  ('fixed gain + 20 dB: get_db - 20', None if _iserr(r2) else r2['db'], None if r['db'] is None else r['db'] - 20)]
        for what, got, exp in checks:
            if got is None or exp is None or isinstance(got, str) or not _close(got, exp):
                return f'{k} at {q} Hz (L={L}, a={a}, v={v}, fixed gain {g}): {what} fails: got {got}, expected {exp}'
    # array / Series / DataFrame forms must tell the same story as the scalar form
    scal = res['q']
    for form in case['forms']:
        arr = res['arr_' + form]
        if _iserr(arr):
            if not any(_iserr(r) for r in scal):
                return f'{k}: {form} frequency form raised {arr["err"]} although every scalar request is answered'
            continue
        for i, (q, r) in enumerate(zip(case['qs'], scal)):
            if _iserr(r) or not _close(arr['sf'][i], r['sf'], 1e-12) or not _close(arr['db'][i], r['db'], 1e-12):
                return f'{k}: {form} form at {q} Hz gives sf {arr["sf"][i]}, db {arr["db"][i]}; scalar form {r}'
    rows = res['scalar_db_rows']
    for what, got, exp in (('Series', res['series'], rows[0]), ('DataFrame', res['frame'], rows[0] + rows[1])):
        if _iserr(got):
            if not any(_iserr(x) for x in exp):
                return f'{k}: get_db({what}) raised {got["err"]}'
        elif any(_iserr(x) for x in exp) or not _closel(got, exp, 1e-12):
            return f'{k}: get_db({what}) = {got}, two-argument form gives {exp}'
    # get_mean_sf
    if case.get('mean'):
        flb, fub = case['mean']
        fr = list(range(int(flb), int(fub)))
        wants = [_expected_sens(case, f) for f in fr]
        m = res['mean']
        if k != 'flat' and (not fr or any(w == 'none' for w in wants)):
            if not _iserr(m) and m is not None:         # NaN or an error are both acceptable to the property
                return f'{k}: get_mean_sf({flb}, {fub}) covers uncalibrated frequencies (or nothing) but returned {m}'
        else:
            if _iserr(m):
                return f'{k}: get_mean_sf({flb}, {fub}) is inside the calibrated range but raised {m["err"]}'
            if k == 'flat':
                exp = 10 ** ((L - float(_expected_sens(case, flb)) + a) / 20)
            else:
                exp = sum(10 ** ((L - float(w) + a) / 20) for w in wants) / len(wants)
            if m is None or not _close(m, exp):
                return f'{k}: get_mean_sf({flb}, {fub}, {L}, attenuation={a}) = {m}, mean of get_sf is {exp}'
            m20 = res['mean20']
            if _iserr(m20) or m20 is None or not _close(m20, 10 * m):
                return (f'{k}: get_mean_sf({flb}, {fub}, {L}, attenuation={a + 20}) = {m20} is not 10 x '
                        f'get_mean_sf(..., attenuation={a}) = {m}')
    for key in ('bad1', 'bad3'):
        if not _iserr(res[key]):
            return f'{k}: malformed get_db call returned {res[key]} instead of raising'
    return None


def _oracle_ctor(case, res):
    name, A, L = case['ctor'], case['args'], case['L']
    n = len(res['sens'])

    def at(x, i):
        return x[i] if isinstance(x, list) else x
    for i in range(n):
        vr = at(A.get('vrms', 1.0), i)
        if name in ('from_spl', 'from_db'):
            lvl = at(A['spl' if name == 'from_spl' else 'level'], i)
        elif name == 'from_pascals':
            lvl = _db_of(at(A['magnitude'], i) / 20e-6)
        elif name == 'as_attenuation':
            lvl = 0.0
        else:
            lvl = None
        tag = f"{case['cls']}.{name}({A})"
        if lvl is not None:
            got = res['db_at_vrms'][i]
            if got is None or not _close(got, lvl):
                return f'{tag}: {vr} Vrms should read as {lvl} dB, get_db gives {got}'
            exp = vr * 10 ** ((L - lvl) / 20)
            if not _close(res['sf_L'][i], exp):
                return f'{tag}: get_sf({L}) = {res["sf_L"][i]}, expected {exp}'
        if name == 'unity':
            if not _close(res['sf_L'][i], 10 ** (L / 20)) or not _close(res['db_at_vrms'][i], 0.0):
                return f'{tag}: not a pass-through: get_sf({L}) = {res["sf_L"][i]}'
        if name == 'from_mv_pa':
            m, p = A['mv_pa'], case['p']
            if not _close(res['to_mv_pa'], m):
                return f'{tag}: to_mv_pa() = {res["to_mv_pa"]}'
            if not _close(res['from_to'], res['sens'][0]):
                return f'{tag}: from_mv_pa(to_mv_pa()) changes the sensitivity {res["sens"][0]} -> {res["from_to"]}'
            if not _close(res['db_at_p'], _db_of(p / 20e-6)):
                return f'{tag}: {p} Pa ({m * 1e-3 * p} V) reads as {res["db_at_p"]} dB SPL, expected {_db_of(p / 20e-6)}'
        if 'alias' in res and res['alias'][i] != res['db_at_vrms'][i]:
            return f'{tag}: get_spl differs from get_db'
    if name in ('from_spl', 'from_mv_pa') and res['reference'] != 'SPL':
        return f'{case["cls"]}.{name}: reference is {res["reference"]}'
    return None


def _oracle_util(case, res):
    n = len(case['xs']) if case['form'] != 'scalar' else 1
    r = case['r']
    for i in range(n):
        x, d = case['xs'][i], case['ds'][i]
        for what, got, exp in (('db(x)', res['db'][i], _db_of(x / r)), ('dbi(db(x)) = x', res['dbi_db'][i], x),
                               ('dbi(d)', res['dbi'][i], 10 ** (d / 20) * r),
                               ('db(dbi(d)) = d', res['db_dbi'][i], d),
                               ('db(10 x) = db(x) + 20', res['db_times10'][i], res['db'][i] + 20),
                               ('dbi(d + 20) = 10 dbi(d)', res['dbi_plus20'][i], 10 * res['dbi'][i]),
                               ('patodb', res['patodb'][i], _db_of(x / 20e-6)),
                               ('dbtopa(patodb(x)) = x', res['dbtopa_patodb'][i], x),
                               ('db default reference 1', res['db_default'][i], _db_of(x))):
            if got is None or isinstance(got, str) or not _close(got, exp):
                return f'util {what} fails at x={x}, d={d}, reference={r}: got {got}, expected {exp}'
    return None


def oracle(case, res):
    k = case['kind']
    if k in ('interp', 'point', 'flat'):
        return _oracle_lookup(case, res)
    if k == 'ctor':
        return _oracle_ctor(case, res)
    return _oracle_util(case, res)


def nontrivial(case, res):
    k = case['kind']
    if k in ('interp', 'point'):
        kinds = {_expected_sens(case, q) == 'none' for q in case['qs']}
        return len(kinds) == 2 or case['g'] != 0 or case['a'] != 0
    if k == 'flat':
        return case['g'] != 0 or case['a'] != 0
    return True


def key(case, res):
    return None


def distribution(cases, results):
    d = {'kinds': {}, 'queries': {'at_point': 0, 'between': 0, 'outside_or_uncalibrated': 0}, 'table_sizes': {},
         'forms': {}, 'mean_requests': {'answered': 0, 'raised': 0}, 'constructors': {}}
    for c, r in zip(cases, results):
        d['kinds'][c['kind']] = d['kinds'].get(c['kind'], 0) + 1
        if c['kind'] in ('interp', 'point'):
            d['table_sizes'][len(c['freqs'])] = d['table_sizes'].get(len(c['freqs']), 0) + 1
            for q in c['qs']:
                w = _expected_sens(c, q)
                kk = 'outside_or_uncalibrated' if w == 'none' else 'at_point' if q in c['freqs'] else 'between'
                d['queries'][kk] += 1
        if c['kind'] in ('interp', 'point', 'flat'):
            for f in c['forms']:
                d['forms'][f] = d['forms'].get(f, 0) + 1
            if c.get('mean') and isinstance(r, dict) and 'mean' in r:
                d['mean_requests']['raised' if _iserr(r['mean']) else 'answered'] += 1
        if c['kind'] == 'ctor':
            n = f"{c['cls']}.{c['ctor']}"
            d['constructors'][n] = d['constructors'].get(n, 0) + 1
    return d


# ====================================================================================================================
# generators
def _val(rng, style):
    if style == 'int':
        return float(rng.randint(-40, 130))
    if style == 'half':
        return rng.randint(-80, 260) / 2
    return rng.uniform(-40, 130)


def _lookup_case(rng, kind, small=False):
    n = rng.randint(2, 4 if small else 8)
    fstyle = rng.choice(['int', 'int', 'float'])
    if fstyle == 'int':
        fs = sorted(rng.sample(range(20, 300), n)) if rng.random() < 0.5 else \
            sorted(rng.sample([125, 250, 500, 1000, 2000, 4000, 8000, 16000, 32000, 64000], n))
        fs = [float(f) for f in fs]
    else:
        fs = sorted({round(rng.uniform(20, 20000), rng.choice([1, 3, 9])) for _ in range(n + 2)})[:n]
        while len(fs) < 2:
            fs.append(fs[-1] + 1.5)
    sstyle = rng.choice(['int', 'half', 'float'])
    ss = [_val(rng, sstyle) for _ in fs]
    g = rng.choice([0.0, 0.0, float(rng.randint(-40, 40)), rng.uniform(-40, 40)])
    form_f = rng.choice(['array', 'list', 'series'] + (['int'] if all(f == int(f) for f in fs) else []))
    form_s = rng.choice(['array', 'list', 'series'] + (['int'] if all(s == int(s) for s in ss) else []))
    order = list(range(len(fs)))
    if rng.random() < 0.3:
        rng.shuffle(order)
    if kind == 'point' and rng.random() < 0.15:
        order.append(order[0])                 # duplicated calibrated frequency: the first entry answers
        ss = ss + [ss[0] + 1.0]
        fs = fs + [fs[0]]
        order = list(range(len(fs)))
    fs, ss = [fs[i] for i in order], [ss[i] for i in order]
    lo, hi = min(fs), max(fs)
    srt = sorted(set(fs))
    qs = []
    for _ in range(rng.randint(1, 3)):
        qs.append(rng.choice(fs))
    qs += [lo, hi] if rng.random() < 0.5 else []
    for _ in range(rng.randint(1, 3)):
        i = rng.randrange(len(srt) - 1) if len(srt) > 1 else 0
        if len(srt) > 1:
            x0, x1 = srt[i], srt[i + 1]
            q = rng.choice([(x0 + x1) / 2, x0 + (x1 - x0) * rng.random(), float(np.nextafter(x0, x1)),
                            float(np.nextafter(x1, x0))])
            if x0 < q < x1:
                qs.append(q)
    out = [float(np.nextafter(lo, -np.inf)), float(np.nextafter(hi, np.inf)), lo - rng.choice([1, 0.5, 10]), hi + rng.choice([1, 0.25, 1000]),
           lo / 2, hi * 2]
    for _ in range(rng.randint(0, 3) if kind != 'flat' else 1):
        qs.append(rng.choice(out))
    if kind == 'point' and rng.random() < 0.5:
        qs = [q for q in qs if q in fs] or [fs[0]]       # all calibrated: array forms answer
    if len(qs) % 2:
        qs.append(rng.choice(fs))
    rng.shuffle(qs)
    forms = ['array', 'list', '2d']
    if all(q == int(q) for q in qs):
        forms.append('intarr')
    case = {'kind': kind, 'freqs': fs, 'sens': ss, 'g': g, 'form_f': form_f, 'form_s': form_s, 'qs': qs,
            'forms': sorted(rng.sample(forms, rng.randint(1, len(forms)))),
            'L': rng.choice([float(rng.randint(-20, 120)), rng.uniform(-20, 120)]),
            'a': rng.choice([0.0, 0.0, float(rng.randint(0, 60)), rng.uniform(-20, 60)]),
            'v': float(10 ** rng.uniform(-4, 2))}
    if kind == 'flat':
        case.update(s=ss[0], freqs=[], sens=[])
        del case['form_f'], case['form_s']
    # get_mean_sf over an integer range: inside / straddling an end / outside / empty
    ilo, ihi = math.ceil(lo), math.floor(hi)
    u = rng.random()
    if kind == 'point':
        c = int(rng.choice(fs)) if all(f == int(f) for f in fs) else int(lo)
        case['mean'] = rng.choice([[c, c + 1], [c, c + 2], [c - 1, c + 1], [c, c]])
    elif ihi - ilo >= 1:
        w = rng.randint(1, min(40, ihi - ilo))
        s0 = rng.randint(ilo, ihi - w)
        case['mean'] = ([s0, s0 + w] if u < 0.4 else [ihi - w + 1, ihi + 1] if u < 0.55 else [ihi - w + 1, ihi + 2] if u < 0.65
                        else [ilo - 1, ilo + w] if u < 0.8 else [ilo, ilo + 1] if u < 0.85 else [ihi + 5, ihi + 9] if u < 0.92 else [s0, s0 - 3 * (u < 0.96)])
    else:
        case['mean'] = [ilo, ilo + 1]
    return case


CTORS = {'flat': ['from_spl', 'from_db', 'from_pascals', 'from_mv_pa', 'unity', 'as_attenuation'],
         'interp': ['from_spl', 'from_db', 'from_pascals'], 'point': ['from_spl', 'from_db', 'from_pascals']}


def _ctor_case(rng, cls=None, name=None, wide=False):
    cls = cls or rng.choice(['flat', 'interp', 'point'])
    name = name or rng.choice(CTORS[cls])
    nf = 1 if cls == 'flat' else rng.randint(2, 4)
    F = sorted(rng.sample([250.0, 500.0, 1000.0, 2000.0, 4000.0, 8000.0], nf)) if cls != 'flat' else [1000.0]
    per = cls != 'flat' and rng.random() < 0.5

    def pos():
        e = rng.uniform(-5, 3) if wide else rng.uniform(-3, 2)
        return rng.choice([float(10 ** e), 1.0, 0.1, 2.0, float(rng.randint(1, 20))])

    def lvl():
        return rng.choice([float(rng.randint(0, 120)), rng.uniform(-20, 130)])

    def many(f, allow):
        return [f() for _ in range(nf)] if (per and allow) else f()
    A = {}
    if name in ('from_spl', 'from_db', 'from_pascals'):
        first = {'from_spl': 'spl', 'from_db': 'level', 'from_pascals': 'magnitude'}[name]
        A[first] = many(pos if name == 'from_pascals' else lvl, True)
        A['vrms'] = many(pos, rng.random() < 0.5)
    elif name == 'as_attenuation':
        A['vrms'] = pos()
    elif name == 'from_mv_pa':
        A['mv_pa'] = pos()
    case = {'kind': 'ctor', 'cls': cls, 'ctor': name, 'args': A, 'L': lvl(), 'freqs': F}
    if name == 'from_mv_pa':
        case['p'] = pos()
    return case


def _util_case(rng):
    n = rng.randint(1, 5)
    return {'kind': 'util', 'xs': [float(10 ** rng.uniform(-6, 4)) for _ in range(n)],
            'ds': [rng.choice([float(rng.randint(-120, 140)), rng.uniform(-120, 140)]) for _ in range(n)],
            'r': rng.choice([1.0, 20e-6, float(10 ** rng.uniform(-5, 2))]),
            'form': rng.choice(['list', 'array', 'series', 'scalar'])}


def corpus():
    """Fixed cases that are always run first: the unit-test table, and the inputs on which the two defects repaired in
    branch fix-C07 were found."""
    f = [500.0, 1000.0, 2000.0, 4000.0, 8000.0, 16000.0]
    s = [80.0, 90.0, 100.0, 100.0, 90.0, 80.0]
    base = {'freqs': f, 'sens': s, 'g': 0.0, 'form_f': 'int', 'form_s': 'int',
            'qs': [50.0, 500.0, 750.0, 16000.0, 20000.0, 1000.0], 'forms': ['array', 'list', '2d', 'intarr'],
            'L': 90.0, 'a': 20.0, 'v': 1.0}
    return [dict(base, kind='interp', mean=[500, 600]), dict(base, kind='interp', mean=[400, 600]),
            dict(base, kind='point', mean=[500, 501]), dict(base, kind='point', qs=[500.0, 16000.0], mean=[500, 502]),
            {'kind': 'flat', 's': 100.0, 'g': 10.0, 'freqs': [], 'sens': [], 'qs': [5.0, 1000.0], 'forms': ['array', 'list'],
             'L': 80.0, 'a': 20.0, 'v': 0.5, 'mean': [1, 2]},
            {'kind': 'ctor', 'cls': 'flat', 'ctor': 'from_pascals', 'args': {'magnitude': 2.0, 'vrms': 1.0}, 'L': 94.0,
             'freqs': [1000.0]},
            {'kind': 'ctor', 'cls': 'interp', 'ctor': 'from_pascals', 'args': {'magnitude': [2.0, 0.2], 'vrms': 0.5},
             'L': 94.0, 'freqs': [1000.0, 2000.0]},
            {'kind': 'ctor', 'cls': 'flat', 'ctor': 'from_mv_pa', 'args': {'mv_pa': 1.85}, 'L': 94.0, 'freqs': [1000.0],
             'p': 1.0}]


def cases(tier, rng):
    quick = tier == 'quick'
    for cls, names in CTORS.items():
        for name in names:
            for _ in range(6 if quick else 60):
                yield _ctor_case(rng, cls, name)
    for _ in range(220 if quick else 4000):
        yield _lookup_case(rng, 'interp')
    for _ in range(140 if quick else 2500):
        yield _lookup_case(rng, 'point')
    for _ in range(60 if quick else 800):
        yield _lookup_case(rng, 'flat')
    for _ in range(40 if quick else 500):
        yield _util_case(rng)


def search(tier, rng):
    """Called by the driver when a theorem about the regenerated definitions (or the correspondence) broke: look for a
    concrete input on which the IMPLEMENTATION violates one of the laws, over wider ranges than the regular cases."""
    found = []
    gens = [lambda: _ctor_case(rng, wide=True), lambda: _lookup_case(rng, 'flat', small=True),
            lambda: _lookup_case(rng, 'interp', small=True), lambda: _lookup_case(rng, 'point', small=True),
            lambda: _util_case(rng)]
    for i in range(400 if tier == 'quick' else 4000):
        case = gens[i % len(gens)]()
        try:
            res = impl(case)
            msg = oracle(case, res)
        except Exception as e:          # behaviour the property does not allow
            msg = f'unexpected {type(e).__name__}: {e}'
        if msg:
            found.append((case, msg))
            if len(found) >= 3:
                break
    return found
