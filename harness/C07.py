"""C07 - calibration conversions are mutually inverse, additive in dB, and fail loudly.

Real-valued laws: coq/Calib/Laws.v about coq/gen/CalibGen.v, REGENERATED here from $PSIAUDIO_REPO by
translate/pyexpr2coq.py (table: translate/c07_spec.py).  Lookups (interp1d / exact match / get_mean_sf): Q-valued model
coq/Calib/Interp.v, compared with the implementation case by case.  Theorems: coq/Props/C07.v."""
import math
import os
from fractions import Fraction

import numpy as np

import vlib
from vlib import zlit, listlit, blit
from translate import pyexpr2coq, c07_spec

PROP = 'C07'
REQUIRES = ['Calib.Interp']
RULE = ('InterpCalibration / PointCalibration / FlatCalibration objects built from random tables (2-8 points, or scalar '
        'frequency/sensitivity for PointCalibration; list, tuple, ndarray (float, integer, read-only) and pandas-Series tables; '
        'sorted and shuffled; the caller overwrites its table arrays after construction) with fixed gain 0 / integer / arbitrary '
        'given by keyword, positionally, by default or by set_fixed_gain after construction; optional reference= (alias '
        'get_<reference>), attrs=, phase= and numeric fill_value=.  Queried at table points, strictly between neighbours, one ulp '
        'and one Hz outside, far outside, NaN, +-inf and with an empty array; frequency as Python float / int, np.float64 / '
        'int64 / int32 / float32, 0-d array, list, tuple, float / integer / int32 / 2-D / read-only arrays (55% of the cases live '
        'on integer frequencies with fractional sensitivities so that integer-typed containers are the common case); levels, '
        'attenuations and voltages as float / int / np.int64; attenuation positionally and by keyword; get_db one-argument form '
        'with float and integer Series index / DataFrame columns; get_phase; get_mean_sf with int / float / NumPy / off-integer '
        'bounds inside, straddling and outside the table and empty; every constructor of every class with scalar, list, tuple, '
        'integer, Series arguments, default vrms, fixed_gain= and attrs= passed through; util.db/dbi/patodb/dbtopa on scalars, '
        'lists, tuples, arrays, Series, DataFrames, ints, with reference positionally and by keyword; load_demo_starship.  '
        'Non-trivial: the case mixes answered and unanswered frequencies, or uses a non-zero fixed gain or attenuation, or is a '
        'constructor / util / demo case.  Distinct = distinct case dictionaries.')
TRUSTED = ['translate/pyexpr2coq.py + translate/c07_spec.py (fail-closed AST translator; self-tested on every run by an '
           'independent interpreter of the emitted text against the real functions)',
           'harness/C07.py (generators; exact conversion of doubles to dyadic rationals; comparison of array/Series/DataFrame '
           'forms with the scalar form; numeric evaluation of the generated definitions in binary64)',
           'scipy interp1d / numpy.interp / np.vectorize / np.arange as modelled in coq/Calib/Interp.v (exercised, not proved)']
ASSUMPTIONS = ['the laws are proved over the real numbers; the implementation evaluates them in binary64 and agreement is '
               'observed to 1e-9 relative (float rounding of log10 and 10**x is not modelled)',
               'interpolation tables have >= 2 distinct finite frequencies (interp1d rejects shorter tables at construction) '
               '; a caller who passes a numeric fill_value explicitly opts out of NaN outside the range (the option is checked '
               'to be honoured; fill_value="extrapolate" and (below, above) tuples are not exercised)',
               'get_mean_sf: the frequency list np.arange(flb, fub) is evaluated by the harness with the same expression and handed '
               'to the model',
               'voltages, Pascal magnitudes and mV/Pa values are > 0 (arguments of log10)']

GEN = 'gen/CalibGen.v'
_DEFS = None          # parsed emitted definitions (for the numeric evaluation of the generated model)
TOL = 1e-9


# ====================================================================================================================
# translator tie
def _selftest(defs, rng):
    """Emitted text, interpreted independently, against the real functions on random arguments."""
    probes = c07_spec.probes()
    n, worst = 0, 0.0
    for name, (params, _) in defs.items():
        if name not in probes:
            raise pyexpr2coq.TranslatorGap(f'no probe for emitted definition {name}')
        for _ in range(12):
            kw = {}
            for p in params:
                if c07_spec.DOMAIN.get(p) == 'pos':
                    kw[p] = float(10 ** rng.uniform(-3, 3))
                else:
                    kw[p] = float(rng.choice([rng.uniform(-120, 120), float(rng.randint(-100, 100))]))
            want = float(probes[name](**kw))
            got = float(pyexpr2coq.evaluate(defs, name, [kw[p] for p in params], np))
            err = abs(want - got) / max(1.0, abs(want))
            worst = max(worst, err)
            n += 1
            if not err <= 1e-11:
                raise pyexpr2coq.TranslatorGap(
                    f'self-test: emitted {name}{kw} evaluates to {got!r}, the real function returns {want!r}')
    return n, worst


def translate(repo):
    """Regenerate coq/gen/CalibGen.v from the source under test.  A translator gap (or a failed self-test) is written
    as a generated file that does not compile, so that the driver reports the proofs as broken (fail closed)."""
    global _DEFS
    import random
    info = {'gen_files': [GEN], 'source': [os.path.join(repo, 'psiaudio/calibration.py'),
                                           os.path.join(repo, 'psiaudio/util.py')], 'gap': None}
    head = ('(* GENERATED on every run by harness/C07.py translate() with translate/pyexpr2coq.py from\n'
            f'   {repo}/psiaudio/util.py and {repo}/psiaudio/calibration.py - do not edit.\n'
            '   sens = self.get_sens(frequency); interp = self._interp(frequency); constructors: the `sensitivity` they pass on. *)\n')
    try:
        body, tinfo = pyexpr2coq.translate(repo, c07_spec.SPEC)
        defs = pyexpr2coq.parse_defs(body)
        if set(defs) != {f['coq'] for f in c07_spec.SPEC['functions']}:
            raise pyexpr2coq.TranslatorGap('emitted text does not parse back to the listed definitions')
        n, worst = _selftest(defs, random.Random(7))
        info.update(functions=tinfo['functions'], notes=tinfo['notes'],
                    selftest={'evaluations': n, 'max_rel_err': worst})
        _DEFS = defs
        text = head + c07_spec.SPEC['header'] + '\n' + body
    except pyexpr2coq.TranslatorGap as e:
        _DEFS = None
        info['gap'] = str(e)
        msg = ''.join(ch if ch.isalnum() or ch in " _.,:;()[]{}=+-*/<>'`" else ' ' for ch in str(e))
        msg = msg.replace('(*', '( *').replace('*)', '* )')[:400]
        # deliberately ill-typed, so that the build fails and coqc's error message carries the reason
        text = (head + 'From Coq Require Import Reals String.\n'
                f'Definition translator_gap : R :=\n  "{msg}"%string.\n')
    with open(os.path.join(vlib.COQ, GEN), 'w') as f:       # always rewritten: always re-checked
        f.write(text)
    # the correspondence files only need the hand-written Q model; make sure it is built even if the laws break
    rc, out = vlib.coq_build('Calib/Interp.vo')
    if rc != 0:
        raise vlib.MachineryError('Calib/Interp.v does not build:\n' + out[-3000:])
    return info


def _gen(name, *args):
    """Numeric (binary64 / numpy) value of a generated definition; None when the translator had a gap."""
    if _DEFS is None:
        return None
    return pyexpr2coq.evaluate(_DEFS, name, list(args), np)


# ====================================================================================================================
# helpers
def _cal():
    from psiaudio import calibration
    return calibration


def _n(x):
    """JSON-able number: NaN -> None, infinities -> strings."""
    x = float(x)
    if math.isnan(x):
        return None
    if math.isinf(x):
        return 'inf' if x > 0 else '-inf'
    return x


def _nl(a):
    return [_n(v) for v in np.asarray(a, dtype=float).ravel()]


def _f(x):
    return float('nan') if x is None else float(x)


def _try(f):
    C = _cal()
    try:
        return f()
    except C.CalibrationError:
        return {'err': 'CalibrationError'}
    except ValueError:
        return {'err': 'ValueError'}


def _iserr(x):
    return isinstance(x, dict) and 'err' in x


def _close(a, b, tol=TOL):
    """both None (NaN), or both numbers within tol relative (+ tol absolute)."""
    if _iserr(a) or _iserr(b):
        return _iserr(a) and _iserr(b)
    if a is None or b is None:
        return a is None and b is None
    if isinstance(a, str) or isinstance(b, str):
        return a == b
    return abs(a - b) <= tol * max(1.0, abs(a), abs(b))


def _closel(a, b, tol=TOL):
    if _iserr(a) or _iserr(b):
        return _iserr(a) and _iserr(b)
    return len(a) == len(b) and all(_close(x, y, tol) for x, y in zip(a, b))


def dy(x):
    n, d = float(x).as_integer_ratio()
    return f'(dy {zlit(n)} {zlit(-(d.bit_length() - 1))})'


def _tbl(fs, ss):
    return listlit([f'({dy(f)}, {dy(s)})' for f, s in zip(fs, ss)])


def _integral(x):
    return math.isfinite(x) and float(x) == int(x)


def _num(x, kind):
    """The caller's representation of a number: Python float / int, NumPy scalar, 0-d array.  Kinds that cannot hold
    the value exactly fall back to the Python float, so the value the code sees is always exactly x."""
    x = float(x)
    if kind == 'int' and _integral(x):
        return int(x)
    if kind == 'npint' and _integral(x):
        return np.int64(int(x))
    if kind == 'npint32' and _integral(x) and abs(x) < 2 ** 31:
        return np.int32(int(x))
    if kind == 'npfloat':
        return np.float64(x)
    if kind == 'f32' and math.isfinite(x) and float(np.float32(x)) == x:
        return np.float32(x)
    if kind == '0d':
        return np.array(x)
    if kind == '0dint' and _integral(x):
        return np.array(int(x))
    return x


def _table_arg(vals, form):
    import pandas as pd
    if form == 'list':
        return list(vals)
    if form == 'tuple':
        return tuple(vals)
    if form == 'intlist' and all(_integral(v) for v in vals):
        return [int(v) for v in vals]
    if form == 'int' and all(_integral(v) for v in vals):
        return np.array([int(v) for v in vals])
    if form == 'series':
        return pd.Series(list(vals))
    a = np.array(vals, dtype=float)
    if form == 'readonly':
        a.flags.writeable = False
    return a


def _clobber(x):
    """The caller reuses the arrays it passed to the constructor."""
    import pandas as pd
    if isinstance(x, np.ndarray) and x.flags.writeable:
        x[...] = 12345
    elif isinstance(x, pd.Series):
        x.iloc[:] = 12345
    elif isinstance(x, list):
        x[:] = [12345] * len(x)


def _make(case, g=None):
    C = _cal()
    k = case['kind']
    g = _num(case['g'] if g is None else g, case.get('gkind', 'float'))
    kw = {}
    if case.get('ref') is not None:
        kw['reference'] = case['ref']
    if case.get('attrs'):
        kw['attrs'] = {'source': 'audit'}
    g0 = case.get('set_g')                 # construct with another gain, then set_fixed_gain(g)
    ctor_g = g if g0 is None else _num(g0, case.get('gkind', 'float'))
    mode = case.get('g_mode', 'kw')        # fixed gain by keyword / positionally / left at its default when it is 0
    pos = ()
    if mode == 'pos':
        pos = (ctor_g,)
    elif mode == 'kw' or ctor_g != 0:
        kw['fixed_gain'] = ctor_g
    if k == 'flat':
        cal = C.FlatCalibration(_num(case['s'], case.get('skind', 'float')), *pos, **kw)
    else:
        if case.get('scalar_ctor'):
            fs, ss = _num(case['freqs'][0], case.get('qkind', 'float')), _num(case['sens'][0], case.get('skind', 'float'))
        else:
            fs = _table_arg(case['freqs'], case['form_f'])
            ss = _table_arg(case['sens'], case['form_s'])
        ph = None
        if k == 'interp':
            if case.get('phase') is not None:
                ph = kw['phase'] = _table_arg(case['phase'], case.get('form_p', 'list'))
            if case.get('fill') is not None:
                kw['fill_value'] = case['fill']
        cls = C.InterpCalibration if k == 'interp' else C.PointCalibration
        cal = cls(fs, ss, *pos, **kw)
        for x in (fs, ss, ph):
            _clobber(x)
    if g0 is not None:
        cal.set_fixed_gain(g)
    return cal


def _interp_exact(pts, q):
    pts = sorted(pts)
    if q < pts[0][0] or q > pts[-1][0]:
        return 'none'
    for (x0, y0), (x1, y1) in zip(pts, pts[1:]):
        if x0 <= q <= x1:
            return y0 + (y1 - y0) * (q - x0) / (x1 - x0)
    raise AssertionError


def _expected_sens(case, q):
    """Exact (Fraction) sensitivity the PROPERTY prescribes at q, 'none' outside / uncalibrated (with an explicit numeric
    fill_value: that value, the caller's opt-out).  Independent of the implementation and of the Coq model."""
    g = Fraction(case['g'])
    if case['kind'] == 'flat':
        return Fraction(case['s']) - g
    pts = [(Fraction(f), Fraction(s)) for f, s in zip(case['freqs'], case['sens'])]
    q = Fraction(q)
    if case['kind'] == 'point':
        for f, s in pts:
            if f == q:
                return s - g
        return 'none'
    w = _interp_exact(pts, q)
    if w == 'none':
        return 'none' if case.get('fill') is None else Fraction(case['fill']) - g
    return w - g


def _expected_phase(case, q):
    w = _interp_exact([(Fraction(f), Fraction(p)) for f, p in zip(case['freqs'], case['phase'])], Fraction(q))
    if w == 'none' and case.get('fill') is not None:
        return Fraction(case['fill'])
    return w


def _outside(case, q):
    """q has no calibrated sensitivity (regardless of an explicit fill value)."""
    if case['kind'] == 'flat':
        return False
    if case['kind'] == 'point':
        return all(Fraction(f) != Fraction(q) for f in case['freqs'])
    return not min(case['freqs']) <= q <= max(case['freqs'])


def _lav(case):
    nk = case.get('nkind', 'float')
    return _num(case['L'], nk), _num(case['a'], nk), _num(case['v'], nk)


def _container(qs, form):
    ints = [int(q) for q in qs] if all(_integral(q) for q in qs) else None
    if form == 'list':
        return list(qs)
    if form == 'tuple':
        return tuple(qs)
    if form == '2d':
        return np.array(qs, dtype=float).reshape(2, -1)
    if form == 'intarr':
        return np.array(ints)
    if form == 'int32arr':
        return np.array(ints, dtype=np.int32)
    if form == 'intlist':
        return list(ints)
    if form == 'inttuple':
        return tuple(ints)
    if form == 'int2d':
        return np.array(ints).reshape(2, -1)
    a = np.array(qs, dtype=float)
    if form == 'readonly':
        a.flags.writeable = False
    return a


# ====================================================================================================================
# implementation side
def _calls(cal, case):
    """get_sf / get_gain / get_mean_sf with the attenuation given positionally or by keyword."""
    if case.get('kw'):
        return (lambda q, L, a: cal.get_sf(q, L, attenuation=a), lambda q, L, a: cal.get_gain(q, L, attenuation=a),
                lambda lo, hi, L, a: cal.get_mean_sf(lo, hi, L, attenuation=a))
    return cal.get_sf, cal.get_gain, cal.get_mean_sf


def _per_query(cal, q, case):
    """Everything the property observes at one scalar frequency."""
    L, a, v = _lav(case)
    q = _num(q, case.get('qkind', 'float'))
    get_sf, get_gain, _ = _calls(cal, case)

    def run():
        s = cal.get_sens(q)
        sf = get_sf(q, L, a)
        sf0 = cal.get_sf(q, L)
        db = cal.get_db(q, v)
        out = {'sens': _n(s), 'sf': _n(sf), 'sf0': _n(sf0), 'db': _n(db),
               'rt': _n(cal.get_db(q, sf0)),                      # level -> volts -> level
               'inv': _n(cal.get_sf(q, db)),                      # volts -> level -> volts
               'sf20': _n(get_sf(q, L, a + 20)),
               'sfL20': _n(get_sf(q, L + 20, a)),
               'db10': _n(cal.get_db(q, 10 * v)),
               'gain': _n(get_gain(q, L, a)),
               'gain0': _n(cal.get_gain(q, L)),
               'att': _n(cal.get_attenuation(q, v, L))}
        out['att_inv'] = _n(get_sf(q, L, cal.get_attenuation(q, v, L)))
        if case.get('ref'):
            out['alias'] = _n(getattr(cal, 'get_' + case['ref'].lower())(q, v))
        return out
    return _try(run)


def _arr_form(cal, case, form):
    L, a, v = _lav(case)
    get_sf, get_gain, _ = _calls(cal, case)
    arg = _container(case['qs'], form)
    before = np.array(arg, dtype=float).copy()

    def run():
        s = cal.get_sens(arg)
        out = {'sens': _nl(s), 'sens_is_float': np.asarray(s).dtype.kind == 'f'}
        try:                                   # the caller writes into what it received ...
            np.asarray(s)[...] = -777.0
        except ValueError:
            pass
        sf = get_sf(arg, L, a)
        out.update(sf=_nl(sf), shape_ok=np.shape(sf) == np.shape(arg), sens2=_nl(cal.get_sens(arg)),   # ... and asks again
                   db=_nl(cal.get_db(arg, v)), gain=_nl(get_gain(arg, L, a)), att=_nl(cal.get_attenuation(arg, v, L)))
        out['arg_unchanged'] = bool(np.array_equal(np.array(arg, dtype=float), before))
        return out
    return _try(run)


def _impl_lookup(case):
    import pandas as pd
    cal = _make(case)
    qs = case['qs']
    L, a, v = _lav(case)
    res = {'q': [_per_query(cal, q, case) for q in qs]}
    for form in case['forms']:
        res['arr_' + form] = _arr_form(cal, case, form)
    # zero-length request: empty answer or an error
    e = np.array([])
    res['empty'] = _try(lambda: [int(np.size(cal.get_sens(e))), int(np.size(cal.get_sf(e, L, a))),
                                 int(np.size(cal.get_db(e, v)))])
    if case['kind'] != 'flat':
        res['nanq'] = [_try(lambda x=x: _n(cal.get_sens(x))) for x in (float('nan'), float('inf'), float('-inf'))]
    # get_db one-argument forms; float or integer index / columns
    vs = [float(v) * (1 + i) for i in range(len(qs))]
    idx = np.array([int(q) for q in qs]) if (case.get('pd_int') and all(_integral(q) for q in qs)) else np.array(qs, dtype=float)
    volt = [int(x) for x in vs] if all(_integral(x) for x in vs) and case.get('nkind', 'float') != 'float' else vs
    res['series'] = _try(lambda: _nl(cal.get_db(pd.Series(volt, index=idx)).values))
    df = pd.DataFrame([volt, [10 * x for x in volt]], columns=idx, index=['a', 'b'])
    res['frame'] = _try(lambda: _nl(cal.get_db(df).values))
    res['scalar_db_rows'] = [[_try(lambda q=q, x=x * m: _n(cal.get_db(q, x))) for q, x in zip(qs, vs)] for m in (1, 10)]
    # the second calibration: same table, fixed gain + 20 dB
    cal2 = _make(case, g=case['g'] + 20)
    res['g20'] = [_try(lambda q=q: {'sf': _n(cal2.get_sf(q, L, a)), 'db': _n(cal2.get_db(q, v))}) for q in qs]
    # phase (InterpCalibration): same interpolation, no fixed gain
    if case['kind'] == 'interp':
        qk = case.get('qkind', 'float')
        res['phase'] = [_try(lambda q=q: _n(cal.get_phase(_num(q, qk)))) for q in qs]
        res['phase_arr'] = _try(lambda: _nl(cal.get_phase(_container(qs, case['forms'][0]))))
    # get_mean_sf
    if case.get('mean'):
        mk = case.get('mean_kind', 'int')
        flb, fub = (_num(x, mk) for x in case['mean'])
        get_mean = _calls(cal, case)[2]
        res['mean_fs'] = [float(f) for f in np.arange(flb, fub)]      # the code's own expression for the frequencies
        res['mean'] = _try(lambda: _n(get_mean(flb, fub, L, a)))
        res['mean20'] = _try(lambda: _n(get_mean(flb, fub, L, a + 20)))
        res['mean_default'] = _try(lambda: _n(cal.get_mean_sf(flb, fub, L)))
    # malformed calls fail loudly
    res['bad0'] = _try(lambda: _n(cal.get_db()))
    res['bad1'] = _try(lambda: _n(cal.get_db(1.0)))
    res['bad3'] = _try(lambda: _n(cal.get_db(1.0, 2.0, 3.0)))
    return res


def _impl_ctor(case):
    C = _cal()
    name, cls_name, A = case['ctor'], case['cls'], case['args']
    cls = {'flat': C.FlatCalibration, 'interp': C.InterpCalibration, 'point': C.PointCalibration}[cls_name]
    F = case.get('freqs', [1000.0])
    nk = case.get('nkind', 'float')
    kw = {}
    if case.get('fixed_gain') is not None:
        kw['fixed_gain'] = _num(case['fixed_gain'], nk)      # passed through **kwargs to the class
    if case.get('attrs'):
        kw['attrs'] = {'source': 'audit'}
    omit = case.get('omit_vrms', False)                      # rely on the default vrms=1

    def arr(x):
        if isinstance(x, list):
            return _table_arg(x, case.get('arg_form', 'array'))
        return _num(x, nk)
    first = {'from_spl': 'spl', 'from_db': 'level', 'from_pascals': 'magnitude'}.get(name)
    def build():
        if cls_name == 'flat':
            if name == 'unity':
                cal = cls.unity()
            elif name == 'as_attenuation':
                cal = cls.as_attenuation(**kw) if omit else cls.as_attenuation(arr(A['vrms']), **kw)
            elif name == 'from_mv_pa':
                cal = cls.from_mv_pa(arr(A['mv_pa']), **kw)
            else:
                cal = getattr(cls, name)(arr(A[first]), **kw) if omit else getattr(cls, name)(arr(A[first]), arr(A['vrms']), **kw)
        else:
            x = arr(A[first])
            if not isinstance(A[first], list):
                x = np.full(len(F), float(A[first]))
            fq = _table_arg(F, case.get('form_f', 'array'))
            cal = getattr(cls, name)(fq, x, **kw) if omit else getattr(cls, name)(fq, x, arr(A['vrms']), **kw)
        return cal
    cal = build()
    res = {'sens': _nl(cal.sensitivity), 'reference': cal.reference}
    qs = F
    vr = 1.0 if omit else A.get('vrms', 1.0)
    vrl = vr if isinstance(vr, list) else [vr] * len(qs)
    res['db_at_vrms'] = [_n(cal.get_db(q, x)) for q, x in zip(qs, vrl)]
    if name == 'from_mv_pa':
        p = case['p']
        res['db_at_p'] = _n(cal.get_db(1000.0, A['mv_pa'] * 1e-3 * p))
        res['to_mv_pa'] = _n(cal.to_mv_pa())
        res['from_to'] = _n(cls.from_mv_pa(cal.to_mv_pa()).sensitivity)
    if name in ('from_spl', 'from_mv_pa'):
        res['alias'] = [_n(cal.get_spl(q, x)) for q, x in zip(qs, vrl)]
    L = _num(case['L'], nk)
    res['sf_L'] = [_n(cal.get_sf(q, L)) for q in qs]
    # two objects from the SAME constructor call are independent: giving one another fixed gain leaves the other alone
    twin = build()
    g_old = cal.fixed_gain
    cal.set_fixed_gain(g_old + 20)
    res['twin_sf_L'] = [_n(twin.get_sf(q, L)) for q in qs]
    res['moved_sf_L'] = [_n(cal.get_sf(q, L)) for q in qs]
    cal.set_fixed_gain(g_old)
    return res


def _impl_util(case):
    import pandas as pd
    from psiaudio import util
    xs, ds = case['xs'], case['ds']
    nk = case.get('nkind', 'float')
    r = _num(case['r'], nk)
    form = case['form']

    def mk(v):
        if nk != 'float' and all(_integral(x) for x in v):
            v = [int(x) for x in v]
        return {'list': list(v), 'tuple': tuple(v), 'array': np.array(v), 'series': pd.Series(v),
                'frame': pd.DataFrame([v]), 'scalar': _num(v[0], nk)}[form]
    arg, darg = mk(xs), mk(ds)
    d = util.db(arg, r)
    i = util.dbi(darg, r)
    return {'db': _nl(d), 'dbi_db': _nl(util.dbi(d, r)), 'dbi': _nl(i), 'db_dbi': _nl(util.db(i, r)),
            'db_kw': _nl(util.db(arg, reference=r)), 'dbi_kw': _nl(util.dbi(darg, reference=r)),
            'db_times10': _nl(util.db(np.asarray(arg) * 10, r)), 'dbi_plus20': _nl(util.dbi(np.asarray(darg) + 20, r)),
            'patodb': _nl(util.patodb(arg)), 'dbtopa_patodb': _nl(util.dbtopa(util.patodb(arg))),
            'db_default': _nl(util.db(arg)), 'dbi_default': _nl(util.dbi(darg))}


def _impl_starship(case):
    """load_demo_starship(): the shipped table through InterpCalibration (with phase)."""
    C = _cal()
    cal = C.load_demo_starship()
    qs = case['qs']
    return {'sens': [_n(cal.get_sens(q)) for q in qs], 'phase': [_n(cal.get_phase(q)) for q in qs],
            'arr': _nl(cal.get_sens(np.array(qs))), 'rt': [_n(cal.get_db(q, cal.get_sf(q, case['L']))) for q in qs],
            'out': [_n(cal.get_sens(q)) for q in case['out']]}


def _impl_psd_series(case):
    """a spectrum labelled by util.psd_df handed to get_db(Series / DataFrame): the level of every bin is read at the
    frequency of that bin (k * fs / n, odd and even n, with averaging)"""
    from psiaudio import util
    C = _cal()
    n, fs, B = case['n'], case['fs'], case['B']
    rs = np.random.RandomState(case['seed'])
    x = np.sqrt(2) * np.cos(2 * np.pi * case['k'] * np.arange(n) / n + 0.3) + 0.05 * rs.uniform(-1, 1, n)
    long = np.concatenate([x] * B)
    cal = C.InterpCalibration(np.array(case['freqs']), np.array(case['sens']))
    ser = util.psd_df(long, fs, waveform_averages=B if B > 1 else None, detrend=None)
    frame = util.psd_df(np.stack([long, 2 * long]), fs, waveform_averages=B if B > 1 else None, detrend=None)
    # the frequency of bin k as NumPy's own rfftfreq states it (k / (n / fs): at the Nyquist bin this float can lie one
    # ulp above fs / 2, i.e. outside a table that ends exactly at fs / 2 - for the Series and the scalar lookup alike)
    true_f = np.fft.rfftfreq(n, 1 / fs)
    vals = util.psd(long, fs, waveform_averages=B if B > 1 else None, detrend=None)
    return {'series': _nl(cal.get_db(ser).values), 'frame': _nl(cal.get_db(frame).values), 'labels': _nl(ser.index.values),
            'want': [_n(cal.get_db(f, v)) for f, v in zip(true_f, vals)],
            'want2': [_n(cal.get_db(f, 2 * v)) for f, v in zip(true_f, vals)], 'true_f': _nl(true_f)}


def impl(case):
    import warnings
    with warnings.catch_warnings():
        warnings.simplefilter('ignore')
        return _impl(case)


def _impl(case):
    k = case['kind']
    if k in ('interp', 'point', 'flat'):
        return _impl_lookup(case)
    if k == 'ctor':
        return _impl_ctor(case)
    if k == 'util':
        return _impl_util(case)
    if k == 'starship':
        return _impl_starship(case)
    if k == 'psd_series':
        return _impl_psd_series(case)
    raise KeyError(k)


# ====================================================================================================================
# model side: Coq term (lookups in Q) and the numeric agreement of the generated definitions / array forms (glue)
def _glue(case, res):
    """Differences between (a) the generated definitions evaluated in binary64 on the sensitivity the implementation
    looked up and what the implementation's methods returned, (b) array / Series / DataFrame forms and the scalar form."""
    bad = []
    k = case['kind']
    if k in ('interp', 'point', 'flat'):
        L, a, v = case['L'], case['a'], case['v']
        for q, r in zip(case['qs'], res['q']):
            if _iserr(r):
                continue
            s = _f(r['sens'])
            if _DEFS is not None:
                for name, key, val in (('cal_get_sf', 'sf', (s, L, a)), ('cal_get_sf', 'sf0', (s, L, 0.0)),
                                       ('cal_get_db', 'db', (s, v)), ('cal_get_gain', 'gain', (s, L, a)),
                                       ('cal_get_gain', 'gain0', (s, L, 0.0)),
                                       ('cal_get_attenuation', 'att', (s, v, L))):
                    with np.errstate(all='ignore'):
                        m = _n(_gen(name, *val))
                    if not _close(m, r[key], 1e-12):
                        bad.append(f'{name}{val} = {m} but implementation {key}({q}) = {r[key]}')
        scal = res['q']
        for form in case['forms']:
            arr = res['arr_' + form]
            if _iserr(arr):
                if k != 'point' or not any(_iserr(r) for r in scal):
                    bad.append(f'{form} form raised {arr} but scalar calls did not')
                continue
            if any(_iserr(r) for r in scal):
                bad.append(f'{form} form answered although a scalar call raised')
                continue
            if not arr['shape_ok']:
                bad.append(f'{form} form: result shape differs from the frequency shape')
            if not arr['arg_unchanged']:
                bad.append(f'{form} form: the frequency argument was modified')
            for key, skey in (('sens', 'sens'), ('sens2', 'sens'), ('sf', 'sf'), ('db', 'db'), ('gain', 'gain'), ('att', 'att')):
                if not _closel(arr[key], [r[skey] for r in scal], 1e-12):
                    bad.append(f'{form} form {key} {arr[key]} != scalar {[r[skey] for r in scal]}')
        rows = res['scalar_db_rows']
        anyerr = any(_iserr(x) for row in rows for x in row)
        if _iserr(res['series']) != any(_iserr(x) for x in rows[0]) or \
                (not _iserr(res['series']) and not _closel(res['series'], rows[0], 1e-12)):
            bad.append(f'get_db(Series) {res["series"]} != two-argument form {rows[0]}')
        if _iserr(res['frame']) != anyerr or \
                (not _iserr(res['frame']) and not _closel(res['frame'], rows[0] + rows[1], 1e-12)):
            bad.append(f'get_db(DataFrame) {res["frame"]} != two-argument form {rows}')
        if k == 'interp' and not _closel(res['phase_arr'], res['phase'] if not any(_iserr(p) for p in res['phase'])
                                         else {'err': 'ValueError'}, 1e-12):
            bad.append(f'get_phase array form {res["phase_arr"]} != scalar form {res["phase"]}')
        if case.get('mean') and not _iserr(res['mean']) and _DEFS is not None:
            cal = _make(case)
            with np.errstate(all='ignore'):
                ss = [float(cal.get_sens(f)) for f in res['mean_fs']]
                want = float(np.mean([_gen('cal_get_sf', s, L, a) for s in ss])) if k != 'flat' else \
                    float(_gen('flat_get_mean_sf', float(cal.get_sens(case['mean'][0])), L, a))
            if not _close(_n(want), res['mean'], 1e-11):
                bad.append(f'get_mean_sf {res["mean"]} != mean of generated get_sf {want}')
    elif k == 'ctor' and _DEFS is not None:
        name, A = case['ctor'], case['args']
        coq = ('flat_' if case['cls'] == 'flat' else 'freq_') + name
        params = _DEFS[coq][0]
        n = len(res['sens'])
        for i in range(n):
            args = [1.0 if (p == 'vrms' and case.get('omit_vrms')) else A[p][i] if isinstance(A[p], list) else A[p]
                    for p in params]
            m = _n(_gen(coq, *[float(x) for x in args]))
            if not _close(m, res['sens'][i], 1e-12):
                bad.append(f'{coq}{args} = {m} but the constructor stored sensitivity {res["sens"][i]}')
    elif k == 'util' and _DEFS is not None:
        for i in range(len(case['xs']) if case['form'] != 'scalar' else 1):
            x, d = case['xs'][i], case['ds'][i]
            if not _close(_n(_gen('util_db', x, case['r'])), res['db'][i], 1e-12):
                bad.append(f'util_db {x} {case["r"]} != {res["db"][i]}')
            if not _close(_n(_gen('util_dbi', d, case['r'])), res['dbi'][i], 1e-12):
                bad.append(f'util_dbi {d} {case["r"]} != {res["dbi"][i]}')
            if not _close(_n(_gen('util_patodb', x)), res['patodb'][i], 1e-12):
                bad.append(f'util_patodb {x} != {res["patodb"][i]}')
    return bad


def _obs(val, exact):
    if _iserr(val) or val is None or isinstance(val, str):
        return 'ONone'
    return f"({'OExact' if exact else 'OVal'} {dy(val)})"


def _optq(x):
    return 'None' if x is None else f'(Some {dy(x)})'


def term(case, res):
    k = case['kind']
    glue = _glue(case, res)
    res['glue'] = glue[:5]
    parts = [blit(not glue)]
    if k in ('interp', 'point'):
        # NaN (interp) and CalibrationError (point) are both the model's None; the other one is a disagreement
        for r in res['q']:
            if k == 'interp' and _iserr(r):
                return 'false'
            if k == 'point' and (not _iserr(r)) and r['sens'] is None:
                return 'false'
            if _iserr(r) and r['err'] != 'CalibrationError':
                return 'false'
        fs, ss = case['freqs'], case['sens']
        order = list(range(len(fs)))
        if k == 'interp':
            order = sorted(order, key=lambda i: fs[i])               # interp1d sorts the table
        t = _tbl([fs[i] for i in order], [ss[i] for i in order])
        g0 = case['g'] == 0
        fill = case.get('fill')
        qs = listlit([f"({dy(q)}, {_obs(r if _iserr(r) else r['sens'], g0 and (q in fs or (fill is not None and _outside(case, q))))})"
                      for q, r in zip(case['qs'], res['q'])])
        if k == 'interp':
            parts.append(f"check_interp_fill {t} {_optq(fill)} {dy(case['g'])} {qs}")
            if fill is None:
                parts.append(f"check_interp {t} {dy(case['g'])} {qs}")
            if case.get('phase') is not None:
                tp = _tbl([fs[i] for i in order], [case['phase'][i] for i in order])
                qp = listlit([f"({dy(q)}, {_obs(p, q in fs or (fill is not None and _outside(case, q)))})"
                              for q, p in zip(case['qs'], res['phase'])])
                parts.append(f"check_interp_fill {tp} {_optq(fill)} {dy(0.0)} {qp}")
            elif not all(_iserr(p) and p['err'] == 'ValueError' for p in res['phase']):
                return 'false'                                       # no phase data: get_phase raises ValueError
        else:
            parts.append(f"check_point {t} {dy(case['g'])} {qs}")
        if case.get('mean'):
            flb, fub = case['mean']
            raised = blit(_iserr(res['mean']))
            mfs = listlit([dy(f) for f in res['mean_fs']])
            if k == 'interp':
                parts.append(f"check_mean_fs_interp {t} {_optq(fill)} {mfs} {raised}")
            else:
                parts.append(f"check_mean_fs_point {t} {mfs} {raised}")
            if _integral(flb) and _integral(fub) and fill is None:
                parts.append(f"check_mean_{k} {t} {zlit(flb)} {zlit(fub)} {raised}")
    elif k == 'flat':
        vals = [r['sens'] for r in res['q']]
        if any(_iserr(r) for r in res['q']) or any(x is None for x in vals):
            return 'false'
        parts.append(f"check_flat {dy(case['s'])} {dy(case['g'])} {listlit([dy(x) for x in vals])}")
        if case.get('mean') and _iserr(res['mean']):
            return 'false'                                         # a flat calibration answers every range
    elif k == 'starship':
        fs, ss, ps = case['win_f'], case['win_s'], case['win_p']
        parts.append(f"check_interp {_tbl(fs, ss)} {dy(0.0)} " +
                     listlit([f'({dy(q)}, {_obs(s, False)})' for q, s in zip(case['qs'], res['sens'])]))
        parts.append(f"check_interp {_tbl(fs, ps)} {dy(0.0)} " +
                     listlit([f'({dy(q)}, {_obs(p, False)})' for q, p in zip(case['qs'], res['phase'])]))
    return ' && '.join(f'({p})' for p in parts)


# ====================================================================================================================
# the property, judged on the implementation's answers only
def _db_of(x):
    return 20 * math.log10(x)


def _oracle_lookup(case, res):
    L, a, v, g = case['L'], case['a'], case['v'], case['g']
    k = case['kind']
    for q, r, r2 in zip(case['qs'], res['q'], res['g20']):
        want = _expected_sens(case, q)
        if want == 'none':
            # outside the calibrated range: NaN or an error, never a number
            if _iserr(r):
                continue
            for key in ('sens', 'sf', 'db', 'gain', 'att', 'rt', 'inv'):
                if r[key] is not None:
                    return f'{k}: frequency {q} is outside the calibrated range but {key} = {r[key]} (neither NaN nor an error)'
            continue
        if _iserr(r):
            return f'{k}: frequency {q} ({case.get("qkind", "float")}) is calibrated but the request raised {r["err"]}'
        w = float(want)
        if r['sens'] is None or abs(r['sens'] - w) > TOL * max(1.0, abs(w)):
            return (f'{k}: sensitivity at {q} Hz ({case.get("qkind", "float")}) is {r["sens"]}, the table (linear in dB, '
                    f'minus fixed gain {g}) gives {w}')
        if g == 0 and q in case.get('freqs', []) and k == 'interp' and r['sens'] != w:
            return f'{k}: table point {q} Hz not reproduced exactly: {r["sens"]} != {w}'
        checks = [('get_db(get_sf(L)) = L', r['rt'], L),
                  ('get_sf(get_db(v)) = v', r['inv'], v),
                  ('get_sf(L, a+20) = 10 get_sf(L, a)', r['sf20'], None if r['sf'] is None else 10 * r['sf']),
                  ('get_sf(L+20, a) = 10 get_sf(L, a)', r['sfL20'], None if r['sf'] is None else 10 * r['sf']),
                  ('get_db(10 v) = get_db(v) + 20', r['db10'], None if r['db'] is None else r['db'] + 20),
                  ('get_sf(L, a) = 10^((L - sens + a)/20)', r['sf'], 10 ** ((L - w + a) / 20)),
                  ('get_sf(L) = 10^((L - sens)/20)', r['sf0'], 10 ** ((L - w) / 20)),
                  ('get_db(v) = 20 log10 v + sens', r['db'], _db_of(v) + w),
                  ('get_gain = 20 log10 get_sf', r['gain'], None if not r['sf'] else _db_of(r['sf'])),
                  ('get_gain = L - sens + a', r['gain'], L - w + a),
                  ('get_gain default attenuation = L - sens', r['gain0'], L - w),
                  ('get_sf(L, get_attenuation(v, L)) = v', r['att_inv'], v),
                  ('fixed gain + 20 dB: get_sf x 10', None if _iserr(r2) else r2['sf'], None if r['sf'] is None else 10 * r['sf']),
                  ('fixed gain + 20 dB: get_db - 20', None if _iserr(r2) else r2['db'], None if r['db'] is None else r['db'] - 20)]
        if case.get('ref'):
            checks.append((f'get_{case["ref"].lower()} alias = get_db', r.get('alias'), r['db']))
        for what, got, exp in checks:
            if got is None or exp is None or isinstance(got, str) or not _close(got, exp):
                return (f'{k} at {q} Hz (L={L}, a={a}, v={v}, fixed gain {g}, kinds {case.get("qkind")}/{case.get("nkind")}'
                        f'{", set_fixed_gain" if case.get("set_g") is not None else ""}): {what} fails: got {got}, expected {exp}')
    # array / Series / DataFrame forms must tell the same story as the scalar form
    scal = res['q']
    for form in case['forms']:
        arr = res['arr_' + form]
        if _iserr(arr):
            if not any(_iserr(r) for r in scal):
                return f'{k}: {form} frequency form raised {arr["err"]} although every scalar request is answered'
            continue
        if any(len(arr[key]) != len(scal) for key in ('sens', 'sens2', 'sf', 'db', 'gain', 'att')):
            return (f'{k}: {form} frequency form with {len(scal)} frequencies returns '
                    f'{[len(arr[key]) for key in ("sens", "sf", "db", "gain", "att")]} values')
        for i, (q, r) in enumerate(zip(case['qs'], scal)):
            if _iserr(r) or not _close(arr['sf'][i], r['sf'], 1e-12) or not _close(arr['db'][i], r['db'], 1e-12) \
                    or not _close(arr['sens'][i], r['sens'], 1e-12):
                return (f'{k}: {form} form at {q} Hz gives sens {arr["sens"][i]}, sf {arr["sf"][i]}, db {arr["db"][i]}; '
                        f'scalar form {r}')
            if not _close(arr['sens2'][i], r['sens'], 1e-12):
                return f'{k}: {form} form: second get_sens after the caller wrote into the first result gives {arr["sens2"][i]}'
        if not arr['arg_unchanged']:
            return f'{k}: {form} form: the frequency argument was modified by the call'
    rows = res['scalar_db_rows']
    for what, got, exp in (('Series', res['series'], rows[0]), ('DataFrame', res['frame'], rows[0] + rows[1])):
        if _iserr(got):
            if not any(_iserr(x) for x in exp):
                return f'{k}: get_db({what}) raised {got["err"]}'
        elif any(_iserr(x) for x in exp) or not _closel(got, exp, 1e-12):
            return f'{k}: get_db({what}) = {got}, two-argument form gives {exp}'
    # zero-length and non-finite requests
    if not _iserr(res['empty']) and any(n != 0 for n in res['empty']):
        return f'{k}: an empty frequency array gives results of sizes {res["empty"]}'
    if k != 'flat':
        nq = res['nanq']
        if not (_iserr(nq[0]) or nq[0] is None):
            return f'{k}: get_sens(NaN) = {nq[0]}'
        for x, got in zip(('inf', '-inf'), nq[1:]):
            if not (_iserr(got) or got is None) and case.get('fill') is None:
                return f'{k}: get_sens({x}) = {got}'
    # phase: reproduced at the table points, linear between, NaN outside; error when there is no phase data
    if k == 'interp':
        if case.get('phase') is None:
            if not all(_iserr(p) for p in res['phase']):
                return f'interp: get_phase without phase data returned {res["phase"]}'
        else:
            for q, p in zip(case['qs'], res['phase']):
                w = _expected_phase(case, q)
                if w == 'none':
                    if not (_iserr(p) or p is None):
                        return f'interp: get_phase({q}) outside the table = {p}'
                elif _iserr(p) or p is None or not _close(p, float(w)) or (q in case['freqs'] and p != float(w)):
                    return f'interp: get_phase({q}) = {p}, the table gives {float(w)}'
    # get_mean_sf
    if case.get('mean'):
        flb, fub = case['mean']
        fr = res['mean_fs']
        wants = [_expected_sens(case, f) for f in fr]
        m = res['mean']
        if k != 'flat' and (not fr or any(w == 'none' for w in wants)):
            if not _iserr(m) and m is not None:         # NaN or an error are both acceptable to the property
                return f'{k}: get_mean_sf({flb}, {fub}) covers uncalibrated frequencies (or nothing) but returned {m}'
        else:
            if _iserr(m):
                return f'{k}: get_mean_sf({flb}, {fub}) is inside the calibrated range but raised {m["err"]}'
            if k == 'flat':
                exp = 10 ** ((L - float(_expected_sens(case, flb)) + a) / 20)
            else:
                exp = sum(10 ** ((L - float(w) + a) / 20) for w in wants) / len(wants)
            if m is None or not _close(m, exp):
                return f'{k}: get_mean_sf({flb}, {fub}, {L}, attenuation={a}) = {m}, mean of get_sf is {exp}'
            m20 = res['mean20']
            if _iserr(m20) or m20 is None or not _close(m20, 10 * m):
                return (f'{k}: get_mean_sf({flb}, {fub}, {L}, attenuation={a + 20}) = {m20} is not 10 x '
                        f'get_mean_sf(..., attenuation={a}) = {m}')
            md = res['mean_default']
            if _iserr(md) or md is None or not _close(md * 10 ** (a / 20), m):
                return f'{k}: get_mean_sf default attenuation {md} x 10^({a}/20) != {m}'
    for key in ('bad0', 'bad1', 'bad3'):
        if not _iserr(res[key]):
            return f'{k}: malformed get_db call returned {res[key]} instead of raising'
    return None


def _oracle_ctor(case, res):
    name, A, L = case['ctor'], case['args'], case['L']
    n = len(res['sens'])
    fg = case.get('fixed_gain') or 0.0
    if 'twin_sf_L' in res:
        for a0, a1, a2 in zip(res['sf_L'], res['twin_sf_L'], res['moved_sf_L']):
            if not (_iserr(a0) or _iserr(a1)) and a0 is not None and a1 is not None and a1 != a0:
                return (f'{case["cls"]}.{name}: a SECOND object from the same constructor call changed ({a0} -> {a1}) when the first '
                        f'one was given 20 dB more fixed gain')
            if not (_iserr(a0) or _iserr(a2)) and a0 is not None and a2 is not None and not _close(a2, a0 * 10.0):
                return f'{case["cls"]}.{name}: +20 dB fixed gain scales get_sf by {a2 / a0 if a0 else None}, not by 10'

    def at(x, i):
        return x[i] if isinstance(x, list) else x
    for i in range(n):
        vr = 1.0 if case.get('omit_vrms') else at(A.get('vrms', 1.0), i)
        if name in ('from_spl', 'from_db'):
            lvl = at(A['spl' if name == 'from_spl' else 'level'], i)
        elif name == 'from_pascals':
            lvl = _db_of(at(A['magnitude'], i) / 20e-6)
        elif name == 'as_attenuation':
            lvl = 0.0
        else:
            lvl = None
        tag = f"{case['cls']}.{name}({A}, fixed_gain={case.get('fixed_gain')}, omit_vrms={case.get('omit_vrms')}, {case.get('nkind')})"
        if lvl is not None:
            got = res['db_at_vrms'][i]
            # a fixed gain passed through **kwargs lowers the level read by that many dB
            if got is None or not _close(got, lvl - fg):
                return f'{tag}: {vr} Vrms should read as {lvl - fg} dB, get_db gives {got}'
            exp = vr * 10 ** ((L - lvl + fg) / 20)
            if not _close(res['sf_L'][i], exp):
                return f'{tag}: get_sf({L}) = {res["sf_L"][i]}, expected {exp}'
        if name == 'unity':
            if not _close(res['sf_L'][i], 10 ** (L / 20)) or not _close(res['db_at_vrms'][i], 0.0):
                return f'{tag}: not a pass-through: get_sf({L}) = {res["sf_L"][i]}'
        if name == 'from_mv_pa':
            m, p = A['mv_pa'], case['p']
            if not _close(res['to_mv_pa'], m):
                return f'{tag}: to_mv_pa() = {res["to_mv_pa"]}'
            if not _close(res['from_to'], res['sens'][0]):
                return f'{tag}: from_mv_pa(to_mv_pa()) changes the sensitivity {res["sens"][0]} -> {res["from_to"]}'
            if not _close(res['db_at_p'], _db_of(p / 20e-6) - fg):
                return f'{tag}: {p} Pa ({m * 1e-3 * p} V) reads as {res["db_at_p"]} dB SPL, expected {_db_of(p / 20e-6) - fg}'
        if 'alias' in res and res['alias'][i] != res['db_at_vrms'][i]:
            return f'{tag}: get_spl differs from get_db'
    if name in ('from_spl', 'from_mv_pa') and res['reference'] != 'SPL':
        return f'{case["cls"]}.{name}: reference is {res["reference"]}'
    return None


def _oracle_util(case, res):
    n = len(case['xs']) if case['form'] != 'scalar' else 1
    r = case['r']
    for i in range(n):
        x, d = case['xs'][i], case['ds'][i]
        for what, got, exp in (('db(x)', res['db'][i], _db_of(x / r)), ('dbi(db(x)) = x', res['dbi_db'][i], x),
                               ('dbi(d)', res['dbi'][i], 10 ** (d / 20) * r),
                               ('db(x, reference=r)', res['db_kw'][i], _db_of(x / r)),
                               ('dbi(d, reference=r)', res['dbi_kw'][i], 10 ** (d / 20) * r),
                               ('db(dbi(d)) = d', res['db_dbi'][i], d),
                               ('db(10 x) = db(x) + 20', res['db_times10'][i], res['db'][i] + 20),
                               ('dbi(d + 20) = 10 dbi(d)', res['dbi_plus20'][i], 10 * res['dbi'][i]),
                               ('patodb', res['patodb'][i], _db_of(x / 20e-6)),
                               ('dbtopa(patodb(x)) = x', res['dbtopa_patodb'][i], x),
                               ('db default reference 1', res['db_default'][i], _db_of(x)),
                               ('dbi default reference 1', res['dbi_default'][i], 10 ** (d / 20))):
            if got is None or isinstance(got, str) or not _close(got, exp):
                return f'util {what} fails at x={x}, d={d}, reference={r} ({case["form"]}, {case.get("nkind")}): got {got}, expected {exp}'
    return None


def _oracle_starship(case, res):
    pts_s = list(zip(map(Fraction, case['win_f']), map(Fraction, case['win_s'])))
    pts_p = list(zip(map(Fraction, case['win_f']), map(Fraction, case['win_p'])))
    for i, q in enumerate(case['qs']):
        ws, wp = float(_interp_exact(pts_s, Fraction(q))), float(_interp_exact(pts_p, Fraction(q)))
        if not _close(res['sens'][i], ws) or not _close(res['arr'][i], ws):
            return f'load_demo_starship: sensitivity at {q} Hz is {res["sens"][i]}, the shipped table gives {ws}'
        if not _close(res['phase'][i], wp):
            return f'load_demo_starship: phase at {q} Hz is {res["phase"][i]}, the shipped table gives {wp}'
        if not _close(res['rt'][i], case['L']):
            return f'load_demo_starship: get_db(get_sf(L)) = {res["rt"][i]} at {q} Hz'
    if any(x is not None for x in res['out']):
        return f'load_demo_starship: outside the table {case["out"]} -> {res["out"]}'
    return None


def _oracle_psd_series(case, res):
    tag = f"psd_df of {case['B']} x {case['n']} samples at fs {case['fs']} handed to get_db"
    if not _closel(res['labels'], res['true_f'], 1e-12):
        return f'{tag}: the bins are labelled {res["labels"][:3]} ... {res["labels"][-1]}, their frequencies are k fs / n: ... {res["true_f"][-1]}'
    if not _closel(res['series'], res['want']):
        i = [j for j, (a, b) in enumerate(zip(res['series'], res['want'])) if not _close(a, b)][0]
        return (f'{tag}: get_db(Series) reads {res["series"][i]} dB at bin {i}, get_db(frequency of the bin = {res["true_f"][i]}, '
                f'its value) = {res["want"][i]}')
    if not _closel(res['frame'], res['want'] + res['want2']):
        return f'{tag}: get_db(DataFrame) differs from get_db at the frequencies of the bins'
    return None


def oracle(case, res):
    k = case['kind']
    if k == 'psd_series':
        return _oracle_psd_series(case, res)
    if k in ('interp', 'point', 'flat'):
        return _oracle_lookup(case, res)
    if k == 'ctor':
        return _oracle_ctor(case, res)
    if k == 'starship':
        return _oracle_starship(case, res)
    return _oracle_util(case, res)


def nontrivial(case, res):
    k = case['kind']
    if k in ('interp', 'point'):
        kinds = {_outside(case, q) for q in case['qs']}
        return len(kinds) == 2 or case['g'] != 0 or case['a'] != 0
    if k == 'flat':
        return case['g'] != 0 or case['a'] != 0
    return True


def key(case, res):
    return None


def distribution(cases, results):
    d = {'kinds': {}, 'queries': {'at_point': 0, 'between': 0, 'outside_or_uncalibrated': 0}, 'table_sizes': {},
         'forms': {}, 'scalar_frequency_kinds': {}, 'level_voltage_kinds': {}, 'options': {}, 'mean_requests':
         {'answered': 0, 'raised': 0, 'kinds': {}}, 'constructors': {}, 'int_container_with_fractional_sens': 0}

    def inc(dd, k):
        dd[k] = dd.get(k, 0) + 1
    for c, r in zip(cases, results):
        inc(d['kinds'], c['kind'])
        if c['kind'] in ('interp', 'point'):
            inc(d['table_sizes'], len(c['freqs']))
            for q in c['qs']:
                kk = 'outside_or_uncalibrated' if _outside(c, q) else 'at_point' if q in c['freqs'] else 'between'
                d['queries'][kk] += 1
        if c['kind'] in ('interp', 'point', 'flat'):
            for f in c['forms']:
                inc(d['forms'], f)
            inc(d['scalar_frequency_kinds'], c.get('qkind', 'float'))
            inc(d['level_voltage_kinds'], c.get('nkind', 'float'))
            for o in ('kw', 'set_g', 'ref', 'attrs', 'fill', 'phase', 'scalar_ctor', 'pd_int'):
                if c.get(o) is not None and c.get(o) is not False:
                    inc(d['options'], o)
            ss = c['sens'] if c['kind'] != 'flat' else [c['s']]
            if any(f.startswith('int') for f in c['forms']) and any(not _integral(s - c['g']) for s in ss):
                d['int_container_with_fractional_sens'] += 1
            if c.get('mean') and isinstance(r, dict) and 'mean' in r:
                d['mean_requests']['raised' if _iserr(r['mean']) else 'answered'] += 1
                inc(d['mean_requests']['kinds'], c.get('mean_kind', 'int'))
        if c['kind'] == 'ctor':
            inc(d['constructors'], f"{c['cls']}.{c['ctor']}")
            for o in ('fixed_gain', 'omit_vrms', 'attrs'):
                if c.get(o) is not None and c.get(o) is not False:
                    inc(d['options'], 'ctor_' + o)
    return d


# ====================================================================================================================
# generators
def _val(rng, style):
    if style == 'int':
        return float(rng.randint(-40, 130))
    if style == 'half':
        return rng.randint(-80, 260) / 2
    return rng.uniform(-40, 130)


QKINDS = ['float', 'int', 'npfloat', 'npint', 'npint32', '0d', '0dint', 'f32']
INT_FORMS = ['intarr', 'intlist', 'inttuple', 'int32arr', 'int2d']
FLOAT_FORMS = ['array', 'list', 'tuple', '2d', 'readonly']


def _lookup_case(rng, kind, small=False, intworld=None):
    """intworld: every frequency (table and queries) is an integer, so that integer-typed scalars and containers are
    legal representations of the very same request; sensitivities stay fractional."""
    if intworld is None:
        intworld = rng.random() < 0.55
    n = rng.randint(2, 4 if small else 8)
    if intworld:
        fs = sorted(rng.sample(range(20, 300), n)) if rng.random() < 0.5 else \
            sorted(rng.sample([125, 250, 500, 1000, 2000, 4000, 8000, 16000, 32000, 64000], n))
        fs = [float(f) for f in fs]
        sstyle = rng.choice(['float', 'float', 'half', 'int'])
    else:
        fs = sorted({round(rng.uniform(20, 20000), rng.choice([1, 3, 9])) for _ in range(n + 2)})[:n]
        while len(fs) < 2:
            fs.append(fs[-1] + 1.5)
        sstyle = rng.choice(['int', 'half', 'float'])
    ss = [_val(rng, sstyle) for _ in fs]
    g = rng.choice([0.0, 0.0, float(rng.randint(-40, 40)), rng.uniform(-40, 40)])
    tforms = ['array', 'list', 'series', 'tuple', 'readonly']
    form_f = rng.choice(tforms + (['int', 'intlist'] if all(_integral(f) for f in fs) else []))
    form_s = rng.choice(tforms + (['int', 'intlist'] if all(_integral(s) for s in ss) else []))
    order = list(range(len(fs)))
    if rng.random() < 0.3:
        rng.shuffle(order)
    if kind == 'point' and rng.random() < 0.15:
        ss = ss + [ss[0] + 1.0]                # duplicated calibrated frequency: the first entry answers
        fs = fs + [fs[0]]
        order = list(range(len(fs)))
    fs, ss = [fs[i] for i in order], [ss[i] for i in order]
    lo, hi = min(fs), max(fs)
    srt = sorted(set(fs))
    qs = [rng.choice(fs) for _ in range(rng.randint(1, 3))]
    qs += [lo, hi] if rng.random() < 0.5 else []
    for _ in range(rng.randint(1, 3)):
        if len(srt) > 1:
            i = rng.randrange(len(srt) - 1)
            x0, x1 = srt[i], srt[i + 1]
            if intworld:
                q = float(rng.choice([int(x0) + 1, int(x1) - 1, (int(x0) + int(x1)) // 2]))
            else:
                q = rng.choice([(x0 + x1) / 2, x0 + (x1 - x0) * rng.random(), float(np.nextafter(x0, x1)),
                                float(np.nextafter(x1, x0))])
            if x0 < q < x1:
                qs.append(q)
    if intworld:
        out = [lo - 1, hi + 1, float(int(lo) // 2), hi * 2, 0.0, lo - 10]
    else:
        out = [float(np.nextafter(lo, -np.inf)), float(np.nextafter(hi, np.inf)), lo - rng.choice([1, 0.5, 10]),
               hi + rng.choice([1, 0.25, 1000]), lo / 2, hi * 2, -lo]
    if kind == 'point' and not intworld:
        f0 = rng.choice(fs)                     # the nearest representable neighbours of a calibrated frequency
        out += [float(np.nextafter(f0, np.inf)), float(np.nextafter(f0, -np.inf))]
    for _ in range(rng.randint(0, 3) if kind != 'flat' else 1):
        qs.append(rng.choice(out))
    if kind == 'point' and rng.random() < 0.5:
        qs = [q for q in qs if q in fs] or [fs[0]]       # all calibrated: array forms answer
    if len(qs) % 2:
        qs.append(rng.choice(fs))
    rng.shuffle(qs)
    allint = all(_integral(q) for q in qs)
    forms = rng.sample(FLOAT_FORMS, rng.randint(1, 3))
    if allint:
        forms += rng.sample(INT_FORMS, rng.randint(1, 3))
    nkind = rng.choice(['float', 'float', 'int', 'npint'])
    if nkind == 'float':
        L = rng.choice([float(rng.randint(-20, 120)), rng.uniform(-20, 120), rng.uniform(-300, 300)])
        a = rng.choice([0.0, 0.0, float(rng.randint(0, 60)), rng.uniform(-20, 60)])
        v = float(10 ** rng.uniform(-4, 2)) if rng.random() < 0.9 else float(10 ** rng.uniform(-12, 6))
    else:
        L, a, v = float(rng.randint(-20, 120)), float(rng.choice([0, 0, rng.randint(1, 60)])), float(rng.randint(1, 20))
    case = {'kind': kind, 'freqs': fs, 'sens': ss, 'g': g, 'form_f': form_f, 'form_s': form_s, 'qs': qs,
            'forms': sorted(forms), 'L': L, 'a': a, 'v': v, 'nkind': nkind,
            'qkind': rng.choice(QKINDS if allint else ['float', 'npfloat', '0d', 'f32']),
            'gkind': rng.choice(['float', 'int', 'npint', 'npfloat']), 'g_mode': rng.choice(['kw', 'kw', 'pos', 'default']),
            'kw': rng.random() < 0.5, 'pd_int': rng.random() < 0.6}
    if rng.random() < 0.3:
        case['set_g'] = rng.choice([0.0, 5.0, float(rng.randint(-30, 30))])
    if rng.random() < 0.25:
        case['ref'] = rng.choice(['SPL', 'Pa', 'dBV'])
    if rng.random() < 0.2:
        case['attrs'] = True
    if kind == 'interp':
        if rng.random() < 0.6:
            case['phase'] = [rng.choice([rng.uniform(-3.2, 3.2), 0.0, float(rng.randint(-3, 3))]) for _ in fs]
            case['form_p'] = rng.choice(['list', 'array', 'series', 'tuple'])
        if rng.random() < 0.2:
            case['fill'] = rng.choice([0.0, 0.0, float(rng.randint(-20, 120)), rng.uniform(0, 100)])
    if kind == 'point' and rng.random() < 0.12:
        f0 = fs[0]
        case.update(freqs=[f0], sens=[ss[0]], scalar_ctor=True, skind=rng.choice(['float', 'int', 'npfloat']),
                    qs=[f0, f0, f0 + 1, f0] if rng.random() < 0.5 else [f0, f0])
        if not all(_integral(q) for q in case['qs']):
            case['forms'] = [f for f in case['forms'] if not f.startswith('int')] or ['array']
        fs, ss, lo, hi = case['freqs'], case['sens'], f0, f0
    if kind == 'flat':
        case.update(s=ss[0], freqs=[], sens=[], skind=rng.choice(['float', 'int', 'npfloat']))
        del case['form_f'], case['form_s']
    # get_mean_sf: inside / straddling an end / outside / empty; integer, float, NumPy-integer and off-integer bounds
    ilo, ihi = math.ceil(lo), math.floor(hi)
    u = rng.random()
    if kind == 'point':
        c = int(rng.choice(fs)) if all(_integral(f) for f in fs) else int(lo)
        case['mean'] = rng.choice([[c, c + 1], [c, c + 2], [c - 1, c + 1], [c, c], [c, c + 0.5], [c + 0.5, c + 1.5]])
    elif ihi - ilo >= 1:
        w = rng.randint(1, min(40, ihi - ilo))
        s0 = rng.randint(ilo, ihi - w)
        case['mean'] = ([s0, s0 + w] if u < 0.4 else [ihi - w + 1, ihi + 1] if u < 0.55 else [ihi - w + 1, ihi + 2] if u < 0.65
                        else [ilo - 1, ilo + w] if u < 0.8 else [ilo, ilo + 1] if u < 0.85 else [ihi + 5, ihi + 9] if u < 0.92 else [s0, s0 - 3 * (u < 0.96)])
        if rng.random() < 0.25 and kind != 'flat':
            d = rng.choice([0.5, 0.25, -0.5])       # off-integer bounds: lo + d, lo + d + 1, ...
            case['mean'] = [case['mean'][0] + d, case['mean'][1] + rng.choice([0, d, 0.75])]
    else:
        case['mean'] = [ilo, ilo + 1]
    case['mean'] = [float(x) for x in case['mean']]
    case['mean_kind'] = rng.choice(['int', 'float', 'npint', 'npfloat'])
    return case


CTORS = {'flat': ['from_spl', 'from_db', 'from_pascals', 'from_mv_pa', 'unity', 'as_attenuation'],
         'interp': ['from_spl', 'from_db', 'from_pascals'], 'point': ['from_spl', 'from_db', 'from_pascals']}


def _ctor_case(rng, cls=None, name=None, wide=False, opt=None):
    """opt 0 / 1 / 2 force the default vrms / a fixed_gain keyword / both (every constructor gets each in every tier)."""
    cls = cls or rng.choice(['flat', 'interp', 'point'])
    name = name or rng.choice(CTORS[cls])
    nf = 1 if cls == 'flat' else rng.randint(2, 4)
    F = sorted(rng.sample([250.0, 500.0, 1000.0, 2000.0, 4000.0, 8000.0], nf)) if cls != 'flat' else [1000.0]
    per = cls != 'flat' and rng.random() < 0.5
    nkind = rng.choice(['float', 'float', 'int', 'npint'])

    def pos():
        if nkind != 'float':
            return float(rng.randint(1, 20))
        e = rng.uniform(-5, 3) if wide else rng.uniform(-3, 2)
        return rng.choice([float(10 ** e), 1.0, 0.1, 2.0, float(rng.randint(1, 20))])

    def lvl():
        if nkind != 'float':
            return float(rng.randint(0, 120))
        return rng.choice([float(rng.randint(0, 120)), rng.uniform(-20, 130)])

    def many(f, allow):
        return [f() for _ in range(nf)] if (per and allow) else f()
    A = {}
    if name in ('from_spl', 'from_db', 'from_pascals'):
        first = {'from_spl': 'spl', 'from_db': 'level', 'from_pascals': 'magnitude'}[name]
        A[first] = many(pos if name == 'from_pascals' else lvl, True)
        A['vrms'] = many(pos, rng.random() < 0.5)
    elif name == 'as_attenuation':
        A['vrms'] = pos()
    elif name == 'from_mv_pa':
        A['mv_pa'] = pos()
    case = {'kind': 'ctor', 'cls': cls, 'ctor': name, 'args': A, 'L': lvl(), 'freqs': F, 'nkind': nkind,
            'arg_form': rng.choice(['array', 'list', 'tuple', 'intlist', 'int', 'series']),
            'form_f': rng.choice(['array', 'list', 'tuple', 'int', 'intlist'])}
    if name != 'unity':
        if rng.random() < 0.4 or opt in (1, 2):
            case['fixed_gain'] = rng.choice([float(rng.randint(-40, 40)), 0.0]) if nkind != 'float' else \
                rng.choice([float(rng.randint(-40, 40)), rng.uniform(-40, 40)])
        if rng.random() < 0.2:
            case['attrs'] = True
        if 'vrms' in A and (rng.random() < 0.25 or opt in (0, 2)):
            case['omit_vrms'] = True
            A['vrms'] = 1.0
    if name == 'from_mv_pa':
        case['p'] = pos()
    return case


def _util_case(rng):
    n = rng.randint(1, 5)
    nkind = rng.choice(['float', 'float', 'int', 'npint'])
    if nkind == 'float':
        xs = [float(10 ** rng.uniform(-6, 4)) for _ in range(n)]
        ds = [rng.choice([float(rng.randint(-120, 140)), rng.uniform(-120, 140)]) for _ in range(n)]
        r = rng.choice([1.0, 20e-6, float(10 ** rng.uniform(-5, 2))])
    else:
        xs = [float(rng.randint(1, 5000)) for _ in range(n)]
        ds = [float(rng.randint(-120, 140)) for _ in range(n)]
        r = float(rng.choice([1, 2, 10, 1000]))
    return {'kind': 'util', 'xs': xs, 'ds': ds, 'r': r, 'nkind': nkind,
            'form': rng.choice(['list', 'tuple', 'array', 'series', 'frame', 'scalar'])}


_STARSHIP = None


def _starship_case(rng):
    """A window of the shipped demo table, read independently of psiaudio (csv module)."""
    global _STARSHIP
    import csv
    if _STARSHIP is None:
        path = os.path.join(vlib.REPO, 'psiaudio', 'resources', 'starship_cal.csv')
        with open(path) as f:
            rows = list(csv.DictReader(f))
        _STARSHIP = [(float(r['freq']), float(r['SPL']), float(r['phase'])) for r in rows]
    T = _STARSHIP
    i = rng.choice([0, len(T) - 6, rng.randrange(len(T) - 6)])
    win = T[i:i + 6]
    qs = [win[0][0], win[5][0], win[2][0], (win[2][0] + win[3][0]) / 2, win[1][0] + (win[2][0] - win[1][0]) * rng.random(),
          float(np.nextafter(win[4][0], win[3][0]))]
    return {'kind': 'starship', 'win_f': [w[0] for w in win], 'win_s': [w[1] for w in win], 'win_p': [w[2] for w in win],
            'qs': qs, 'L': float(rng.randint(0, 100)),
            'out': [float(np.nextafter(T[0][0], -np.inf)), float(np.nextafter(T[-1][0], np.inf)), 0.0, T[-1][0] * 2]}


def corpus():
    """Fixed cases that are always run first: the unit-test table, the inputs on which the two defects repaired in
    branch fix-C07 were found, and the integer-typed / keyword / set_fixed_gain variants added by the coverage audit."""
    f = [500.0, 1000.0, 2000.0, 4000.0, 8000.0, 16000.0]
    s = [80.0, 90.0, 100.0, 100.0, 90.0, 80.0]
    s2 = [80.25, 90.5, 100.75, 100.125, 90.5, 80.25]
    base = {'freqs': f, 'sens': s, 'g': 0.0, 'form_f': 'int', 'form_s': 'int',
            'qs': [50.0, 500.0, 750.0, 16000.0, 20000.0, 1000.0], 'forms': ['array', 'list', '2d', 'intarr'],
            'L': 90.0, 'a': 20.0, 'v': 1.0}
    aud = dict(base, sens=s2, form_s='array', qs=[500.0, 750.0, 16000.0, 1000.0], g=2.5, set_g=0.0, kw=True, nkind='int',
               qkind='int', forms=['intarr', 'intlist', 'inttuple', 'int32arr', 'int2d', 'tuple', 'readonly'], pd_int=True,
               ref='SPL', mean_kind='float')
    return [dict(base, kind='interp', mean=[500, 600]), dict(base, kind='interp', mean=[400, 600]),
            dict(base, kind='point', mean=[500, 501]), dict(base, kind='point', qs=[500.0, 16000.0], mean=[500, 502]),
            {'kind': 'flat', 's': 100.0, 'g': 10.0, 'freqs': [], 'sens': [], 'qs': [5.0, 1000.0], 'forms': ['array', 'list'],
             'L': 80.0, 'a': 20.0, 'v': 0.5, 'mean': [1, 2]},
            {'kind': 'ctor', 'cls': 'flat', 'ctor': 'from_pascals', 'args': {'magnitude': 2.0, 'vrms': 1.0}, 'L': 94.0,
             'freqs': [1000.0]},
            {'kind': 'ctor', 'cls': 'interp', 'ctor': 'from_pascals', 'args': {'magnitude': [2.0, 0.2], 'vrms': 0.5},
             'L': 94.0, 'freqs': [1000.0, 2000.0]},
            {'kind': 'ctor', 'cls': 'flat', 'ctor': 'from_mv_pa', 'args': {'mv_pa': 1.85}, 'L': 94.0, 'freqs': [1000.0],
             'p': 1.0},
            dict(aud, kind='interp', mean=[500.0, 600.0], phase=[0.5, 0.25, 0.0, -0.25, -0.5, -1.0], form_p='array'),
            dict(aud, kind='point', qs=[500.0, 16000.0, 1000.0, 500.0], mean=[500.0, 501.0]),
            {'kind': 'flat', 's': 93.97940008672037, 'g': 0.0, 'set_g': 7.0, 'freqs': [], 'sens': [], 'qs': [5.0, 1000.0],
             'forms': ['intarr', 'intlist', 'inttuple', 'int32arr', 'int2d', 'tuple'], 'L': 80.0, 'a': 20.0, 'v': 2.0,
             'nkind': 'int', 'qkind': 'npint', 'kw': True, 'pd_int': True, 'mean': [1.0, 2.0], 'mean_kind': 'npint'}]


def cases(tier, rng):
    quick = tier == 'quick'
    for cls, names in CTORS.items():
        for name in names:
            for j in range(8 if quick else 80):
                yield _ctor_case(rng, cls, name, opt=j)
    for _ in range(200 if quick else 4000):
        yield _lookup_case(rng, 'interp')
    for _ in range(130 if quick else 2500):
        yield _lookup_case(rng, 'point')
    for _ in range(80 if quick else 1000):
        yield _lookup_case(rng, 'flat')
    for _ in range(50 if quick else 500):
        yield _util_case(rng)
    for _ in range(6 if quick else 60):
        yield _starship_case(rng)
    for n in ([15, 16, 33, 101] if quick else list(range(9, 70))):
        fs = rng.choice([1000.0, 48000.0, 195312.5])
        freqs = sorted({0.0, fs / 2} | {round(rng.uniform(0, fs / 2), 1) for _ in range(5)})
        yield {'kind': 'psd_series', 'n': n, 'fs': fs, 'k': rng.randint(1, (n - 1) // 2), 'B': rng.choice([1, 2, 3]),
               'seed': rng.randrange(1000), 'freqs': freqs, 'sens': [rng.uniform(70, 110) for _ in freqs]}


def search(tier, rng):
    """Called by the driver when a theorem about the regenerated definitions (or the correspondence) broke: look for a
    concrete input on which the IMPLEMENTATION violates one of the laws, over wider ranges than the regular cases."""
    found = []
    gens = [lambda: _ctor_case(rng, wide=True), lambda: _lookup_case(rng, 'flat', small=True),
            lambda: _lookup_case(rng, 'interp', small=True), lambda: _lookup_case(rng, 'point', small=True),
            lambda: _util_case(rng)]
    for i in range(400 if tier == 'quick' else 4000):
        case = gens[i % len(gens)]()
        try:
            res = impl(case)
            msg = oracle(case, res)
        except Exception as e:          # behaviour the property does not allow
            msg = f'unexpected {type(e).__name__}: {e}'
        if msg:
            found.append((case, msg))
            if len(found) >= 3:
                break
    return found


# ================================================= ADDITION (tables with failed measurements) =========================
# A calibration table whose sensitivity is NaN at an INTERIOR point (a sweep in which one frequency could not be
# measured).  The property: the table is reproduced at its points (so the failed point answers non-finite), and any request
# that cannot be answered from calibrated data - here both segments touching the failed point, and any band containing it -
# yields NaN or an error, never a finite level.  Segments between finite neighbours interpolate as usual.  Oracle only:
# the Q-valued interpolation model (Calib/Interp.v) has finite tables.
_cases0, _impl0, _term0, _oracle0, _nontrivial0 = cases, _impl, term, oracle, nontrivial
_distribution0 = distribution

RULE += (' (failed measurements) interpolated / point tables with a NaN sensitivity at an interior point: non-finite '
         'or an error at that point, in both adjacent segments and for every band containing it; ordinary interpolation elsewhere.')


def _nantable_case(rng):
    n = rng.randint(4, 7)
    fs = sorted(rng.sample([125.0, 250.0, 500.0, 1000.0, 2000.0, 4000.0, 8000.0, 16000.0], n))
    ss = [round(rng.uniform(60, 120), 2) for _ in fs]
    return {'kind': 'nantable', 'cls': rng.choice(['interp', 'interp', 'point']), 'freqs': fs, 'sens': ss,
            'bad': rng.randint(1, n - 2), 'badval': 'nan',
            'g': rng.choice([0.0, 6.0, -12.5]), 'form': rng.choice(['list', 'array'])}


def _nantable_impl(case):
    C = _cal()
    ss = list(case['sens'])
    ss[case['bad']] = float(case['badval'])
    fs = case['freqs']
    if case['form'] == 'array':
        fs, ss = np.array(fs), np.array(ss)
    cls = C.InterpCalibration if case['cls'] == 'interp' else C.PointCalibration
    cal = cls(fs, ss, fixed_gain=case['g'])
    f, b = case['freqs'], case['bad']
    qs = [('bad', f[b])]
    if case['cls'] == 'interp':
        qs += [('adj', (f[b - 1] + f[b]) / 2), ('adj', (f[b] + f[b + 1]) / 2), ('adj', float(np.nextafter(f[b], 0))),
               ('adj', float(np.nextafter(f[b - 1], np.inf)))]
        for i in range(len(f) - 1):
            if i not in (b - 1, b):
                qs.append(('good', (f[i] + f[i + 1]) / 2))
    qs += [('good', x) for i, x in enumerate(f) if i != b]
    out = []
    for kind, q in qs:
        r = {'kind': kind, 'q': q}
        for name, fn in (('sens', lambda: cal.get_sens(q)), ('sf', lambda: cal.get_sf(q, 80.0)), ('db', lambda: cal.get_db(q, 1.0))):
            try:
                r[name] = float(fn())
            except Exception as e:
                r[name] = 'raised ' + type(e).__name__
        out.append(r)
    bands = []
    if case['cls'] == 'interp':
        for lo, hi in ((f[b - 1], f[b + 1]), (f[b], f[b] + 1), (f[b] - 2, f[b])):
            try:
                bands.append(float(cal.get_mean_sf(lo, hi, 80.0)))
            except Exception as e:
                bands.append('raised ' + type(e).__name__)
    return {'q': out, 'bands': bands}


def _nantable_oracle(case, res):
    f, s, b, g = case['freqs'], case['sens'], case['bad'], case['g']

    def silent(v):
        return not isinstance(v, str) and math.isfinite(v)
    for r in res['q']:
        if r['kind'] in ('bad', 'adj'):
            for name in ('sens', 'sf', 'db'):
                if silent(r[name]):
                    where = 'at the failed table point' if r['kind'] == 'bad' else 'in a segment touching the failed point'
                    return (f'{case["cls"]} table {f} with sensitivity {case["badval"]} at {f[b]} Hz: get_{name}({r["q"]}) = {r[name]} '
                            f'{where} - a finite level although that range is not calibrated')
        else:
            pts = sorted(zip(f, s))
            want = None
            for (x0, y0), (x1, y1) in zip(pts, pts[1:]):
                if x0 <= r['q'] <= x1:
                    want = y0 + (y1 - y0) * (r['q'] - x0) / (x1 - x0) - g
            if not silent(r['sens']) or abs(r['sens'] - want) > 1e-9:
                return f'{case["cls"]} table {f}: get_sens({r["q"]}) = {r["sens"]} between finite neighbours, expected {want}'
    for v in res['bands']:
        if silent(v):
            return f'interp table {f} with sensitivity {case["badval"]} at {f[b]} Hz: get_mean_sf over a band containing it = {v}'
    return None


def cases(tier, rng):
    yield from _cases0(tier, rng)
    for _ in range(24 if tier == 'quick' else 400):
        yield _nantable_case(rng)


def _impl(case):
    return _nantable_impl(case) if case['kind'] == 'nantable' else _impl0(case)


def term(case, res):
    return 'true' if case['kind'] == 'nantable' else _term0(case, res)


def oracle(case, res):
    return _nantable_oracle(case, res) if case['kind'] == 'nantable' else _oracle0(case, res)


def nontrivial(case, res):
    return True if case['kind'] == 'nantable' else _nontrivial0(case, res)


def distribution(cases_, results):
    keep = [i for i, c in enumerate(cases_) if c['kind'] != 'nantable']
    d = _distribution0([cases_[i] for i in keep], [results[i] for i in keep])
    d['tables with a failed measurement'] = len(cases_) - len(keep)
    return d
# ================================================= end of the addition ================================================
