"""C14 - SignalBuffer returns exactly the retained window.  Model: coq/Buffer/Model.v."""
import itertools
import numpy as np
from vlib import zlit, zlist, optlit, listlit

PROP = 'C14'
REQUIRES = ['Buffer.Model', 'Buffer.Spec', 'Buffer.ProofsXE']
RULE = ('histories of mutations (append n in {1,2,cap,cap+2}; invalidate at {lb-1, lb, mid, ub-1, ub, ub+1, 0}; resize to '
        '{cap-1, cap+1, 2cap+1}) exhaustive up to length 3 (quick: cap 2,3; thorough: length 4, cap 1..4) followed by a boundary-centred read sweep '
        '(plain, filled incl. entirely-outside requests, latest, None bounds, explicit 0 bounds, seconds- and sample-based twins, keyword / default '
        'forms of every optional argument, direct time_to_samples / time_to_index / samples_to_index queries, a wrongly shaped append that must be refused); '
        'then seeded random histories up to length 40 (cap up to 12); '
        'then histories with zero-length chunks (1-D array([]) / 2-D (ch, 0); float64, int64, float32, strided, Fortran, read-only) as the first '
        'call, between an invalidate / resize and a read, and at random places: the model receives Append [] and the case also evaluates '
        'C14_refines_spec_e and C14_empty_append_is_skip on that history; '
        'constructor: fs in {1, 1000, 195312.5} as float / int / NumPy scalar, size on and off the sample grid (ceil), fill_value -1 / 0 / default NaN, '
        'dtype default / float32 / int64 / int32, n_channels None / 1 / 2 / 3; chunks float64 / int64 / float32 / strided view / read-only / Fortran; '
        'times on and off the sample grid (k+f)/fs, f in {0, .25, .5, .75, -.25, -.5}; sample arguments as Python and NumPy integers; read fill values incl. 0; '
        'the caller overwrites every array after appending it, overwrites every second array it was handed and keeps the others to compare them, '
        'unchanged, after all later mutations. Non-trivial: history contains an invalidate or resize, or an append larger '
        'than the capacity. Distinct = distinct (configuration, op list).')
TRUSTED = ['harness/C14.py (history generator; conversion of sample positions to seconds (k+f)/fs and back with the same float '
           'expression the code uses; canonicalisation of ndarray rows to integer lists)',
           'NumPy basic slicing / overlapping slice assignment / np.pad as modelled in coq/Common/PySlice.v and coq/Buffer/Model.v']
ASSUMPTIONS = ['times are passed as (k+f)/fs; seconds->samples is round(t*fs), evaluated by the harness with the very float expression of the code '
               '(Common/FloatGrid theorem for the on-grid round trip)',
               'appends have n >= 0 (a zero-length chunk is a no-op since /repo 0eafd08), invalidation positions are >= 0, resize targets >= 1 sample',
               'reads with lb > ub are compared model-vs-code but not judged by the property',
               'an integer-dtype buffer is given an integer fill value (the NaN default cannot be stored in it)']
FILL = -1
NANV = -999999          # coq/Buffer/Model.v nanv: how a NaN sample is written in the integer model
DT = {None: None, 'float32': np.float32, 'int64': np.int64, 'int32': np.int32}


def _fs(case):
    fs = case['fs']
    kind = case.get('fskind', 'float')
    if kind == 'int' and float(fs) == int(fs):
        return int(fs)
    if kind == 'np64':
        return np.float64(fs)
    return fs


def _size(case):
    fs = _fs(case)
    frac = case.get('sizefrac', 0)
    if frac == 0 and case.get('intsize') and case['cap'] % int(fs) == 0 and float(fs) == int(fs):
        return case['cap'] // int(fs)              # a Python int duration
    return (case['cap'] - frac) / fs


def _mk(case):
    from psiaudio.buffer import SignalBuffer
    ch = case['ch']
    kw = {}
    if case.get('bfill', FILL) is not None:
        f = case.get('bfill', FILL)
        kw['fill_value'] = int(f) if case.get('dtype') in ('int64', 'int32') else float(f)
        if not case.get('dtype') and case.get('fillk') in ('int', 'bool') and float(f) == int(f):
            # an integer / bool fill value with the DEFAULT dtype: the storage stays double (rd checks the dtype of
            # every read), the fill value only says what invalid samples look like
            kw['fill_value'] = bool(f) if (case['fillk'] == 'bool' and f in (0, 1)) else int(f)
    if case.get('dtype'):
        kw['dtype'] = DT[case['dtype']]
    if ch > 1 or case.get('twod'):
        kw['n_channels'] = ch
    elif case.get('nckw'):
        kw['n_channels'] = None
    return SignalBuffer(_fs(case), _size(case), **kw)


def _eff_cap(case):
    return int(np.ceil(_fs(case) * _size(case)))


def _mfill(case):
    f = case.get('bfill', FILL)
    return NANV if f is None else f


def _row(a, r, ch, twod=False):
    a = np.asarray(a)
    x = a[r] if (ch > 1 or twod) else a
    assert x.ndim == 1, a.shape
    out = []
    for v in x:
        if np.isnan(v):
            out.append(NANV)
        else:
            v = float(v)
            # rows are offset by 100000*r so that channels are distinguishable; undo it for the model
            if r > 0 and v >= 100000 * r:
                v -= 100000 * r
            assert v == int(v)
            out.append(int(v))
    return out


def _flags(o):
    return o[-1] if isinstance(o[-1], dict) else {}


def _t(k, frac, fs):
    """the seconds value for sample position k + frac"""
    return (k + frac) / fs


def _chunk(base, ch, twod, kind):
    """the array handed to append_data: values `base` per row (+100000*r), dtype / layout / write flag as `kind` says"""
    data = base.copy() if not (ch > 1 or twod) else np.stack([base + 100000 * r for r in range(ch)])
    if kind == 'int64':
        data = data.astype(np.int64)
    elif kind == 'float32':
        data = data.astype(np.float32)
    elif kind == 'view':
        big = np.full(data.shape[:-1] + (2 * data.shape[-1] + 1,), -444.0)
        big[..., 1::2] = data
        data = big[..., 1::2]
    elif kind == 'fortran':
        data = np.asfortranarray(data)
    elif kind == 'ro':
        data.setflags(write=False)
    return data


def _bad_chunks(ch, twod):
    """wrongly shaped chunks: append_data must refuse them (ValueError) and leave the buffer alone"""
    if ch > 1 or twod:
        bad = [np.ones(3), np.ones((ch + 1, 2)), np.ones((1, ch, 2)), np.float64(1.0), np.ones((ch + 2, ch))]
        if ch > 1:
            bad.append(np.ones((ch - 1, 2)))
        return bad
    return [np.ones((1, 3)), np.ones((2, 2)), np.float64(1.0), np.ones((1, 1, 2))]


def impl(case):
    """Returns per channel the list of observable outputs, plus the effective op list in samples."""
    b = _mk(case)
    fs = _fs(case)
    ch = case['ch']
    twod = bool(case.get('twod'))
    pos = 0   # values appended so far are 1..pos  (self-identifying)
    outs = [[] for _ in range(ch)]
    eff = []
    idx = []          # (sample, buffer index) pairs from the direct translation queries (final sweep only)
    held = []         # arrays the caller was handed and kept, with a private snapshot
    notes = []        # harness-level observations that must hold (aliasing, twin conversions); a note makes the case fail
    nread = [0]

    def emit(val):
        for r in range(ch):
            outs[r].append(val(r))

    def check_held(when):
        for a, snap, what in held:
            if not np.array_equal(a, snap, equal_nan=True):
                notes.append(f'an array returned earlier by {what} changed {when}')
        del held[:]

    def rd(f, what):
        try:
            a = f()
        except IndexError:
            emit(lambda r: ['IE'])
            return
        except ValueError:
            emit(lambda r: ['VE'])
            return
        emit(lambda r: ['D', _row(a, r, ch, twod)])
        want_dt = DT[case.get('dtype')] or np.double
        if a.dtype != want_dt:
            notes.append(f'{what} returned dtype {a.dtype}, the buffer holds {np.dtype(want_dt)}')
        nread[0] += 1
        if a.size:
            if nread[0] % 2 and a.flags.writeable:
                a[...] = -777                      # the caller owns what it was handed
            else:
                held.append((a, a.copy(), what))   # ... or keeps it: later mutations must not reach it

    def bounds_probe(ok, why):
        """an observation encoded as a Bounds output: the real bounds when `ok`, an impossible pair otherwise"""
        lb, ub = b.get_samples_lb(), b.get_samples_ub()
        emit(lambda r: ['B', int(lb), int(ub)] if ok else ['B', int(lb), int(ub), why])
        eff.append(['B'])

    def ityp(v, fl):
        return v if (v is None or not fl.get('np')) else (np.int64(v) if fl['np'] == 1 else np.int32(v))

    for o in case['ops']:
        k = o[0]
        fl = _flags(o)
        if k == 'A':
            n = o[1]
            base = np.arange(pos + 1, pos + n + 1, dtype=float)
            vals = [int(v) for v in base]
            pos += n
            kind = fl.get('dk') or ('int64' if (case.get('intdata') and (len(eff) % 2 == 0)) else None)
            data = _chunk(base, ch, twod, kind)
            b.append_data(data)
            if data.flags.writeable:
                data[...] = -555                    # the caller reuses its array: the buffer must have copied it
            eff.append(['A', vals])
            emit(lambda r: ['N'])
            check_held('after a later append')
        elif k == 'V':
            bad = _bad_chunks(ch, twod)
            data = bad[o[1] % len(bad)]
            try:
                b.append_data(data)
                ok = False
            except ValueError:
                ok = True
            bounds_probe(ok, 'wrongly-shaped-append-accepted')
        elif k == 'I':
            if o[2] == 's':
                b.invalidate_samples(ityp(o[1], fl))
                eff.append(['I', o[1]])
            else:
                t = _t(o[1], fl.get('f', 0), fs)
                b.invalidate(t)
                eff.append(['I', round(t * fs)])
            emit(lambda r: ['N'])
            check_held('after a later invalidation')
        elif k == 'R':
            size = _t(o[1], fl.get('f', 0), fs)
            if fl.get('int') and float(fs) == 1.0 and not fl.get('f'):
                size = int(o[1])
            s_ub = b.get_samples_ub()
            m = s_ub - round((-size + s_ub / fs) * fs)
            b.resize(size)
            eff.append(['R', m])
            emit(lambda r: ['N'])
            check_held('after a later resize')
        elif k == 'S':      # get_range_samples(lb, ub), None allowed
            lb, ub = ityp(o[1], fl), ityp(o[2], fl)
            if fl.get('kw') == 'lb':
                rd(lambda: b.get_range_samples(lb=lb), 'get_range_samples')
                ub = None
            elif fl.get('kw') == 'ub':
                rd(lambda: b.get_range_samples(ub=ub), 'get_range_samples')
                lb = None
            elif fl.get('kw') == 'none':
                rd(lambda: b.get_range_samples(), 'get_range_samples')
                lb = ub = None
            else:
                rd(lambda: b.get_range_samples(lb, ub), 'get_range_samples')
            eff.append(['S', None if lb is None else int(lb), None if ub is None else int(ub)])
        elif k == 'T':      # get_range(lb_t, ub_t) in seconds
            lb, ub = o[1], o[2]
            tl = None if lb is None else _t(lb, fl.get('fl', 0), fs)
            tu = None if ub is None else _t(ub, fl.get('fu', 0), fs)
            if fl.get('int0'):      # the int 0 is as good a time as 0.0
                tl = 0 if (lb == 0 and not fl.get('fl')) else tl
                tu = 0 if (ub == 0 and not fl.get('fu')) else tu
            if fl.get('kw') == 'lb':
                rd(lambda: b.get_range(lb=tl), 'get_range')
                tu = ub = None
            elif fl.get('kw') == 'ub':
                rd(lambda: b.get_range(ub=tu), 'get_range')
                tl = lb = None
            elif fl.get('kw') == 'none':
                rd(lambda: b.get_range(), 'get_range')
                tl = tu = lb = ub = None
            else:
                rd(lambda: b.get_range(tl, tu), 'get_range')
            # get_range replaces None by the time bounds and converts back with round()
            el = round(b.get_time_lb() * fs) if lb is None else round(tl * fs)
            eu = round(b.get_time_ub() * fs) if ub is None else round(tu * fs)
            eff.append(['S', el, eu])
        elif k == 'F':      # get_range_filled(lb_t, ub_t, fill)
            tl, tu = _t(o[1], fl.get('fl', 0), fs), _t(o[2], fl.get('fu', 0), fs)
            f = int(o[3]) if fl.get('intfill') else float(o[3])
            if fl.get('kw'):
                rd(lambda: b.get_range_filled(lb=tl, ub=tu, fill_value=f), 'get_range_filled')
            else:
                rd(lambda: b.get_range_filled(tl, tu, f), 'get_range_filled')
            eff.append(['F', round(tl * fs), round(tu * fs), o[3]])
        elif k == 'L':      # get_latest(lb_t, ub_t, fill)
            tl, tu = _t(o[1], fl.get('fl', 0), fs), _t(o[2], fl.get('fu', 0), fs)
            f = o[3]
            fv = None if f is None else (int(f) if fl.get('intfill') else float(f))
            s_ub = b.get_samples_ub()
            if fl.get('dub') and o[2] == 0 and not fl.get('fu'):
                # ub left to its default (0); the fill by keyword or left to its default (None)
                tu = 0
                if f is None:
                    rd(lambda: b.get_latest(tl), 'get_latest')
                else:
                    rd(lambda: b.get_latest(tl, fill_value=fv), 'get_latest')
            else:
                rd(lambda: b.get_latest(tl, tu, fv), 'get_latest')
            el = round((tl + s_ub / fs) * fs) - s_ub
            eu = round((tu + s_ub / fs) * fs) - s_ub
            eff.append(['L', el, eu, f])
        elif k == 'X':      # the public conversions, called directly
            t = _t(o[1], fl.get('f', 0), fs)
            want = round(t * fs)
            got = b.time_to_samples(t)
            if got != want or isinstance(got, float):
                notes.append(f'time_to_samples({t!r}) = {got!r}, round(t*fs) = {want}')
            idx.append([int(want), int(b.time_to_index(t))])
            idx.append([int(o[1]), int(b.samples_to_index(ityp(o[1], fl)))])
        elif k == 'B':
            lb, ub = b.get_samples_lb(), b.get_samples_ub()
            tlb, tub = b.get_time_lb(), b.get_time_ub()
            ok = (tlb == lb / fs) and (tub == ub / fs)
            emit(lambda r: ['B', int(lb), int(ub)] if ok else ['B', int(lb), int(ub), 'time-bounds-mismatch'])
            eff.append(['B'])
        else:
            raise KeyError(k)
    check_held('by the end of the history')
    return {'cap': _eff_cap(case), 'eff': eff, 'outs': outs, 'idx': idx, 'notes': notes[:3]}


def _op(o):
    k = o[0]
    if k == 'A':
        return f'Append {zlist(o[1])}'
    if k == 'I':
        return f'Invalidate {zlit(o[1])}'
    if k == 'R':
        return f'Resize {zlit(o[1])}'
    if k == 'S':
        return f'ReadS {optlit(o[1], zlit)} {optlit(o[2], zlit)}'
    if k == 'F':
        return f'ReadFilled {zlit(o[1])} {zlit(o[2])} {zlit(o[3])}'
    if k == 'L':
        return f'Latest {zlit(o[1])} {zlit(o[2])} {optlit(o[3], zlit)}'
    return 'Bounds'


def _out(v):
    if v[0] == 'N':
        return 'ONone'
    if v[0] == 'D':
        return f'OData {zlist(v[1])}'
    if v[0] == 'IE':
        return 'OIndexError'
    if v[0] == 'VE':
        return 'OValueError'
    if v[0] == 'B' and len(v) == 3:
        return f'OBounds {zlit(v[1])} {zlit(v[2])}'
    return 'OBounds 0 (-1)'   # an observation that failed (see bounds_probe): never equal to a model output


def term(case, res):
    ops = listlit([_op(o) for o in res['eff']])
    gots = listlit([listlit([_out(v) for v in res['outs'][r]]) for r in range(case['ch'])])
    idx = listlit([f'({zlit(i)}, {zlit(j)})' for i, j in res['idx']])
    # check_case = model agrees on every channel && the refinement statement of Props/C14.v evaluated on this very history
    # (a test of the theorem, not its proof) && the index translations agree with the model and with the abstract spec
    # a history with a zero-length append also evaluates C14_refines_spec_e / C14_empty_append_is_skip (Buffer/ProofsXE.v)
    chk = 'check_case_e' if any(o[0] == 'A' and not o[1] for o in res['eff']) else 'check_case'
    t = f"{chk} {zlit(res['cap'])} {zlit(_mfill(case))} {ops} {gots} {idx}"
    if res['notes']:
        t += ' && false'
    return t


def nontrivial(case, res):
    cap = res['cap']
    return any(o[0] in 'IR' or (o[0] == 'A' and o[1] > cap) for o in case['ops'])


def oracle(case, res):
    """Abstract spec: logical stream + retained-window start; judged on the implementation's outputs only."""
    if res['notes']:
        return res['notes'][0]
    for r in range(case['ch']):
        cap = res['cap']
        stream, lo = [], 0
        for idx, (o, got) in enumerate(zip(res['eff'], res['outs'][r])):
            k = o[0]
            if k == 'A':
                stream = stream + o[1]
                lo = max(lo, len(stream) - cap)
            elif k == 'I':
                i = o[1]
                if 0 <= i < len(stream):
                    stream = stream[:i]
                    lo = min(lo, i)
            elif k == 'R':
                cap = o[1]
                lo = max(lo, len(stream) - cap)
            elif k == 'B':
                if len(got) > 3:
                    return f'{got[3]} after {[e for e in res["eff"][:idx] if e[0] in "AIR"]}'
                if got[1:] != [lo, len(stream)]:
                    return f'bounds {got[1:]} but the retained window of the logical stream is [{lo}, {len(stream)}) after {[e for e in res["eff"][:idx] if e[0] in "AIR"]}'
                if not got[1] <= got[2]:
                    return f'lower bound {got[1]} > upper bound {got[2]}'
            elif k == 'S':
                a = lo if o[1] is None else o[1]
                b = len(stream) if o[2] is None else o[2]
                if a > b:
                    continue
                want = ['D', stream[a:b]] if (lo <= a and b <= len(stream)) else ['IE']
                if got != want:
                    return f'read [{a},{b}) returned {got}, expected {want} (window [{lo},{len(stream)})) after {[e for e in res["eff"][:idx] if e[0] in "AIR"]}'
            elif k in 'FL':
                if k == 'L':
                    a, b, f = o[1] + len(stream), o[2] + len(stream), o[3]
                else:
                    a, b, f = o[1], o[2], o[3]
                if a > b:
                    continue
                if f is None:
                    want = ['D', stream[a:b]] if (lo <= a and b <= len(stream)) else ['IE']
                else:
                    want = ['D', [stream[i] if lo <= i < len(stream) else f for i in range(a, b)]]
                if got != want:
                    return f'filled/latest read [{a},{b}) fill={f} returned {got}, expected {want} (window [{lo},{len(stream)})) after {[e for e in res["eff"][:idx] if e[0] in "AIR"]}'
        # the direct index translations (asked after the whole history): right-aligned store of `cap` slots
        for i, j in res['idx']:
            if j != i - len(stream) + cap:
                return f'samples_to_index/time_to_index: sample {i} -> index {j}, but the newest of {len(stream)} samples sits at the right end of {cap} slots'
    return None


class _Spec:
    """Tracks (len, lo, cap) so that generators can aim at the boundaries."""
    def __init__(self, cap):
        self.cap, self.n, self.lo = cap, 0, 0

    def apply(self, o):
        if o[0] == 'A':
            self.n += o[1]
            self.lo = max(self.lo, self.n - self.cap)
        elif o[0] == 'I' and 0 <= o[1] < self.n:
            self.n = o[1]
            self.lo = min(self.lo, o[1])
        elif o[0] == 'R':
            self.cap = o[1]
            self.lo = max(self.lo, self.n - self.cap)


FRACS = [0.25, 0.5, 0.75, -0.25, -0.5, 0.4999, 0.5001]


def _variants(ops, sp, rng):
    """other legal ways of making the same kind of request: off-grid times, NumPy integers, keyword / default forms"""
    lo, n = sp.lo, sp.n
    out = []
    for o in ops:
        k = o[0]
        u = rng.random()
        if u < 0.55 or isinstance(o[-1], dict):
            out.append(o)
            continue
        o = list(o)
        if k == 'S' and o[1] is not None and o[2] is not None:
            o.append({'np': rng.choice([1, 2])})
        elif k == 'T' and o[1] is not None and o[2] is not None:
            o.append({'fl': rng.choice(FRACS + [0]), 'fu': rng.choice(FRACS + [0]), 'int0': int(rng.random() < 0.5)})
        elif k == 'F':
            o.append({'fl': rng.choice(FRACS + [0]), 'fu': rng.choice(FRACS + [0]), 'kw': int(rng.random() < 0.3),
                      'intfill': int(rng.random() < 0.3)})
        elif k == 'L':
            if o[2] == 0 and rng.random() < 0.5:
                o.append({'dub': 1, 'fl': rng.choice(FRACS + [0, 0])})
            else:
                o.append({'fl': rng.choice(FRACS + [0]), 'fu': rng.choice(FRACS + [0]), 'intfill': int(rng.random() < 0.3)})
        out.append(o)
    return out


def _read_sweep(sp, rng, full=False, final=False):
    lo, n = sp.lo, sp.n
    ops = [['B'], ['S', None, None], ['S', lo, n], ['S', lo - 1, n], ['S', lo, n + 1], ['T', lo, n], ['T', None, n],
           ['F', lo - 2, n + 2, 7], ['F', lo - 3, lo - 1, 7], ['F', n + 1, n + 3, 7], ['F', lo, n, 7],
           ['L', -(n - lo), 0, None], ['L', -(n - lo) - 1, 0, 7], ['L', -(n - lo) - 1, 0, None]]
    # 0 is a sample / a time like any other, not "no bound given"; the keyword and default forms of the optional bounds
    extra = [['S', 0, n], ['S', lo, 0], ['T', 0, n, {'int0': 1}], ['T', 0, n], ['T', lo, 0, {'int0': 1}], ['S', 0, 0],
             ['S', lo, None, {'kw': 'lb'}], ['S', None, n, {'kw': 'ub'}], ['S', None, None, {'kw': 'none'}],
             ['T', lo, None, {'kw': 'lb'}], ['T', None, n, {'kw': 'ub'}], ['T', None, None, {'kw': 'none'}],
             ['T', lo + 1, None, {'kw': 'lb'}], ['T', None, max(n - 1, 0), {'kw': 'ub'}],
             ['S', lo + 1, None], ['S', None, n - 1 if n > lo else n], ['T', lo, None], ['T', None, None],
             ['L', -(n - lo), 0, None, {'dub': 1}], ['L', -(n - lo) - 1, 0, 0, {'dub': 1}], ['L', -1, 0, 7, {'dub': 1}],
             ['V', rng.randint(0, 9)]]
    if full:
        for a in range(lo - 2, n + 3):
            for b in range(a, n + 3):
                ops.append(['S', a, b])
                ops.append(['F', a, b, 7])
        ops += extra
    else:
        for _ in range(4):
            a = rng.randint(lo - 2, n + 2)
            b = rng.randint(a, n + 2)
            ops.append(['S', a, b])
            ops.append(['F', a, b, 7])
        a = rng.randint(lo, max(lo, n))
        ops.append(['S', a, a])
        ops.append(['S', a + 1, a - 1] if rng.random() < 0.3 else ['S', a, min(n, a + 1)])
        ops += rng.sample(extra, 7)
    if rng.random() < 0.5:
        # a fill value of 0 is as legal as any other
        ops = [([o[0], o[1], o[2], 0] + o[4:] if (o[0] in 'FL' and o[3] == 7) else o) for o in ops]
    ops = _variants(ops, sp, rng)
    if final:
        # direct conversions: only after the last mutation (the model answers them for the final state)
        for i in sorted({lo, n, 0, (lo + n) // 2, n + 3}):
            ops.append(['X', i, {'f': rng.choice(FRACS + [0, 0]), 'np': rng.choice([0, 1])}])
    return ops


def _mut_alphabet(sp):
    cap, lo, n = sp.cap, sp.lo, sp.n
    al = [['A', 1], ['A', 2], ['A', cap], ['A', cap + 2]]
    for i in sorted({lo - 1, lo, (lo + n) // 2, n - 1, n, n + 1, 0}):
        if i >= 0:
            al.append(['I', i, 's'])
    for m in sorted({cap - 1, cap + 1, 2 * cap + 1}):
        if m >= 1:
            al.append(['R', m])
    return al


def _exhaustive(cap, depth, rng, full):
    def rec(prefix, sp, d):
        yield prefix
        if d == 0:
            return
        for o in _mut_alphabet(sp):
            sp2 = _Spec(sp.cap)
            sp2.n, sp2.lo = sp.n, sp.lo
            sp2.apply(o)
            yield from rec(prefix + [o], sp2, d - 1)
    for hist in rec([], _Spec(cap), depth):
        if not hist:
            continue
        sp = _Spec(cap)
        for o in hist:
            sp.apply(o)
        yield [_mut_variant(o, rng, 0.15) for o in hist] + _read_sweep(sp, rng, full, final=True)


def _mut_variant(o, rng, p):
    """the same mutation requested another legal way (twin method, off-grid time, NumPy integer, other chunk kind)"""
    if rng.random() >= p:
        return o
    o = list(o)
    if o[0] == 'A':
        o.append({'dk': rng.choice(['int64', 'float32', 'view', 'fortran', 'ro'])})
    elif o[0] == 'I':
        if rng.random() < 0.5:
            o[2] = 't'
            o.append({'f': rng.choice(FRACS if o[1] > 0 else [0.25, 0.5, 0.75, 0.4999, 0.5001])})
        else:
            o[2] = 's'
            o.append({'np': rng.choice([1, 2])})
    elif o[0] == 'R':
        o.append({'f': rng.choice([0.25, 0.5, 0.75, -0.25, 0.4999, 0.5001]), 'int': 0} if rng.random() < 0.7 else {'int': 1})
    return o


def _config(rng, fs=None):
    """a constructor configuration (every keyword of SignalBuffer takes default and non-default values)"""
    cfg = {'fs': fs if fs is not None else rng.choice([1.0, 1000.0, 195312.5]),
           'ch': rng.choice([1, 1, 1, 2, 2, 3]),
           'fskind': rng.choice(['float', 'float', 'int', 'np64']),
           'sizefrac': rng.choice([0, 0, 0.5, 0.999, 0.25, 0.001]),
           'intsize': rng.random() < 0.3, 'nckw': rng.random() < 0.3,
           'intdata': rng.random() < 0.3}
    if cfg['ch'] == 1:
        cfg['twod'] = rng.random() < 0.25
    cfg['dtype'] = rng.choice([None, None, None, 'float32', 'int64', 'int32'])
    cfg['bfill'] = rng.choice([FILL, 0] if cfg['dtype'] in ('int64', 'int32') else [FILL, 0, None])
    cfg['fillk'] = rng.choice(['float', 'int', 'bool'])
    return cfg


def cases(tier, rng):
    quick = tier == 'quick'
    for cap in ([2, 3] if quick else [1, 2, 3, 4]):
        for hist in _exhaustive(cap, 3 if quick else 4, rng, full=False):
            yield dict(_config(rng, fs=1.0), cap=cap, ops=hist)
    for _ in range(400 if quick else 6000):
        cap = rng.randint(1, 12)
        sp = _Spec(cap)
        ops = []
        for _ in range(rng.randint(1, 40 if not quick else 20)):
            u = rng.random()
            if u < 0.45:
                o = ['A', rng.choice([1, 1, 2, 3, rng.randint(1, 2 * sp.cap + 2), sp.cap, sp.cap + 1])]
            elif u < 0.65:
                o = ['I', max(0, rng.randint(sp.lo - 3, sp.n + 2)), rng.choice('st')]
            elif u < 0.72:
                o = ['R', rng.randint(1, 2 * sp.cap + 2)]
            else:
                o = rng.choice(_read_sweep(sp, rng))
            o = _mut_variant(o, rng, 0.3) if o[0] in 'AIR' else o
            ops.append(o)
            sp.apply(o)
        ops += _read_sweep(sp, rng, full=(sp.n - sp.lo) <= 5, final=True)
        yield dict(_config(rng), cap=cap, ops=ops)
    # zero-length chunks (drawn last: the cases above are the same as before)
    yield from _empty_append_cases(48 if quick else 600, rng)
    yield from _reacquire_cases(40 if quick else 600, rng)


def _reacquire_cases(n_cases, rng):
    """ONE read, an invalidation inside the window, appends that bring the stream back to exactly the same length (the same
    bounds, other samples: a block dropped and acquired again), then THE SAME read and nothing else in between: what a read
    returns is a function of the stream, not of the bounds it was made at"""
    for j in range(n_cases):
        cap = rng.randint(2, 8)
        sp = _Spec(cap)
        ops = []
        for _ in range(rng.randint(1, 4)):
            o = ['A', rng.choice([1, 2, 3, cap])]
            ops.append(o)
            sp.apply(o)
        lo, n = sp.lo, sp.n
        a = rng.randint(lo - 2, n)
        rd = rng.choice([['F', a, rng.randint(max(a, lo + 1), n + 2), rng.choice([7, 0])], ['L', -(n - lo) - rng.randint(0, 2), 0, 7],
                         ['S', lo, n], ['T', lo, n], ['L', -(n - lo), 0, None]])
        i = rng.randint(max(lo, 0), max(n - 1, 0))
        ops.append(list(rd))
        o = ['I', i, rng.choice('st')]
        ops.append(o)
        sp.apply(o)
        left = n - sp.n
        while left > 0:
            k = rng.randint(1, left)
            o = ['A', k]
            ops.append(o)
            sp.apply(o)
            left -= k
        ops.append(list(rd))
        if j % 2:
            ops += [['R', cap + rng.randint(0, 2)], list(rd)]
        ops += _read_sweep(sp, rng, full=False, final=True)
        yield dict(_config(rng, fs=rng.choice([1.0, 1000.0])), cap=cap, ops=ops)


EMPTY_KINDS = [None, None, 'int64', 'float32', 'ro', 'view', 'fortran']


def _empty_append_cases(n_cases, rng):
    """histories with zero-length chunks: as the very first call, between an invalidate / resize and a read, at random places"""
    def empty():
        return ['A', 0, {'dk': rng.choice(EMPTY_KINDS)}]
    for j in range(n_cases):
        cap = rng.randint(1, 6)
        sp = _Spec(cap)
        ops = []
        if j % 3 == 0:
            ops.append(empty())                       # before anything was appended
            if j % 6 == 0:
                ops += rng.sample(_read_sweep(sp, rng), 3)
        for _ in range(rng.randint(2, 8)):
            o = rng.choice(_mut_alphabet(sp))
            o = _mut_variant(o, rng, 0.2)
            ops.append(o)
            sp.apply(o)
            if o[0] in 'IR' and rng.random() < 0.7:
                ops.append(empty())                   # between an invalidate / resize and a read
                ops += rng.sample(_read_sweep(sp, rng), 2)
            elif rng.random() < 0.25:
                ops.append(empty())
                if rng.random() < 0.5:
                    ops.append(empty())               # two in a row
        if j % 4 == 1:
            ops.append(empty())                       # last mutation before the final sweep
        if not any(o[0] == 'A' and o[1] == 0 for o in ops):
            ops.insert(rng.randint(0, len(ops)), empty())
        ops += _read_sweep(sp, rng, full=(sp.n - sp.lo) <= 4, final=True)
        yield dict(_config(rng, fs=rng.choice([1.0, 1.0, 1000.0])), cap=cap, ops=ops)


def key(case, res):
    return None


def distribution(cases, results):
    d = {}
    for c in cases:
        for f in ('fs', 'fskind', 'sizefrac', 'dtype', 'bfill', 'ch', 'twod'):
            kk = f'{f}={c.get(f)}'
            d[kk] = d.get(kk, 0) + 1
        for o in c['ops']:
            kk = 'op ' + o[0] + (' empty' if (o[0] == 'A' and o[1] == 0) else '') + ''.join(f' {a}' for a in sorted(_flags(o)) if _flags(o)[a] not in (0, None))
            d[kk] = d.get(kk, 0) + 1
    return d


# ====================================================================================================================
# Translator tie (appended; nothing above is changed).  On every run coq/gen/BufferStepGen.v is REGENERATED from the
# source under test by translate/pybuffer2coq.py: one Gallina definition per method of SignalBuffer, statement by
# statement.  coq/Buffer/ProofsTie.v proves these definitions equal to the hand-written model (theorems C14_source_* of
# coq/Props/C14.v), so a change of the index arithmetic in buffer.py that the model does not have breaks those proofs
# (reported by the driver as a broken tie), whether or not a generated history reaches it.
import os as _os
import vlib as _vlib
from translate import pybuffer2coq as _pybuffer2coq

GEN = 'gen/BufferStepGen.v'
TRUSTED += [
    'translate/pybuffer2coq.py (fail-closed `ast` translator SignalBuffer -> coq/gen/BufferStepGen.v; its tables pin: the '
    'signatures of the translated methods; the float helpers time_to_samples / get_time_lb / get_time_ub / get_range as whole '
    'texts, calls of which are read in sample units (time_to_samples(x) = x: the harness hands the model round(t*fs)); '
    '`self._buffer_samples = int(np.ceil(fs * size))` as the abstract input buffer_samples of g_init; np.full / np.pad / the '
    'ndim switches of __init__ and get_range_filled as their one-channel reading; the shape validation of append_data, '
    'logging calls and `with self._lock:` dropped (locking: C15).  Self-test on every translation: 14 random buffers, every '
    'translated method run on the REAL object (fs = 1) and the outcome - result, exception, all fields afterwards - emitted '
    'as an Example that Coq checks by vm_compute against the generated definition)',
    'coq/Buffer/TieLib.v: exceptions as values, NumPy slice assignment (length check, length-1 broadcast, overlap copied '
    'first), np.full / np.pad refusing negative sizes; one channel as `list Z` - a multichannel buffer applies the same index '
    'arithmetic to every row (the differential harness runs 1-3 channels)']


def translate(repo):
    """Regenerate coq/gen/BufferStepGen.v from the source under test.  Anything the translator cannot digest (or a real
    method that fails in the self-test) is written as a generated file that does not compile, so that the driver reports
    the C14_source_* proofs as broken (fail closed)."""
    info = {'gen_files': [GEN], 'source': [_os.path.join(repo, 'psiaudio/buffer.py')], 'gap': None}
    try:
        text, tinfo = _pybuffer2coq.generate(repo)
        info.update(tinfo)
    except _vlib.MachineryError:
        raise
    except Exception as e:
        info['gap'] = f'{type(e).__name__}: {e}'
        msg = ''.join(ch if ch.isalnum() or ch in " _.,:;()[]{}=+-*/<>'`" else ' ' for ch in info['gap'])
        msg = msg.replace('(*', '( *').replace('*)', '* )')[:400]
        # deliberately ill-typed, so that the build fails and coqc's error message carries the reason
        text = ('(* GENERATED by harness/C14.py translate(): translate/pybuffer2coq.py stopped on\n'
                f'   {repo}/psiaudio/buffer.py - do not edit. *)\n'
                'From Coq Require Import ZArith String.\n'
                f'Definition translator_gap : Z :=\n  "{msg}"%string.\n')
    with open(_os.path.join(_vlib.COQ, GEN), 'w') as f:      # always rewritten: always re-checked
        f.write(text)
    # the correspondence files only need the hand-written model; make sure it is built even if the tie breaks
    for r in REQUIRES:
        rc, out = _vlib.coq_build(r.replace('.', '/') + '.vo')
        if rc != 0:
            raise _vlib.MachineryError(f'{r} does not build:\n' + out[-3000:])
    return info
