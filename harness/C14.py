"""C14 - SignalBuffer returns exactly the retained window.  Model: coq/Buffer/Model.v."""
import itertools
import numpy as np
from vlib import zlit, zlist, optlit, listlit

PROP = 'C14'
REQUIRES = ['Buffer.Model', 'Buffer.Spec']
RULE = ('histories of mutations (append n in {1,2,cap,cap+2}; invalidate at {lb-1, lb, mid, ub-1, ub, ub+1, 0}; resize to '
        '{cap-1, cap+1, 2cap+1}) exhaustive up to length 3 (quick: cap 2,3; thorough: length 4, cap 1..4) followed by a boundary-centred read sweep '
        '(plain, filled incl. entirely-outside requests, latest, None bounds); then seeded random histories up to length 40 (cap up to 12); '
        '1 and 2 channels; fs in {1, 1000, 195312.5}; buffer and read fill values incl. 0; float and integer-typed chunks; the caller overwrites every array after appending it. Non-trivial: history contains an invalidate or resize, or an append larger '
        'than the capacity. Distinct = distinct (cap, fs, channels, op list).')
TRUSTED = ['harness/C14.py (history generator; conversion of sample positions to seconds k/fs and back with the same float '
           'expression the code uses; canonicalisation of ndarray rows to integer lists)',
           'NumPy basic slicing / overlapping slice assignment / np.pad as modelled in coq/Common/PySlice.v and coq/Buffer/Model.v']
ASSUMPTIONS = ['times are passed as k/fs; seconds->samples is round(t*fs) (Common/FloatGrid theorem for the grid round trip)',
               'appends have n >= 1, invalidation positions are >= 0, resize targets >= 1 sample',
               'reads with lb > ub are compared model-vs-code but not judged by the property']
FILL = -1


def _mk(case):
    from psiaudio.buffer import SignalBuffer
    fs = case['fs']
    size = case['cap'] / fs
    ch = case['ch']
    b = SignalBuffer(fs, size, fill_value=float(case.get('bfill', FILL)), n_channels=(None if ch == 1 else ch))
    return b


def _eff_cap(case):
    return int(np.ceil(case['fs'] * (case['cap'] / case['fs'])))


def _row(a, r, ch):
    a = np.asarray(a)
    x = a if ch == 1 else a[r]
    out = []
    for v in x:
        if np.isnan(v):
            out.append(-999999)
        else:
            v = float(v)
            # rows are offset by 100000*r so that channels are distinguishable; undo it for the model
            if r > 0 and v >= 100000 * r:
                v -= 100000 * r
            out.append(int(v))
    return out


def impl(case):
    """Returns per channel the list of observable outputs, plus the effective op list in samples."""
    b = _mk(case)
    fs = case['fs']
    ch = case['ch']
    pos = 0   # values appended so far are 1..pos  (self-identifying)
    outs = [[] for _ in range(ch)]
    eff = []

    def emit(val):
        for r in range(ch):
            outs[r].append(val(r))

    def rd(f):
        try:
            a = f()
            emit(lambda r: ['D', _row(a, r, ch)])
        except IndexError:
            emit(lambda r: ['IE'])
        except ValueError:
            emit(lambda r: ['VE'])

    for o in case['ops']:
        k = o[0]
        if k == 'A':
            n = o[1]
            base = np.arange(pos + 1, pos + n + 1, dtype=float)
            vals = [int(v) for v in base]
            pos += n
            data = base.copy() if ch == 1 else np.stack([base + 100000 * r for r in range(ch)])
            if case.get('intdata') and (len(eff) % 2 == 0):
                data = data.astype(np.int64)        # integer-typed chunks are legal input
            b.append_data(data)
            data[...] = -555                        # the caller reuses its array: the buffer must have copied it
            eff.append(['A', vals])
            emit(lambda r: ['N'])
        elif k == 'I':
            if o[2] == 's':
                b.invalidate_samples(o[1])
                eff.append(['I', o[1]])
            else:
                t = o[1] / fs
                b.invalidate(t)
                eff.append(['I', round(t * fs)])
            emit(lambda r: ['N'])
        elif k == 'R':
            size = o[1] / fs
            s_ub = b.get_samples_ub()
            m = s_ub - round((-size + s_ub / fs) * fs)
            b.resize(size)
            eff.append(['R', m])
            emit(lambda r: ['N'])
        elif k == 'S':      # get_range_samples(lb, ub), None allowed
            lb, ub = o[1], o[2]
            rd(lambda: b.get_range_samples(lb, ub))
            eff.append(['S', lb, ub])
        elif k == 'T':      # get_range(lb_t, ub_t) in seconds
            lb, ub = o[1], o[2]
            tl = None if lb is None else lb / fs
            tu = None if ub is None else ub / fs
            rd(lambda: b.get_range(tl, tu))
            # get_range replaces None by the time bounds and converts back with round()
            el = round(b.get_time_lb() * fs) if lb is None else round(tl * fs)
            eu = round(b.get_time_ub() * fs) if ub is None else round(tu * fs)
            eff.append(['S', el, eu])
        elif k == 'F':      # get_range_filled(lb_t, ub_t, fill)
            tl, tu = o[1] / fs, o[2] / fs
            rd(lambda: b.get_range_filled(tl, tu, float(o[3])))
            eff.append(['F', round(tl * fs), round(tu * fs), o[3]])
        elif k == 'L':      # get_latest(lb_t, ub_t, fill)
            tl, tu = o[1] / fs, o[2] / fs
            f = o[3]
            s_ub = b.get_samples_ub()
            rd(lambda: b.get_latest(tl, tu, None if f is None else float(f)))
            el = round((tl + s_ub / fs) * fs) - s_ub
            eu = round((tu + s_ub / fs) * fs) - s_ub
            eff.append(['L', el, eu, f])
        elif k == 'B':
            lb, ub = b.get_samples_lb(), b.get_samples_ub()
            tlb, tub = b.get_time_lb(), b.get_time_ub()
            ok = (tlb == lb / fs) and (tub == ub / fs)
            emit(lambda r: ['B', int(lb), int(ub)] if ok else ['B', int(lb), int(ub), 'time-bounds-mismatch'])
            eff.append(['B'])
        else:
            raise KeyError(k)
    return {'cap': _eff_cap(case), 'eff': eff, 'outs': outs}


def _op(o):
    k = o[0]
    if k == 'A':
        return f'Append {zlist(o[1])}'
    if k == 'I':
        return f'Invalidate {zlit(o[1])}'
    if k == 'R':
        return f'Resize {zlit(o[1])}'
    if k == 'S':
        return f'ReadS {optlit(o[1], zlit)} {optlit(o[2], zlit)}'
    if k == 'F':
        return f'ReadFilled {zlit(o[1])} {zlit(o[2])} {zlit(o[3])}'
    if k == 'L':
        return f'Latest {zlit(o[1])} {zlit(o[2])} {optlit(o[3], zlit)}'
    return 'Bounds'


def _out(v):
    if v[0] == 'N':
        return 'ONone'
    if v[0] == 'D':
        return f'OData {zlist(v[1])}'
    if v[0] == 'IE':
        return 'OIndexError'
    if v[0] == 'VE':
        return 'OValueError'
    if v[0] == 'B' and len(v) == 3:
        return f'OBounds {zlit(v[1])} {zlit(v[2])}'
    return 'OBounds 0 (-1)'   # time bounds inconsistent with sample bounds: never equal to a model output


def term(case, res):
    ops = listlit([_op(o) for o in res['eff']])
    ts = []
    for r in range(case['ch']):
        ts.append(f"check_run {zlit(res['cap'])} {zlit(case.get('bfill', FILL))} {ops} {listlit([_out(v) for v in res['outs'][r]])}")
    # also evaluate the refinement statement of Props/C14.v on this very history (a test of the theorem, not its proof)
    ts.append(f"check_spec {zlit(res['cap'])} {zlit(case.get('bfill', FILL))} {ops}")
    return ' && '.join(f'({t})' for t in ts)


def nontrivial(case, res):
    cap = res['cap']
    return any(o[0] in 'IR' or (o[0] == 'A' and o[1] > cap) for o in case['ops'])


def oracle(case, res):
    """Abstract spec: logical stream + retained-window start; judged on the implementation's outputs only."""
    for r in range(case['ch']):
        cap = res['cap']
        stream, lo = [], 0
        for idx, (o, got) in enumerate(zip(res['eff'], res['outs'][r])):
            k = o[0]
            if k == 'A':
                stream = stream + o[1]
                lo = max(lo, len(stream) - cap)
            elif k == 'I':
                i = o[1]
                if 0 <= i < len(stream):
                    stream = stream[:i]
                    lo = min(lo, i)
            elif k == 'R':
                cap = o[1]
                lo = max(lo, len(stream) - cap)
            elif k == 'B':
                if got[1:] != [lo, len(stream)]:
                    return f'bounds {got[1:]} but the retained window of the logical stream is [{lo}, {len(stream)}) after {[e for e in res["eff"][:idx] if e[0] in "AIR"]}'
                if not got[1] <= got[2]:
                    return f'lower bound {got[1]} > upper bound {got[2]}'
            elif k == 'S':
                a = lo if o[1] is None else o[1]
                b = len(stream) if o[2] is None else o[2]
                if a > b:
                    continue
                want = ['D', stream[a:b]] if (lo <= a and b <= len(stream)) else ['IE']
                if got != want:
                    return f'read [{a},{b}) returned {got}, expected {want} (window [{lo},{len(stream)})) after {[e for e in res["eff"][:idx] if e[0] in "AIR"]}'
            elif k in 'FL':
                if k == 'L':
                    a, b, f = o[1] + len(stream), o[2] + len(stream), o[3]
                else:
                    a, b, f = o[1], o[2], o[3]
                if a > b:
                    continue
                if f is None:
                    want = ['D', stream[a:b]] if (lo <= a and b <= len(stream)) else ['IE']
                else:
                    want = ['D', [stream[i] if lo <= i < len(stream) else f for i in range(a, b)]]
                if got != want:
                    return f'filled/latest read [{a},{b}) fill={f} returned {got}, expected {want} (window [{lo},{len(stream)})) after {[e for e in res["eff"][:idx] if e[0] in "AIR"]}'
    return None


class _Spec:
    """Tracks (len, lo, cap) so that generators can aim at the boundaries."""
    def __init__(self, cap):
        self.cap, self.n, self.lo = cap, 0, 0

    def apply(self, o):
        if o[0] == 'A':
            self.n += o[1]
            self.lo = max(self.lo, self.n - self.cap)
        elif o[0] == 'I' and 0 <= o[1] < self.n:
            self.n = o[1]
            self.lo = min(self.lo, o[1])
        elif o[0] == 'R':
            self.cap = o[1]
            self.lo = max(self.lo, self.n - self.cap)


def _read_sweep(sp, rng, full=False):
    lo, n = sp.lo, sp.n
    ops = [['B'], ['S', None, None], ['S', lo, n], ['S', lo - 1, n], ['S', lo, n + 1], ['T', lo, n], ['T', None, n],
           ['F', lo - 2, n + 2, 7], ['F', lo - 3, lo - 1, 7], ['F', n + 1, n + 3, 7], ['F', lo, n, 7],
           ['L', -(n - lo), 0, None], ['L', -(n - lo) - 1, 0, 7], ['L', -(n - lo) - 1, 0, None]]
    if full:
        for a in range(lo - 2, n + 3):
            for b in range(a, n + 3):
                ops.append(['S', a, b])
                ops.append(['F', a, b, 7])
    else:
        for _ in range(4):
            a = rng.randint(lo - 2, n + 2)
            b = rng.randint(a, n + 2)
            ops.append(['S', a, b])
            ops.append(['F', a, b, 7])
        a = rng.randint(lo, max(lo, n))
        ops.append(['S', a, a])
        ops.append(['S', a + 1, a - 1] if rng.random() < 0.3 else ['S', a, min(n, a + 1)])
    if rng.random() < 0.5:
        # a fill value of 0 is as legal as any other
        ops = [([o[0], o[1], o[2], 0] if (o[0] in 'FL' and o[3] == 7) else o) for o in ops]
    return ops


def _mut_alphabet(sp):
    cap, lo, n = sp.cap, sp.lo, sp.n
    al = [['A', 1], ['A', 2], ['A', cap], ['A', cap + 2]]
    for i in sorted({lo - 1, lo, (lo + n) // 2, n - 1, n, n + 1, 0}):
        if i >= 0:
            al.append(['I', i, 's'])
    for m in sorted({cap - 1, cap + 1, 2 * cap + 1}):
        if m >= 1:
            al.append(['R', m])
    return al


def _exhaustive(cap, depth, rng, full):
    def rec(prefix, sp, d):
        yield prefix
        if d == 0:
            return
        for o in _mut_alphabet(sp):
            sp2 = _Spec(sp.cap)
            sp2.n, sp2.lo = sp.n, sp.lo
            sp2.apply(o)
            yield from rec(prefix + [o], sp2, d - 1)
    for hist in rec([], _Spec(cap), depth):
        if not hist:
            continue
        sp = _Spec(cap)
        for o in hist:
            sp.apply(o)
        yield hist + _read_sweep(sp, rng, full)


def cases(tier, rng):
    quick = tier == 'quick'
    for cap in ([2, 3] if quick else [1, 2, 3, 4]):
        for hist in _exhaustive(cap, 3 if quick else 4, rng, full=False):
            yield {'cap': cap, 'fs': 1.0, 'ch': 1, 'ops': hist, 'bfill': rng.choice([FILL, 0]), 'intdata': rng.random() < 0.3}
    fss = [1.0, 1000.0, 195312.5]
    for _ in range(400 if quick else 6000):
        cap = rng.randint(1, 12)
        sp = _Spec(cap)
        ops = []
        for _ in range(rng.randint(1, 40 if not quick else 20)):
            u = rng.random()
            if u < 0.45:
                o = ['A', rng.choice([1, 1, 2, 3, rng.randint(1, 2 * sp.cap + 2), sp.cap, sp.cap + 1])]
            elif u < 0.65:
                o = ['I', max(0, rng.randint(sp.lo - 3, sp.n + 2)), rng.choice('st')]
            elif u < 0.72:
                o = ['R', rng.randint(1, 2 * sp.cap + 2)]
            else:
                o = rng.choice(_read_sweep(sp, rng))
            ops.append(o)
            sp.apply(o)
        ops += _read_sweep(sp, rng, full=(sp.n - sp.lo) <= 5)
        yield {'cap': cap, 'fs': rng.choice(fss), 'ch': rng.choice([1, 1, 2]), 'ops': ops,
               'bfill': rng.choice([FILL, 0]), 'intdata': rng.random() < 0.3}


def key(case, res):
    return None
