"""C13 - edge detection reports every clean transition once, at its exact sample.
Model: coq/Edges/Model.v (on top of coq/Runs/Model.v); theorems: coq/Props/C13.v."""
import itertools
import warnings
import numpy as np
from vlib import zlit, blist, pairlist, optlit, listlit, blit

PROP = 'C13'
REQUIRES = ['Edges.Model']
RULE = ('edges: every binary stream of length <= L (quick 6-7 - at length 7 every third chunking -, thorough 9) meeting the run-length precondition x debounce 1..3 x '
        'both initial states x EVERY chunking (all compositions of the length, so every boundary 0..debounce samples before/after an '
        'edge and chunks of length 1), detect mode / input form (plain 1-D, plain (1,n), PipelineData (1,n), PipelineData 1-D) / dtype / '
        'first index rotating; low-high-low-high streams with runs debounce+1..debounce+2, debounce 1..5, with the chunk boundaries '
        'swept over every subset (debounce >= 3 in quick: every subset of size <= 2, and the full set) of the positions within debounce+1 of one edge and with all-ones chunking; a sample of streams NOT '
        'meeting the precondition (model = code only); seeded random long streams with empty chunks, debounce up to 12; error paths '
        '(min_samples < 1, misaligned / different-rate / mixed chunks, unknown detect). Events: get_range_samples / '
        'get_latest_samples for every (start, end) pair around the block limits on blocks with events inside, on and outside the '
        'limits; combine_events on 0..4 blocks, aligned, misaligned and with different rates; every edges case also merges its own '
        'blocks. Time-based get_range / get_latest at fs 25000, 44100, 100000, 195312.5 with bounds k/fs around events and block limits, '
        'k chosen (by search) so that (k/fs)*fs != k in binary64, on blocks around / starting at / ending at such k and on merged blocks; '
        'the model is asked the sample query at the bounds the code\'s int(round(t*fs)) gives, the oracle at k. '
        'Kinds rotated over all edges cases: min_samples int/np.int64/np.int32; initial_state False/0/0.0/np.bool_/np.uint8 and True/1/2/1.5/-1; '
        'fs argument float/int/np.float64, rates 25/1000/48000/195312.5; target list.append / coroutine.send / function; dtypes bool, int (high 1..3), '
        'float, uint8 (255), int8 (-1), float with nan/inf/denormal highs and -0.0 lows; fresh / re-used-and-overwritten / read-only caller buffers '
        '(input must stay intact); first index 0, 7, -1, -5, 1000003, 2**40 as int or np.int64; empty first chunk and all-empty input for every form. '
        'Events built from tuples / lists / DataFrame / DataFrame with a stale ts column; bounds int / np.int64 / float; every answer is '
        'overwritten by the caller and the query repeated (aliasing); range_samples, t0, rate(), str checked on every block; combine_events on '
        'lists and tuples, int-vs-float equal rates, rates one ulp apart; off-grid times (k+d)/fs incl. exact ties; negative sample numbers. '
        'Input without a rate: plain 1-D and (1,n) chunks with fs left at its default "auto" and with fs=None - every clean stream of length <= 5 (thorough 8) x '
        'debounce 1..3 x both initial states x every chunking (quick, length 5: every second one), boundary sweeps, unclean streams, empty chunks: one block per chunk, tiling, exact events, merging as usual, '
        'the blocks carry fs None and a NaN ts column; Events without a rate built directly (with and without events): sample-based range / latest queries and '
        'merging (None with None merges, None with a number is refused), seconds-based get_range / get_latest raise ValueError. '
        '1-D PipelineData whose channel label is None (the constructor default), "left", 3, ("a", 1) and (1,n) PipelineData with channel None: later chunks '
        'must concatenate with the carried samples, events as usual. '
        'Non-trivial: at least one event reported or selected. Distinct = distinct case dictionaries.')
TRUSTED = ['harness/C13.py (generators; conversion of Events objects to integer tuples; brute-force transition oracle)',
           'numpy/pandas primitives used by edges/Events (concatenate, boolean cast, DataFrame filtering and concat) as modelled '
           'in coq/Edges/Model.v and coq/Runs/Model.v (exercised by the correspondence, not proved)']
ASSUMPTIONS = ['input chunks are 1-D or (1, n); N-dimensional input (ValueError) is not modelled',
               'annotated chunks share channel and metadata (pipeline.concat raises otherwise); the channel label of a 1-D PipelineData is any '
               'non-list value (None, str, int, tuple are exercised; a list-valued label on 1-D data is not)',
               'the rate is an opaque label in the model (theorem C13_rate_irrelevant): the integer 2*fs for a numeric rate, -1 for no rate '
               '(plain input with fs="auto" / None gives Events with fs None and ts NaN); ts = sample / fs is compared exactly by the harness; '
               'Events.t0 and Events.rate() are seconds-based and are not observed on Events without a rate',
               'seconds -> samples is int(round(t * fs)) computed by the harness with the same float expression; round((k/fs)*fs) = k is '
               'checked per case (Common/FloatGrid theorem)',
               'the initial state counts as a settled run: a transition at the first sample is a transition of the stream']

KINDS = {'rising': 1, 'falling': 0}
NOFS = -1                      # the model's label for "no sampling rate" (Events.fs is None)
CHANS = {None: 'c', 'none': None, 'left': 'left', 'int3': 3, 'tuple': ('a', 1)}   # channel label of a 1-D PipelineData
DETECT = {'rising': 0, 'falling': 1, 'both': 2, 'none': 3}


def _P():
    from psiaudio import pipeline
    return pipeline


# ----------------------------------------------------------------------------
# brute-force reference (independent of the Coq model)
def transitions(init, first, x):
    out, p = [], bool(init)
    for i, b in enumerate(x):
        b = bool(b)
        if b and not p:
            out.append((1, first + i))
        if p and not b:
            out.append((0, first + i))
        p = b
    return out


def clean(m, init, x):
    """every run that has ended is longer than m; the initial state is a settled run"""
    prev, cnt = bool(init), None      # cnt None: the settled initial run
    for b in x:
        b = bool(b)
        if b == prev:
            if cnt is not None:
                cnt += 1
        else:
            if cnt is not None and not cnt > m:
                return False
            prev, cnt = b, 1
    return True


def compositions(n):
    if n == 0:
        yield []
        return
    for k in range(1, n + 1):
        for r in compositions(n - k):
            yield [k] + r


def split(x, comp):
    out, o = [], 0
    for k in comp:
        out.append(list(x[o:o + k]))
        o += k
    return out


FORMS = ['plain', 'pd', 'plain2d', 'pd', 'plain', 'pd1d']
DTYPES = ['bool', 'int', 'float', 'uint8', 'int8', 'floatodd', 'bool']
MODES = ['both', 'both', 'rising', 'falling']
FIRSTS = [0, 7, 1000003, -5, -1, 2 ** 40]
FSS = [1000, 25, 48000, 195312.5]
MKINDS = ['int', 'np64', 'int', 'np32']                 # type of min_samples
LOWS = ['False', '0', '0.0', 'npbool', 'npu8']            # kinds of a low initial_state
HIGHS = ['True', '1', '2', '1.5', 'npbool', '-1']         # kinds of a high initial_state (any non-zero value)
FSKINDS = ['float', 'int', 'np64']                      # type of the fs argument (plain input)
TARGETS = ['append', 'send', 'func', 'append']          # list.append, a coroutine's .send, a plain function
BUFS = ['fresh', 'reuse', 'fresh', 'readonly', 'reuse'] # caller re-uses (and overwrites) one buffer / read-only arrays
S0KINDS = ['int', 'np64']


def fskey(fs):
    """rates go to the model as the integer 2 * fs (195312.5 is a legal rate)"""
    assert float(fs * 2) == int(fs * 2)
    return int(fs * 2)


def _edge_case(i, m, init, x, comp, **kw):
    c = {'k': 'edges', 'm': m, 'init': int(init), 'fs': FSS[i % 4],
         'detect': MODES[i % 4], 'form': FORMS[i % 6], 'first': FIRSTS[(i // 2) % 6],
         'dtype': DTYPES[(i // 3) % 7], 'chunks': split([int(b) for b in x], comp),
         'mk': MKINDS[(i // 5) % 4], 'ik': (i // 7) % 6, 'fsk': FSKINDS[(i // 4) % 3],
         'tgt': TARGETS[(i // 3) % 4], 'buf': BUFS[(i // 2) % 5], 's0k': S0KINDS[(i // 11) % 2]}
    c.update(kw)
    if not c['form'].startswith('pd'):
        c['first'] = 0
    if c['mk'] == 'np32' and abs(c['first']) >= 2 ** 31:
        c['mk'] = 'np64'      # NumPy 2: python-int s0 beyond int32 minus np.int32(min_samples) raises OverflowError (caller's type choice)
    return c


def cases(tier, rng):
    quick = tier == 'quick'
    i = 0
    # --- error paths and odd modes
    base = [[0, 1, 1, 1], [1, 0, 0, 0, 1], [1, 1]]
    for m in (0, -1):
        yield {'k': 'edges', 'm': m, 'init': 0, 'fs': 1000, 'detect': 'both', 'form': 'plain', 'first': 0,
               'dtype': 'int', 'chunks': base}
    for g in ({'idx': 1, 'kind': 's0'}, {'idx': 2, 'kind': 's0'}, {'idx': 1, 'kind': 'fs'}, {'idx': 2, 'kind': 'plain'},
              {'idx': 0, 'kind': 's0'}):
        yield {'k': 'edges', 'm': 2, 'init': 0, 'fs': 1000, 'detect': 'both', 'form': 'pd', 'first': 7,
               'dtype': 'int', 'chunks': base, 'glitch': g}
    yield {'k': 'edges', 'm': 2, 'init': 0, 'fs': 1000, 'detect': 'both', 'form': 'plain', 'first': 0,
           'dtype': 'int', 'chunks': base, 'glitch': {'idx': 1, 'kind': 'pd'}}
    for form in ('plain', 'pd'):
        yield {'k': 'edges', 'm': 1, 'init': 1, 'fs': 1000, 'detect': 'none', 'form': form, 'first': 0,
               'dtype': 'int', 'chunks': base}
        yield {'k': 'edges', 'm': 2, 'init': 1, 'fs': 1000, 'detect': 'both', 'form': form, 'first': 3 if form == 'pd' else 0,
               'dtype': 'int', 'chunks': []}
    yield {'k': 'edges', 'm': 2, 'init': 0, 'fs': 1000, 'detect': 'both', 'form': 'pd', 'first': 7,
           'dtype': 'int', 'chunks': base, 'glitch': {'idx': 1, 'kind': 'fs_ulp'}}
    yield {'k': 'ndim', 'shape': [2, 4]}
    yield {'k': 'ndim', 'shape': [1, 1, 4]}
    yield {'k': 'nofs'}
    # --- empty first chunk / only empty chunks / single samples, every input form and first index
    for j, chunks in enumerate(([[], [0, 1, 1, 1], [], [1, 0, 0, 0]], [[], []], [[1]], [[], [1], [], [1], [1], [0]],
                                [[0], [], [1, 1, 1, 1]])):
        for form in ('plain', 'plain2d', 'pd', 'pd1d'):
            for first in (0, -3, -1):
                for init in (0, 1):
                    i += 1
                    c = _edge_case(i, 1 + (i % 3), init, [], [], form=form, first=first)
                    c['chunks'] = chunks
                    if not form.startswith('pd'):
                        c['first'] = 0
                    yield c
    # --- exhaustive: clean streams x all chunkings
    for m in (1, 2, 3):
        L = (6 if m == 1 else 7) if quick else 9
        for n in range(0, L + 1):
            for x in itertools.product([0, 1], repeat=n):
                for init in (0, 1):
                    if not clean(m, init, x):
                        continue
                    for ci, comp in enumerate(compositions(n)):
                        if quick and n == 7 and (ci + sum(x) + init) % 3:
                            continue                  # quick: every third chunking of the longest streams
                        i += 1
                        yield _edge_case(i, m, init, x, comp)
    # --- boundary sweep around one edge of a low-high-low-high stream
    for m in ((1, 2, 3, 4, 5) if quick else (1, 2, 3, 4, 5, 6, 7)):
        for extra in ((1,) if quick and m > 1 else (1, 2)):
            r = m + extra
            x = [0] * r + [1] * r + [0] * r + [1] * r
            for init in (0, 1):
                for edge in (r, 2 * r):
                    near = [p for p in range(edge - m - 1, edge + m + 2) if 0 < p < len(x)]
                    # every subset of the nearby positions (quick, debounce >= 3: subsets of size <= 2 and the full set)
                    sizes = range(len(near) + 1) if (m <= 2 or (not quick and m <= 4)) else [0, 1, 2, len(near)]
                    for k in sizes:
                        for cut in itertools.combinations(near, k):
                            pts = [0] + list(cut) + [len(x)]
                            comp = [b - a for a, b in zip(pts, pts[1:])]
                            i += 1
                            yield _edge_case(i, m, init, x, comp)
                i += 1
                yield _edge_case(i, m, init, x, [1] * len(x))
    # --- streams that do NOT meet the precondition: model = code only (plus tiling / time checks)
    Lu = 8 if quick else 10
    for _ in range(900 if quick else 20000):
        n = rng.randint(1, Lu)
        x = [rng.randint(0, 1) for _ in range(n)]
        comp = rng.choice(list(compositions(n))) if n <= 8 else _rand_comp(rng, n, False)
        i += 1
        yield _edge_case(i, rng.randint(1, 4), rng.randint(0, 1), x, comp)
    # --- random long streams, clean and not, empty chunks allowed
    for _ in range(250 if quick else 6000):
        m = rng.randint(1, 12)
        x, b = [], rng.randint(0, 1)
        noisy = rng.random() < 0.3
        while len(x) < rng.randint(20, 150):
            ln = rng.randint(1, m + 2) if (noisy and rng.random() < 0.4) else rng.randint(m + 1, 3 * m + 4)
            x += [b] * ln
            b = 1 - b
        comp = _rand_comp(rng, len(x), True)
        i += 1
        yield _edge_case(i, m, rng.randint(0, 1), x, comp)
    # --- Events: range queries
    blocks = [
        [[[1, 2], [0, 3], [1, 5], [1, 5], [0, 7], [1, 8], [0, 1]], 2, 8, 1000],
        [[[0, 9], [1, 4], [0, 4], [1, 6]], 3, 7, 25],
        [[], 0, 5, 1000],
    ]
    blocks.append([[[1, -4], [0, -3], [1, -1], [0, 0], [1, 1]], -4, 2, 1000])      # a block over negative samples
    q = 0
    for B in blocks:
        for a in range(B[1] - 2, B[2] + 3):
            for b in range(B[1] - 2, B[2] + 3):
                q += 1
                yield {'k': 'range', 'block': B, 'a': a, 'b': b, 'ctor': CTORS[q % 4], 'bk': BKINDS[(q // 4) % 3]}
        for lb in range(-(B[2] - B[1]) - 2, 3):
            for ub in (None, 0, -1, -3, 1):
                q += 1
                yield {'k': 'latest', 'block': B, 'lb': lb, 'ub': ub, 'ctor': CTORS[q % 4], 'bk': BKINDS[(q // 4) % 3]}
    for _ in range(200 if quick else 4000):
        B = _rand_block(rng, rng.randint(-20, 50), rng.randint(0, 30), rng.choice([1000, 25]))
        a = rng.randint(B[1] - 3, B[2] + 3)
        b = rng.randint(B[1] - 3, B[2] + 3)
        q += 1
        yield {'k': 'range', 'block': B, 'a': a, 'b': b, 'ctor': CTORS[q % 4], 'bk': BKINDS[(q // 4) % 3]}
        yield {'k': 'latest', 'block': B, 'lb': a - B[2], 'ub': b - B[2], 'ctor': CTORS[(q + 1) % 4], 'bk': BKINDS[(q // 2) % 3]}
    # --- Events: merging
    yield {'k': 'combine', 'blocks': []}
    yield {'k': 'combine', 'blocks': [], 'seq': 'tuple'}
    two = [[[[1, 3]], 0, 5, 1000], [[[0, 6]], 5, 9, 1000]]
    yield {'k': 'combine', 'blocks': two, 'fsmix': True}                       # 1000 (int) and 1000.0: the same rate
    yield {'k': 'combine', 'blocks': [two[0], [[[0, 6]], 5, 9, 25]], 'tiny': True}   # rates differing in the last bit
    yield {'k': 'combine', 'blocks': [two[0], [[[0, 6]], 5, 9, 25], two[1]], 'tiny': True, 'seq': 'tuple'}
    for _ in range(300 if quick else 5000):
        nb = rng.randint(1, 4)
        s = rng.randint(-10, 40)
        bl = []
        for j in range(nb):
            ln = rng.randint(0, 12)
            bl.append(_rand_block(rng, s, ln, 1000))
            s += ln
        r = rng.random()
        if nb > 1 and r < 0.2:
            j = rng.randint(1, nb - 1)
            bl[j][1] += rng.choice([-1, 1])
        elif nb > 1 and r < 0.35:
            bl[rng.randint(0, nb - 1)][3] = 25
        elif nb > 2 and r < 0.45:
            bl[1][1] += 1
            bl[2][3] = 25
        q += 1
        yield {'k': 'combine', 'blocks': bl, 'seq': ['list', 'tuple'][q % 2], 'ctor': CTORS[(q // 2) % 4],
               'tiny': bool(q % 3 == 0), 'fsmix': bool(q % 5 == 0)}
    # --- Events: time-based range queries (get_range / get_latest) at rates where (k / fs) * fs != k occurs
    for c in _time_cases(tier, rng):
        yield c
    # --- input without a sampling rate; channel labels of 1-D annotated input (added last: the cases above keep their numbering)
    for c in _norate_label_cases(tier, rng):
        yield c


def _norate_label_cases(tier, rng):
    quick = tier == 'quick'
    i = 0
    nofs = lambda i: {'form': ('plain', 'plain2d')[i % 2], 'nofs': ('auto', 'none')[(i // 2) % 2]}
    empties = ([[], [0, 1, 1, 1], [], [1, 0, 0, 0]], [[], []], [[1]], [[], [1], [], [1], [1], [0]], [[0], [], [1, 1, 1, 1]])
    # (1) plain input, fs left at 'auto' or given as None: every clean stream x every chunking
    for m in (1, 2, 3):
        for n in range(0, (5 if quick else 8) + 1):
            for x in itertools.product([0, 1], repeat=n):
                for init in (0, 1):
                    if not clean(m, init, x):
                        continue
                    for ci, comp in enumerate(compositions(n)):
                        if quick and n == 5 and (ci + sum(x) + init) % 2:
                            continue                  # quick: every second chunking of the longest streams
                        i += 1
                        yield _edge_case(i, m, init, x, comp, **nofs(i))
    for m in (2, 3, 4):
        r = m + 1
        x = [0] * r + [1] * r + [0] * r + [1] * r
        for init in (0, 1):
            for edge in (r, 2 * r):
                near = [p for p in range(edge - m - 1, edge + m + 2) if 0 < p < len(x)]
                for k in (0, 1, 2, len(near)):
                    for cut in itertools.combinations(near, k):
                        pts = [0] + list(cut) + [len(x)]
                        i += 1
                        yield _edge_case(i, m, init, x, [b - a for a, b in zip(pts, pts[1:])], **nofs(i))
    for chunks in empties:
        for init in (0, 1):
            for _ in range(4):
                i += 1
                c = _edge_case(i, 1 + (i % 3), init, [], [], **nofs(i))
                c['chunks'] = chunks
                yield c
    for _ in range(150 if quick else 3000):                  # streams not meeting the precondition: model = code
        n = rng.randint(1, 8)
        x = [rng.randint(0, 1) for _ in range(n)]
        i += 1
        yield _edge_case(i, rng.randint(1, 4), rng.randint(0, 1), x, rng.choice(list(compositions(n))), **nofs(i))
    # Events without a rate built directly: seconds-based queries refuse, sample-based ones and merging work
    B = [[[1, 2], [0, 3], [1, 5], [1, 5], [0, 7], [1, 8], [0, 1]], 2, 8, NOFS]
    q = 0
    for a in range(B[1], B[2] + 1):
        for b in range(B[1], B[2] + 1):
            yield {'k': 'nofs', 'block': B, 'a': a, 'b': b}
    for Bn in (B, [[[1, -4], [0, -3], [1, -1], [0, 0], [1, 1]], -4, 2, NOFS], [[], 0, 5, NOFS]):
        for a in range(Bn[1] - 1, Bn[2] + 2):
            for b in range(Bn[1] - 1, Bn[2] + 2):
                q += 1
                yield {'k': 'range', 'block': Bn, 'a': a, 'b': b, 'ctor': CTORS[q % 4], 'bk': BKINDS[(q // 4) % 3]}
                if b <= a + 1:
                    yield {'k': 'latest', 'block': Bn, 'lb': a - Bn[2], 'ub': (None if b == Bn[2] else b - Bn[2]),
                           'ctor': CTORS[(q + 1) % 4], 'bk': BKINDS[(q // 2) % 3]}
    n1 = [[[1, 3], [0, 5]], 0, 5, NOFS]
    n2 = [[[0, 6], [1, 9]], 5, 9, NOFS]
    for bl in ([n1], [n1, n2], [n1, [[], 5, 5, NOFS], n2], [n1, [[[0, 6]], 5, 9, 1000]], [[[[1, 3]], 0, 5, 1000], n2],
               [n1, [[[0, 6]], 6, 9, NOFS]]):
        for seq in ('list', 'tuple'):
            yield {'k': 'combine', 'blocks': bl, 'seq': seq, 'ctor': CTORS[q % 4]}
    # (2) annotated input: channel labels of 1-D data (None is the constructor default), channel None on (1,n) data
    for chan, form in (('none', 'pd1d'), ('left', 'pd1d'), ('int3', 'pd1d'), ('tuple', 'pd1d'), ('none', 'pd')):
        for m in (1, 2):
            for n in range(0, (4 if quick and form == 'pd1d' else 3 if quick else 7) + 1):
                for x in itertools.product([0, 1], repeat=n):
                    for init in (0, 1):
                        if not clean(m, init, x):
                            continue
                        for comp in compositions(n):
                            i += 1
                            yield _edge_case(i, m, init, x, comp, form=form, chan=chan)
        for chunks in empties:
            i += 1
            c = _edge_case(i, 1 + (i % 3), i % 2, [], [], form=form, chan=chan)
            c['chunks'] = chunks
            yield c
        for _ in range(25 if quick else 500):
            n = rng.randint(1, 8)
            x = [rng.randint(0, 1) for _ in range(n)]
            i += 1
            yield _edge_case(i, rng.randint(1, 4), rng.randint(0, 1), x, rng.choice(list(compositions(n))), form=form, chan=chan)


def _rand_comp(rng, n, empties):
    comp, left = [], n
    while left > 0:
        if empties and rng.random() < 0.1:
            comp.append(0)
            continue
        k = min(left, rng.choice([1, 1, 2, 3, 5, 8, 13, 40]))
        comp.append(k)
        left -= k
    if empties and rng.random() < 0.2:
        comp.append(0)
    return comp


def _rand_block(rng, start, ln, fs):
    ev = []
    for _ in range(rng.randint(0, 6)):
        ev.append([rng.randint(0, 1), rng.randint(start - 2, start + ln + 2)])
    if rng.random() < 0.7:
        ev.sort(key=lambda e: e[1])
    return [ev, start, start + ln, fs]


# ----------------------------------------------------------------------------
def _canon_events(E, fs2=False):
    """Events object -> [[(code, sample)...], start, end, fs], ts_ok
    (fs2: the rate is reported as the integer 2*fs, for rates such as 195312.5)"""
    names = list(E.events['event'])
    samples = [int(s) for s in E.events['sample']]
    ts = [float(t) for t in E.events['ts']]
    fs = E.fs
    if fs is None:                                        # no rate: label NOFS, the ts column must be NaN
        ok = all(n in KINDS for n in names) and len(ts) == len(samples) and all(t != t for t in ts) and \
            all(float(s) == int(s) for s in E.events['sample'])
        return [[[KINDS.get(n, -1), s] for n, s in zip(names, samples)], int(E.start), int(E.end), NOFS], ok
    fkey = fs * 2 if fs2 else fs
    ok = all(n in KINDS for n in names) and len(ts) == len(samples) and \
        all(t == s / fs for s, t in zip(samples, ts)) and float(fkey) == int(fkey) and \
        all(float(s) == int(s) for s in E.events['sample'])
    return [[[KINDS.get(n, -1), s] for n, s in zip(names, samples)], int(E.start), int(E.end), int(fkey)], ok


CTORS = ['tuples', 'lists', 'df', 'df_ts']        # what the Events constructor is given
BKINDS = ['int', 'np64', 'float']                  # type of the query bounds


def _mk_events(B, fs2=False, ctor='tuples', fs=None):
    """-> Events, and whether a DataFrame handed to the constructor was left untouched"""
    import pandas as pd
    P = _P()
    inv = {1: 'rising', 0: 'falling'}
    rows = [(inv[k], s) for k, s in B[0]]
    if fs is None and B[3] != NOFS:                       # B[3] == NOFS: an Events object without a rate
        fs = B[3] / 2.0 if fs2 else float(B[3])
    intact = True
    if ctor == 'lists':
        arg = [list(r) for r in rows]
    elif ctor in ('df', 'df_ts') and rows:
        arg = pd.DataFrame({'event': [r[0] for r in rows], 'sample': [r[1] for r in rows]},
                           index=list(range(len(rows) + 3, 3, -1)))
        if ctor == 'df_ts':
            arg['ts'] = -1.0                                 # a stale column: must be recomputed
        before = arg.copy()
    else:
        arg = rows
    E = P.Events(arg, B[1], B[2], fs)
    if ctor in ('df', 'df_ts') and rows:
        intact = list(arg.columns) == list(before.columns) and arg.equals(before)
    elif ctor == 'lists':
        intact = arg == [list(r) for r in rows]
    return E, intact


def _bound(v, kind):
    return {'int': int(v), 'np64': np.int64(v), 'float': float(v)}[kind]


def _props(E, P):
    """range_samples, t0, rate(), str of one Events object"""
    n, start, end, fs = len(E.events), E.start, E.end, E.fs
    why = []
    if E.range_samples != end - start:
        why.append(f'range_samples {E.range_samples} != {end - start}')
    if fs is not None and E.t0 != start / fs:
        why.append(f't0 {E.t0} != {start / fs}')
    if fs is not None and end != start and E.rate() != n / (end - start) * fs:
        why.append(f'rate {E.rate()} != {n / (end - start) * fs}')
    if f'n={n} between {start} and {end}' not in str(E) or str(E) not in repr(E):
        why.append(f'str {str(E)!r}')
    return why


def _scribble(R):
    """what a caller may do to an answer it received"""
    R.events['sample'] = R.events['sample'] + 1000
    R.events['event'] = 'x'
    R.events.drop(R.events.index, inplace=True)
    R.start -= 5
    R.end += 5
    R.fs = 1.0


# ---- time-based queries (Events.get_range / get_latest): bounds are k / fs
TIME_RATES2 = [50000, 88200, 200000, 390625]          # 2 * fs for fs = 25000, 44100, 100000, 195312.5


def quirky(fs, lo, hi):
    """k in [lo, hi) whose float product (k / fs) * fs is not k (these tell round() from truncation)"""
    return [k for k in range(lo, hi) if k != 0 and (k / fs) * fs != k]


def _eff(t, fs):
    """the sample number the code derives from a time: its own expression int(np.round(t * fs))"""
    return int(np.round(t * fs))


def _time_cases(tier, rng):
    quick = tier == 'quick'
    for fs2 in TIME_RATES2:
        fs = fs2 / 2.0
        qs = quirky(fs, 1, 6000)
        below = [k for k in qs if (k / fs) * fs < k]
        picks = (below[:2] + qs[:1] + [rng.choice(qs)]) if qs else []
        if not quick:
            picks += [rng.choice(qs) for _ in range(12)] + below[2:8]
        picks += [rng.randint(10, 5000)]                       # an ordinary k as well
        qn = quirky(fs, -3000, -1)
        picks += [k for k in qn if (k / fs) * fs > k][-1:] + qn[-1:]      # negative sample numbers (blocks of edges start at -m)
        for k0 in picks:
            evs = [[1, k0 - 2], [0, k0 - 1], [1, k0], [0, k0 + 1], [1, k0 + 3]]
            around = [k0 - 3, k0 - 1, k0, k0 + 1, k0 + 4]
            # a block around k0; a block starting at k0; a block ending at k0
            for B in ([evs, k0 - 3, k0 + 4, fs2], [evs[2:], k0, k0 + 4, fs2], [evs[:2], k0 - 3, k0, fs2]):
                ks = sorted(set([B[1], B[2]] + [k for k in around if B[1] - 1 <= k <= B[2] + 1]))
                for ka in ks:
                    for kb in ks:
                        if ka <= kb:
                            yield {'k': 'trange', 'blocks': [B], 'ka': ka, 'kb': kb}
            # merged blocks meeting at k0
            B1 = [evs[:2], k0 - 3, k0, fs2]
            B2 = [evs[2:], k0, k0 + 4, fs2]
            B3 = [[[0, k0 + 4], [1, k0 + 6]], k0 + 4, k0 + 7, fs2]
            for bl in ([B1, B2], [B1, B2, B3]):
                for ka, kb in ((k0, bl[-1][2]), (k0 - 3, k0), (k0 - 3, bl[-1][2]), (k0, k0 + 1), (k0 - 1, k0 + 1),
                               (k0 + 1, k0 + 4), (k0, k0), (k0 - 4, k0), (k0, bl[-1][2] + 1)):
                    yield {'k': 'trange', 'blocks': bl, 'ka': ka, 'kb': kb}
        # off-grid times: (k + d) / fs, ties included (fs = 1024 makes them exact)
        for fso in (fs2, 2048):
            k0 = picks[0] if fso == fs2 else 40
            B = [[[1, k0 - 1], [0, k0], [1, k0 + 1], [0, k0 + 2]], k0 - 2, k0 + 4, fso]
            for da in (0.0, 0.25, 0.49, 0.5, 0.51, 0.75):
                for ka, kb, db in ((k0, k0 + 2, 0.0), (k0 - 1, k0 + 1, da), (k0 - 2, k0 + 3, 0.5), (k0 + 1, k0 + 1, 1.0 - da)):
                    yield {'k': 'trange', 'blocks': [B], 'ka': ka, 'kb': kb, 'da': da, 'db': db}
        # get_latest: offsets relative to the end of the block, quirky negative offsets included
        qneg = quirky(fs, -400, 0)
        offs = sorted(set([-6, -5, -3, -2, -1, 0] + qneg[-3:] + ([rng.choice(qneg)] if qneg else [])))
        for end in ([500, (quirky(fs, 400, 6000) or [777])[0]]):
            lo = end + min(offs) - 1
            evs = [[rng.randint(0, 1), end + o + d] for o in offs for d in (-1, 0) if lo <= end + o + d < end]
            evs.sort(key=lambda e: e[1])
            B = [evs, lo, end, fs2]
            for ja in offs + [min(offs) - 2]:
                for jb in (None, 0, -1, offs[len(offs) // 2], 1):
                    yield {'k': 'tlatest', 'blocks': [B], 'ja': ja, 'jb': jb}


def _array(bits, dtype, rng_i):
    """the chunk as the caller would hold it: any non-zero value is a logical high"""
    b = np.array(bits, dtype=int)
    if dtype == 'bool':
        return b.astype(bool)
    if dtype == 'int':
        return b * (1 + rng_i % 3)
    if dtype == 'uint8':
        return (b * [255, 2, 1][rng_i % 3]).astype(np.uint8)
    if dtype == 'int8':
        return (b * -1).astype(np.int8)
    if dtype == 'floatodd':
        hi = [np.nan, 1e-300, -3.0, np.inf, 5e-324]
        lo = [0.0, -0.0]
        return np.array([hi[(rng_i + k) % 5] if v else lo[(rng_i + k) % 2] for k, v in enumerate(bits)], dtype=float)
    return b.astype(float) * (-2.5 if rng_i % 2 else 0.125)


def _init_value(case):
    kind = (HIGHS if case['init'] else LOWS)[case.get('ik', 0) % (6 if case['init'] else 5)]
    if kind == 'npbool':
        return np.bool_(bool(case['init']))
    if kind == 'npu8':
        return np.uint8(0)
    return {'False': False, '0': 0, '0.0': 0.0, 'True': True, '1': 1, '2': 2, '1.5': 1.5, '-1': -1}[kind]


def _chunks_for_model(case):
    """[(annotation for the model or None, bits, real fs)] exactly as the chunks are handed to the coroutine"""
    out = []
    s0 = case['first']
    g = case.get('glitch') or {}
    pd = case['form'].startswith('pd')
    fs = case['fs']
    for j, bits in enumerate(case['chunks']):
        ann = [s0, fskey(fs)] if pd else None
        real = float(fs)
        if g.get('idx') == j:
            if g['kind'] == 's0':
                ann = [s0 + 1, fskey(fs)]
            elif g['kind'] == 'fs':
                ann = [s0, fskey(fs + 1)]
                real = float(fs + 1)
            elif g['kind'] == 'fs_ulp':                      # a rate that differs in the last bit only
                ann = [s0, fskey(fs) + 1]
                real = float(np.nextafter(float(fs), 1e9))
            elif g['kind'] == 'plain':
                ann = None
            elif g['kind'] == 'pd':
                ann = [s0, fskey(fs)]
        out.append([ann, bits, real])
        s0 += len(bits)
    return out


def impl(case):
    warnings.simplefilter('ignore')
    P = _P()
    if case['k'] == 'ndim':
        got = []
        try:
            co = P.edges(2, got.append, fs=1000.0)
            co.send(np.zeros(case['shape']))
            return {'raised_value_error': False, 'n': len(got)}
        except ValueError:
            return {'raised_value_error': True, 'n': len(got)}
    if case['k'] == 'nofs':
        B = case.get('block') or [[], 0, 5, NOFS]
        inv = {1: 'rising', 0: 'falling'}
        E = P.Events([(inv[k], s) for k, s in B[0]], B[1], B[2], None)
        out = {}
        for name, call in (('get_range', lambda: E.get_range(0.0, 0.001)), ('get_latest', lambda: E.get_latest(-0.001)),
                           ('get_range_0', lambda: E.get_range(0.0, 0.0)), ('get_latest_0', lambda: E.get_latest(0.0))):
            try:
                call()
                out[name] = 'returned'
            except ValueError:
                out[name] = 'ValueError'
        a, b = (1, 3) if 'block' not in case else (case['a'], case['b'])
        R = E.get_range_samples(a, b)
        out['samples'] = [len(R.events), R.start, R.end, R.fs]
        out['block'], out['ts_ok'] = _canon_events(R)
        out['whole'], ok = _canon_events(E)
        out['ts_ok'] = out['ts_ok'] and ok
        return out
    if case['k'] == 'edges':
        got = []
        pd = case['form'].startswith('pd')
        kw = {'initial_state': _init_value(case), 'detect': case['detect']}
        if pd:
            kw['fs'] = 'auto' if case['m'] % 2 else 7.0      # ignored for annotated input
        elif case.get('nofs'):
            if case['nofs'] == 'none':                        # 'auto': the argument is left at its default
                kw['fs'] = None
        else:
            fsk = case.get('fsk', 'float')
            fs = case['fs']
            kw['fs'] = float(fs) if (fsk == 'float' or fs != int(fs)) else (int(fs) if fsk == 'int' else np.float64(fs))
        m = case['m']
        m = {'int': m, 'np64': np.int64(m), 'np32': np.int32(m)}[case.get('mk', 'int')]
        tgt = case.get('tgt', 'append')
        if tgt == 'send':
            @P.coroutine
            def sink():
                while True:
                    got.append((yield))
            target = sink().send
        elif tgt == 'func':
            target = lambda ev: got.append(ev)
        else:
            target = got.append
        res = {'ok': True, 'err': None, 'input_intact': True}
        bufmode = case.get('buf', 'fresh')
        buf = None
        try:
            co = P.edges(m, target, **kw)
            for j, (ann, bits, real_fs) in enumerate(_chunks_for_model(case)):
                a = _array(bits, case['dtype'], j)
                if bufmode == 'reuse':
                    if buf is None or buf.dtype != a.dtype or len(buf) < len(a):
                        buf = np.zeros(max(len(a), 16), dtype=a.dtype)
                    buf[:len(a)] = a
                    a = buf[:len(a)]
                elif bufmode == 'readonly':
                    a.setflags(write=False)
                keep = a.copy()
                two_d = case['form'] in ('pd', 'plain2d') or (ann is not None and not pd)
                x = a[np.newaxis, :] if two_d else a
                if ann is not None:
                    s0 = ann[0] if case.get('s0k', 'int') == 'int' else np.int64(ann[0])
                    label = CHANS[case.get('chan')]
                    if two_d:
                        channel = ['ch'] if case.get('chan') is None else (None if label is None else [label])
                    else:
                        channel = label
                    if channel is None:
                        x = P.PipelineData(x, fs=real_fs, s0=s0, metadata={'tag': 1})     # the constructor's default
                    else:
                        x = P.PipelineData(x, fs=real_fs, s0=s0, channel=channel, metadata={'tag': 1})
                co.send(x)
                if not np.array_equal(a, keep, equal_nan=(a.dtype.kind == 'f')):
                    res['input_intact'] = False
                if bufmode == 'reuse':
                    buf[:] = (buf == 0)                      # the caller overwrites its buffer
        except ValueError as e:
            res['ok'] = False
            res['err'] = str(e)[:120]
        blocks, ts_ok = [], True
        for E in got:
            b, ok = _canon_events(E, fs2=True)
            blocks.append(b)
            ts_ok = ts_ok and ok and isinstance(E, P.Events)
        res['blocks'] = blocks
        res['ts_ok'] = ts_ok
        res['combined'] = None
        res['combine_err'] = None
        if got:
            try:
                cb, ok = _canon_events(P.combine_events(got), fs2=True)
                res['combined'] = cb
                res['ts_ok'] = res['ts_ok'] and ok
            except ValueError as e:
                res['combine_err'] = str(e)[:120]
        return res
    if case['k'] in ('range', 'latest'):
        E, intact = _mk_events(case['block'], ctor=case.get('ctor', 'tuples'))
        bk = case.get('bk', 'int')
        orig, ok0 = _canon_events(E)

        def call():
            if case['k'] == 'range':
                return E.get_range_samples(_bound(case['a'], bk), _bound(case['b'], bk))
            if case['ub'] is None:
                return E.get_latest_samples(_bound(case['lb'], bk))
            return E.get_latest_samples(_bound(case['lb'], bk), _bound(case['ub'], bk))
        out = {'alias_ok': intact, 'alias_why': None if intact else 'the constructor changed the data it was given',
               'props_ok': True}
        why = _props(E, P)
        try:
            R = call()
        except ValueError as e:
            out.update(block=None, ts_ok=ok0, err=str(e)[:80])
            R = None
        if R is not None:
            b, ok = _canon_events(R)
            why += _props(R, P)
            out.update(block=b, ts_ok=ok and ok0)
            _scribble(R)                                    # the caller writes into the answer ...
            b2, _ = _canon_events(call())                    # ... and asks again
            now, _ = _canon_events(E)
            if b2 != b or now != orig or R is E:
                out.update(alias_ok=False, alias_why=f'after the caller changed the answer: block {now} (was {orig}), '
                                                     f'same query gives {b2} (was {b})')
        if why:
            out.update(props_ok=False, props_why='; '.join(why))
        return out
    if case['k'] in ('trange', 'tlatest'):
        bl = [_mk_events(B, fs2=True)[0] for B in case['blocks']]
        fs = bl[0].fs
        E = bl[0] if len(bl) == 1 else P.combine_events(bl)
        merged, mok = _canon_events(E, fs2=True)
        if case['k'] == 'trange':
            ta, tb = (case['ka'] + case.get('da', 0.0)) / fs, (case['kb'] + case.get('db', 0.0)) / fs
            eff = [_eff(ta, fs), _eff(tb, fs)]
            call = lambda: E.get_range(ta, tb)
        else:
            ta = case['ja'] / fs
            tb = None if case['jb'] is None else case['jb'] / fs
            eff = [_eff(ta, fs), 0 if tb is None else _eff(tb, fs)]
            call = (lambda: E.get_latest(ta)) if tb is None else (lambda: E.get_latest(ta, tb))
        try:
            R = call()
        except ValueError as e:
            return {'block': None, 'ts_ok': mok, 'err': str(e)[:80], 'merged': merged, 'eff': eff}
        b, ok = _canon_events(R, fs2=True)
        return {'block': b, 'ts_ok': ok and mok, 'merged': merged, 'eff': eff}
    if case['k'] == 'combine':
        tiny = float(np.nextafter(1000.0, 2000.0))
        bl, intact = [], True
        for j, B in enumerate(case['blocks']):
            fs = None
            if case.get('tiny') and B[3] == 25:
                fs = tiny                                    # model key 25 stands for a rate one ulp above 1000.0
            elif case.get('fsmix') and B[3] == 1000 and j % 2 == 0:
                fs = 1000                                    # an int-typed rate equal to 1000.0
            E, ok = _mk_events(B, ctor=case.get('ctor', 'tuples'), fs=fs)
            bl.append(E)
            intact = intact and ok
        origs = [_canon_events(E)[0] if (E.fs is None or float(E.fs) == int(E.fs)) else None for E in bl]
        seq = tuple(bl) if case.get('seq') == 'tuple' else bl
        out = {'alias_ok': intact, 'alias_why': None if intact else 'the constructor changed the data it was given',
               'props_ok': True}
        try:
            R = P.combine_events(seq)
        except IndexError:
            out.update(code=1, block=None, ts_ok=True)
            return out
        except ValueError as e:
            code = 2 if 'not aligned' in str(e) else (3 if 'sampling rates' in str(e) else 9)
            out.update(code=code, block=None, ts_ok=True)
            return out
        b, ok = _canon_events(R)
        why = _props(R, P)
        out.update(code=0, block=b, ts_ok=ok)
        _scribble(R)
        b2, _ = _canon_events(P.combine_events(seq))
        now = [_canon_events(E)[0] if (E.fs is None or float(E.fs) == int(E.fs)) else None for E in bl]
        if b2 != b or now != origs or any(R is E for E in bl):
            out.update(alias_ok=False, alias_why=f'after the caller changed the merged block: inputs {now} (were {origs}), '
                                                 f'merging again gives {b2} (was {b})')
        if why:
            out.update(props_ok=False, props_why='; '.join(why))
        return out
    raise KeyError(case['k'])


# ----------------------------------------------------------------------------
def _blocklit(b):
    return f'({pairlist(b[0])}, ({zlit(b[1])}, ({zlit(b[2])}, {zlit(b[3])})))'


def _annlit(a):
    return 'None' if a is None else f'(Some ({zlit(a[0])}, {zlit(a[1])}))'


def term(case, res):
    if case['k'] == 'nofs' and 'block' in case:
        return f"check_range {_blocklit(case['block'])} {zlit(case['a'])} {zlit(case['b'])} (Some {_blocklit(res['block'])})"
    if case['k'] in ('ndim', 'nofs'):
        return 'true'                                     # judged by the oracle only (not modelled)
    if case['k'] == 'edges':
        chunks = listlit([f'({_annlit(a)}, {blist(b)})' for a, b, _ in _chunks_for_model(case)])
        fs_arg = (NOFS if case.get('nofs') else fskey(case['fs'])) if not case['form'].startswith('pd') else 0
        t = (f"check_edges {DETECT[case['detect']]} {zlit(case['m'])} {blit(case['init'])} {zlit(fs_arg)} {chunks} "
             f"{listlit([_blocklit(b) for b in res['blocks']])} {blit(res['ok'])}")
        if res['combined'] is not None:
            t = (f"({t}) && check_combine {listlit([_blocklit(b) for b in res['blocks']])} 0 "
                 f"(Some {_blocklit(res['combined'])})")
        elif res.get('combine_err'):
            code = 2 if 'not aligned' in res['combine_err'] else 3
            t = f"({t}) && check_combine {listlit([_blocklit(b) for b in res['blocks']])} {code} None"
        return t
    if case['k'] == 'range':
        return f"check_range {_blocklit(case['block'])} {zlit(case['a'])} {zlit(case['b'])} {optlit(res['block'], _blocklit)}"
    if case['k'] in ('trange', 'tlatest'):
        # the model side is the sample-based query at the bounds the code's own int(round(t * fs)) gives
        fn = 'check_range' if case['k'] == 'trange' else 'check_latest'
        t = f"{fn} {_blocklit(res['merged'])} {zlit(res['eff'][0])} {zlit(res['eff'][1])} {optlit(res['block'], _blocklit)}"
        if len(case['blocks']) > 1:
            t = (f"check_combine {listlit([_blocklit(b) for b in case['blocks']])} 0 (Some {_blocklit(res['merged'])})"
                 f" && {t}")
        return t
    if case['k'] == 'latest':
        ub = 0 if case['ub'] is None else case['ub']
        return f"check_latest {_blocklit(case['block'])} {zlit(case['lb'])} {zlit(ub)} {optlit(res['block'], _blocklit)}"
    return f"check_combine {listlit([_blocklit(b) for b in case['blocks']])} {res['code']} {optlit(res['block'], _blocklit)}"


def nontrivial(case, res):
    if not isinstance(res, dict) or 'raised' in res:      # the driver's record of an unexpected exception
        return False
    if case['k'] in ('ndim', 'nofs'):
        return True
    if case['k'] == 'edges':
        return any(b[0] for b in res['blocks'])
    return bool(res.get('block') and res['block'][0])


# ----------------------------------------------------------------------------
def oracle(case, res):
    """The property, judged on what the implementation returned."""
    if case['k'] == 'ndim':
        ok = res['raised_value_error'] and res['n'] == 0
        return None if ok else f'edges accepted {case["shape"]}-shaped input: {res}'
    if case['k'] == 'nofs':
        B = case.get('block') or [[], 0, 5, NOFS]
        a, b = (1, 3) if 'block' not in case else (case['a'], case['b'])
        want = [e for e in B[0] if a <= e[1] < b]
        if any(res[q] != 'ValueError' for q in ('get_range', 'get_latest', 'get_range_0', 'get_latest_0')) or \
                res['samples'] != [len(want), a, b, None] or res['block'] != [want, a, b, NOFS] or \
                res['whole'] != [B[0], B[1], B[2], NOFS]:
            return f'Events without a rate: seconds-based queries must raise ValueError, sample-based ones work: {res}'
        if not res['ts_ok']:
            return 'Events without a rate: the ts column must be NaN'
        return None
    if not res.get('ts_ok', True):
        return 'an Events object has a wrong ts column (ts != sample / fs), unknown event names or non-integer fields'
    if not res.get('input_intact', True):
        return 'edges modified the array the caller sent'
    if not res.get('alias_ok', True):
        return f"aliasing: {res.get('alias_why')}"
    if not res.get('props_ok', True):
        return f"Events properties: {res.get('props_why')}"
    if case['k'] == 'edges':
        if res.get('combine_err'):
            return f"the blocks emitted by edges cannot be merged: {res['combine_err']}"
        if case.get('glitch') or case['m'] < 1:
            return None                      # error paths: model = code only
        if not res['ok']:
            return f"edges raised {res['err']}"
        m, chunks = case['m'], case['chunks']
        first = case['first']
        x = [b for c in chunks for b in c]
        blocks = res['blocks']
        if len(blocks) != len(chunks):
            return f'{len(blocks)} blocks for {len(chunks)} chunks'
        pos = first - m
        for b, c in zip(blocks, chunks):
            if b[1] != pos or b[2] != pos + len(c):
                return f'blocks do not tile: block {b[1:3]}, expected {[pos, pos + len(c)]}'
            want_fs = NOFS if (case.get('nofs') and not case['form'].startswith('pd')) else fskey(case['fs'])
            if b[3] != want_fs:
                return f'block has 2*fs = {b[3]}, expected {want_fs} ({NOFS} stands for fs None)'
            pos += len(c)
        if blocks and res['combined'] is not None:
            cb = res['combined']
            if cb[0] != [e for b in blocks for e in b[0]] or cb[1] != blocks[0][1] or cb[2] != blocks[-1][2]:
                return f'combine_events lost, duplicated or reordered events / span: {cb}'
        if not clean(m, case['init'], x):
            return None
        want_codes = {'both': (0, 1), 'rising': (1,), 'falling': (0,), 'none': ()}[case['detect']]
        tr = [t for t in transitions(case['init'], first, x) if t[0] in want_codes]
        total = first + len(x)
        # a rising edge needs m samples of the new run (itself included) before it can be told from a glitch
        due = [t for t in tr if t[0] == 0 or t[1] + m <= total]
        got = [tuple(e) for b in blocks for e in b[0]]
        if got != due:
            return f'events {got} differ from the transitions of the stream {due} (kind 1 = rising, 0 = falling)'
        # latency: reported by the chunk that supplies the sample `debounce - 1` after it, at the latest
        consumed = first
        k = 0
        ends = []
        for c in chunks:
            consumed += len(c)
            ends.append(consumed)
        for bi, b in enumerate(blocks):
            for kcode, s in b[0]:
                need = s + m                  # input must reach (exclusive) this sample at most
                firstk = next((j for j, e in enumerate(ends) if e >= need), len(ends) - 1)
                if bi > firstk:
                    return f'event {(kcode, s)} reported by chunk {bi}, later than {m} samples of further input (chunk {firstk})'
        return None
    if case['k'] in ('trange', 'tlatest'):
        bl = case['blocks']
        ev = [e for B in bl for e in B[0]]
        start, end, fs2 = bl[0][1], bl[-1][2], bl[0][3]
        fs = fs2 / 2.0
        # the bounds are the times k / fs: the query is over the samples round(t * fs) = k
        if case['k'] == 'trange' and ('da' in case):
            # off-grid times: the sample is the nearest integer (ties to even, as round() does)
            a = round(((case['ka'] + case['da']) / fs) * fs)
            b = round(((case['kb'] + case['db']) / fs) * fs)
            want_ab = (a, b)
        elif case['k'] == 'trange':
            a, b = round((case['ka'] / fs) * fs), round((case['kb'] / fs) * fs)
            want_ab = (case['ka'], case['kb'])
        else:
            jb = 0 if case['jb'] is None else case['jb']
            a, b = round((case['ja'] / fs) * fs) + end, round((jb / fs) * fs) + end
            want_ab = (case['ja'] + end, jb + end)
        if (a, b) != want_ab:
            return f'harness: round((k/fs)*fs) != k for {want_ab} at fs={fs}'
        what = f"{'get_range' if case['k'] == 'trange' else 'get_latest'} at fs={fs} for samples [{a},{b})"
        if a < start or b > end:
            return None if res['block'] is None else f'{what} outside [{start},{end}) was accepted'
        if res['block'] is None:
            return f'{what} within [{start},{end}) was refused: {res.get("err")}'
        want = [[e for e in ev if a <= e[1] < b], a, b, fs2]
        if res['block'] != want:
            return f'{what} returned {res["block"]}, expected {want} (rate given as 2*fs)'
        return None
    if case['k'] in ('range', 'latest'):
        ev, start, end, fs = case['block']
        if case['k'] == 'range':
            a, b = case['a'], case['b']
        else:
            a, b = case['lb'] + end, (0 if case['ub'] is None else case['ub']) + end
        if a < start or b > end:
            return None if res['block'] is None else f'range [{a},{b}) outside [{start},{end}) was accepted'
        if res['block'] is None:
            return f'valid range [{a},{b}) within [{start},{end}) was refused'
        want = [e for e in ev if a <= e[1] < b]
        if res['block'] != [want, a, b, fs]:
            return f'range query [{a},{b}) returned {res["block"]}, expected {[want, a, b, fs]}'
        return None
    bl = case['blocks']
    if not bl:
        return None if res['code'] == 1 else 'combine_events([]) did not raise IndexError'
    aligned = all(p[2] == q[1] for p, q in zip(bl, bl[1:]))
    same_fs = all(p[3] == bl[0][3] for p in bl)
    if not (aligned and same_fs):
        return None if res['code'] in (2, 3) else 'misaligned / mixed-rate blocks were merged'
    want = [[e for b in bl for e in b[0]], bl[0][1], bl[-1][2], bl[0][3]]
    if res['code'] != 0 or res['block'] != want:
        return f'combine_events returned {res}, expected {want}'
    return None


def distribution(cases, results):
    d = {}
    for c, r in zip(cases, results):
        k = c['k']
        e = d.setdefault(k, {'n': 0})
        e['n'] += 1
        if 'raised' in r:
            e['unexpected_exceptions'] = e.get('unexpected_exceptions', 0) + 1
            continue
        if k == 'edges':
            x = [b for ch in c['chunks'] for b in ch]
            cl = c['m'] >= 1 and clean(c['m'], c['init'], x)
            e['clean'] = e.get('clean', 0) + int(cl)
            e['max_len'] = max(e.get('max_len', 0), len(x))
            e['max_chunks'] = max(e.get('max_chunks', 0), len(c['chunks']))
            e['events'] = e.get('events', 0) + sum(len(b[0]) for b in r['blocks'])
            e.setdefault('forms', {})
            e['forms'][c['form']] = e['forms'].get(c['form'], 0) + 1
            e.setdefault('detect', {})
            e['detect'][c['detect']] = e['detect'].get(c['detect'], 0) + 1
            e['errors'] = e.get('errors', 0) + int(not r['ok'])
            for fld in ('dtype', 'mk', 'fsk', 'tgt', 'buf', 's0k', 'fs', 'first', 'nofs', 'chan'):
                dd = e.setdefault(fld, {})
                key = str(c.get(fld))
                dd[key] = dd.get(key, 0) + 1
            e['empty_chunks'] = e.get('empty_chunks', 0) + sum(1 for ch in c['chunks'] if not ch)
        elif k in ('ndim', 'nofs'):
            pass
        else:
            e['refused'] = e.get('refused', 0) + int(r.get('block') is None)
            for fld in ('ctor', 'bk', 'seq'):
                if fld in c:
                    dd = e.setdefault(fld, {})
                    dd[c[fld]] = dd.get(c[fld], 0) + 1
    return d


# ====================================================================================================================
# translator tie (added; nothing above depends on it): the coroutine `edges` and Events.get_range_samples /
# get_latest_samples are regenerated from the source under test on every run (translate/pyedges2coq.py ->
# coq/gen/EdgesGen.v, in the vocabulary of coq/Edges/TiePrims.v; the calls util.epochs / util.debounce_epochs are the
# definitions of coq/gen/RunsGen.v, regenerated here as well through the hook of harness/C18.py).  coq/Edges/ProofsTie.v
# proves the generated definitions equal to coq/Edges/Model.v (C13_source_* in coq/Props/C13.v).  A source the
# translator cannot digest, a failing self-test against the real coroutine or a tie theorem that no longer checks is
# reported by the driver as a broken tie.
GEN = 'gen/EdgesGen.v'
TRUSTED = TRUSTED + [
    'translate/pyedges2coq.py (fail-closed ast translator, coroutine -> step function: S0; x = (yield).astype(bool); S1; while True: S; '
    'x = (yield).astype(bool)  becomes  gen_edges_setup (S0) / gen_edges_start (S1) / gen_edges_step (S, one send; target(..) = the '
    'output, exactly one per path); `if isinstance(x, PipelineData)` = match on the annotation, x.s0 / x.fs readable only where x is known '
    'to be annotated; `for lb, ub in epochs` = fold_left of a generated body; events.append = py_append; string literals '
    "'rising'/'falling'/'both' = constructors.  Pinned and dropped (exact text): the channel-label statements of the set-up, "
    "`if fs == 'auto': fs = None` (the rate is an opaque label; 'auto' and None are one label), the ndim block (1-D / (1, n) / "
    'ValueError: the model has 1-D chunks).  Pinned as text: the signatures and defaults of the three targets, the @coroutine decorator, '
    'Events.__init__ (start / end / fs / events fields), the keyword arguments channel= / metadata= of the PipelineData(..) call.  '
    'Pinned by sha256 of their docstring-free text, because primitives stand for them: pipeline.concat (pd_concat), '
    'PipelineData.__new__ (pd_new), PipelineData.__getitem__ (pd_from).  Self-test on every run: the emitted definitions are evaluated '
    'by coqc (vm_compute) against the real coroutine send by send - block handed to the target, prior_samples / s0 / fs of the suspended '
    'generator frame, ValueError - on ~60 random schedules (plain / (1,n) / PipelineData / no rate, misaligned, different-rate and mixed '
    'chunks, empty chunks) and against the real Events methods on 180 queries)',
    'the primitives of coq/Edges/TiePrims.v as modelled (exercised by that self-test, not proved): np_tile_bool, arr_len, pd_new, pd_concat, '
    'pd_from (PipelineData slicing moves s0), detect_eqb / str_in, mk_events, df_sample, np_lt_s, np_and; and those of '
    'coq/Runs/NumpyPrims.v (see harness/C18.py)',
    'coq/Edges/ProofsTie.v: rep (a model state read as the locals prior_samples, s0, fs: the carried samples are annotated with the local '
    's0 and fs exactly when the input is annotated); source_run_edges (set-up, first chunk, one generated step per send, an exception '
    'ends the coroutine) as the reading of "the chunks are sent to edges(..)"']
ASSUMPTIONS = ASSUMPTIONS + [
    'translator tie: the step equality needs wf_tie (annotated carried samples are exactly m >= 1 long; established by the first chunk, '
    'kept by every step, refuted without: C13_source_step_refuted) and fuel above the length of the joined array (the while loops of '
    'util.smooth_epochs are Fixpoints on fuel; C13_source_step_fuel_refuted); combine_events and the seconds-based queries get_range / '
    'get_latest are not translated (differential testing only)']


def translate(repo):
    """Regenerate coq/gen/RunsGen.v (hook of harness/C18.py) and coq/gen/EdgesGen.v from the source under test and self-test
    them.  A translator gap or a failed self-test is written as a generated file that does not compile, so that the driver
    reports the tie as broken (fail closed)."""
    import importlib
    import os
    import random
    import vlib
    from translate import pyedges2coq
    info = {'gen_files': [GEN, 'gen/RunsGen.v'], 'source': [os.path.join(repo, 'psiaudio/pipeline.py'), os.path.join(repo, 'psiaudio/util.py')],
            'gap': None}
    head = ('(* GENERATED on every run by harness/C13.py translate() with translate/pyedges2coq.py from\n'
            f'   {repo}/psiaudio/pipeline.py - do not edit.  Vocabulary: coq/Edges/TiePrims.v, coq/Runs/NumpyPrims.v.  '
            'Tie theorems: coq/Edges/ProofsTie.v. *)\n')
    path = os.path.join(vlib.COQ, GEN)

    def broken(why):
        info['gap'] = why
        msg = ''.join(ch if ch.isalnum() or ch in " _.,:;()[]{}=+-*/<>'`" else ' ' for ch in why)
        msg = msg.replace('(*', '( *').replace('*)', '* )')[:400]
        with open(path, 'w') as f:              # deliberately ill-typed: whoever builds it sees the reason
            f.write(head + 'From Coq Require Import ZArith String.\n' + f'Definition translator_gap : Z :=\n  "{msg}"%string.\n')
        rc, out = vlib.coq_build('Edges/ProofsX2.vo')      # the correspondence files only need the hand-written model
        if rc != 0:
            raise vlib.MachineryError('Edges/ProofsX2.v does not build:\n' + out[-3000:])
        return info
    try:
        info['runs'] = importlib.import_module('harness.C18').translate(repo)       # gen/RunsGen.v of the same tree
        text, tinfo = pyedges2coq.translate(repo)
        info.update(tinfo)
    except vlib.MachineryError:
        raise
    except Exception as e:
        return broken(f'{type(e).__name__}: {e}')
    with open(path, 'w') as f:                  # always rewritten: always re-checked
        f.write(head + text)
    rc, out = vlib.coq_build('gen/EdgesGen.vo')
    if rc != 0:
        return broken('the generated file does not type-check: ' + out[-600:])
    P = _P()
    if os.path.realpath(P.__file__) != os.path.realpath(os.path.join(repo, 'psiaudio', 'pipeline.py')):
        raise vlib.MachineryError(f'psiaudio.pipeline is {P.__file__}, not the translated source under {repo}')
    try:
        with warnings.catch_warnings():
            warnings.simplefilter('ignore')
            terms = pyedges2coq.selftest_terms(P, random.Random(7))
    except Exception as e:                      # the real coroutine misbehaving under the self-test
        return broken(f'self-test: {type(e).__name__}: {e}')
    try:
        failing = vlib.run_cases(PROP, ['gen.EdgesGen', 'Edges.TiePrims'], terms, tag='tieself')
    except vlib.MachineryError as e:
        return broken('self-test could not be evaluated: ' + str(e)[-600:])
    if failing:
        return broken(f'self-test: the generated definitions disagree with the real code on {len(failing)} of {len(terms)} '
                      f'evaluations, first: {terms[failing[0]]}')
    info.update(primitives=pyedges2coq.PRIMITIVES, selftest={'evaluations': len(terms), 'failing': 0})
    return info


# ====================================================================================================================
# translator tie, second part (added; wraps the hook above): pipeline.combine_events is regenerated as well
# (translate/pycombine2coq.py -> coq/gen/EdgesCombineGen.v, vocabulary coq/Edges/TiePrimsCombine.v);
# coq/Edges/ProofsTieCombine.v proves the generated definition equal to Edges/Model.combine_events for every list of
# blocks (C13_source_combine* in coq/Props/C13.v).
GEN_COMBINE = 'gen/EdgesCombineGen.v'
TRUSTED = TRUSTED + [
    'translate/pycombine2coq.py (fail-closed ast translator of pipeline.combine_events -> gen_combine_events : events + exn: '
    'l[0] / l[-1] = py_item (IndexError), l[1:] = py_slice, `for ed in events[1:]` = fold_res of a generated body that may raise, '
    'b.start / .end / .fs / .events = fields (pinned text of Events.__init__); pinned as text: the signature, the two raise statements '
    '(-> EAlign, EFs), `pd.concat(ed.events for ed in <list>)` = the event tables joined in order (df_concat).  Self-test on every run: '
    'the emitted definition evaluated by coqc against the real function on 80 lists / tuples of 0..4 blocks (aligned, misaligned, mixed '
    'rates, no rate): merged block or exception class / message)',
    'the primitives of coq/Edges/TiePrimsCombine.v as modelled (exercised by that self-test, not proved): rbind, py_item, fold_res, '
    'df_concat, to_combined']
ASSUMPTIONS = ASSUMPTIONS + ['translator tie, second part: combine_events IS translated and tied for every list of blocks (this supersedes the remark above); only the seconds-based queries get_range / get_latest remain tied by differential testing alone']
_translate_edges = translate


def translate(repo):
    """The hook above (RunsGen.v, EdgesGen.v), then coq/gen/EdgesCombineGen.v; same fail-closed convention."""
    import os
    import random
    import vlib
    from translate import pycombine2coq
    info = _translate_edges(repo)
    info['gen_files'] = info.get('gen_files', []) + [GEN_COMBINE]
    head = ('(* GENERATED on every run by harness/C13.py translate() with translate/pycombine2coq.py from\n'
            f'   {repo}/psiaudio/pipeline.py - do not edit.  Vocabulary: coq/Edges/TiePrimsCombine.v.  '
            'Tie theorems: coq/Edges/ProofsTieCombine.v. *)\n')
    path = os.path.join(vlib.COQ, GEN_COMBINE)

    def broken(why):
        info['gap'] = (info.get('gap') + ' / ' if info.get('gap') else '') + 'combine_events: ' + why
        msg = ''.join(ch if ch.isalnum() or ch in " _.,:;()[]{}=+-*/<>'`" else ' ' for ch in why)
        msg = msg.replace('(*', '( *').replace('*)', '* )')[:400]
        with open(path, 'w') as f:              # deliberately ill-typed: whoever builds it sees the reason
            f.write(head + 'From Coq Require Import ZArith String.\n' + f'Definition translator_gap : Z :=\n  "{msg}"%string.\n')
        return info
    try:
        text, tinfo = pycombine2coq.translate(repo)
    except Exception as e:
        return broken(f'{type(e).__name__}: {e}')
    with open(path, 'w') as f:                  # always rewritten: always re-checked
        f.write(head + text)
    info['combine'] = tinfo
    if info.get('gap'):
        return info                             # the first part is broken already (TiePrims may not even build)
    rc, out = vlib.coq_build('gen/EdgesCombineGen.vo')
    if rc != 0:
        return broken('the generated file does not type-check: ' + out[-600:])
    try:
        with warnings.catch_warnings():
            warnings.simplefilter('ignore')
            terms = pycombine2coq.selftest_terms(_P(), random.Random(11))
        failing = vlib.run_cases(PROP, ['gen.EdgesCombineGen', 'Edges.TiePrimsCombine'], terms, tag='tieselfc')
    except vlib.MachineryError as e:
        return broken('self-test could not be evaluated: ' + str(e)[-600:])
    except Exception as e:
        return broken(f'self-test: {type(e).__name__}: {e}')
    if failing:
        return broken(f'self-test: the generated definition disagrees with the real function on {len(failing)} of {len(terms)} '
                      f'evaluations, first: {terms[failing[0]]}')
    info['combine'].update(primitives=pycombine2coq.PRIMITIVES, selftest={'evaluations': len(terms), 'failing': 0})
    return info
