"""C17 - reject_epochs forwards exactly the epochs under threshold, metadata aligned.
Model: coq/Reject/Model.v (on top of coq/PData/Model.v); theorems: coq/Props/C17.v."""
import itertools
from fractions import Fraction

import numpy as np
from vlib import zlit, zlist, blist, listlit

PROP = 'C17'
REQUIRES = ['PData.Model', 'Reject.Model']
RULE = ('sequences of 1-4 batches sent to one reject_epochs coroutine; per epoch the criterion value is placed at th-1, th, th+1 '
        '(every pattern over up to 4 epochs for both criteria, by peak sign and by position of the extreme samples), far values and '
        'random integer-valued samples; thresholds constant or a callable returning a new value per batch (incl. 0 and negative); '
        'plain ndarray and PipelineData batches (distinct metadata ids per epoch, s0, fs, channel label), empty batches, all-accepted '
        'and all-rejected batches; malformed input: 1-D/2-D/4-D plain, multichannel, un-epoched annotated (then further batches to '
        'the dead coroutine). Audit additions: status_cb None, valid_target as plain function / callable object / bound send of a coroutine, '
        'threshold as float / int / NumPy float64 / int64 / float32 and half-integer, batches of int64 / int32 / int16 / float32 dtype, all-zero '
        'epochs, values around 1e9, empty batches of every kind, falsy / tuple channel labels, metadata dicts with nested heterogeneous '
        'values, integer fs and NumPy s0; after every call the caller overwrites its batch and metadata list. Non-trivial: at least one epoch rejected or an input refused. Distinct = distinct cases.')
TRUSTED = ['harness/C17.py (batch generator; canonicalisation of forwarded arrays, metadata ids and the status mask)',
           'NumPy max/abs/ptp/boolean-mask indexing as modelled in coq/Reject/Model.v and coq/PData/Model.v (exercised by the correspondence, not proved)']
ASSUMPTIONS = ['sample values and thresholds are integer-valued floats, so the comparison with the threshold is exact',
               'epochs have at least one sample (np.max of an empty axis raises)',
               'metadata entries are compared by their "id"; the added reject_threshold entry is checked by the oracle only']
MODES = {'abs': 'absolute value', 'ptp': 'amplitude'}
EXC = {'IndexError': 'EIndex', 'ValueError': 'EValue', 'NotImplementedError': 'ENotImpl', 'TypeError': 'ETypeKey',
       'KeyError': 'ETypeKey', 'UnboundLocalError': 'EUnbound'}


MTAGS = [0, '', None, ('A', 1), 2.5, 'x', False, (0,)]
LABS = {70: 70, -1: None, 71: 0, 72: '', 73: ('A', 0), 74: False, 75: 'ch'}     # channel identifiers -> label objects


def _same(a, b):
    if a is b:
        return True
    if type(a) is not type(b):
        return False
    if isinstance(a, (tuple, list)):
        return len(a) == len(b) and all(_same(u, v) for u, v in zip(a, b))
    if isinstance(a, dict):
        return list(a.keys()) == list(b.keys()) and all(_same(a[k], b[k]) for k in a)
    return a == b


# non-finite samples: the model works over Z, so NaN / +inf / -inf travel as sentinel integers far above every
# threshold used here.  An epoch holding one (together with at least one finite sample) has a criterion that is not
# strictly below any threshold - NumPy: max / ptp propagate NaN and every comparison with NaN is False - so the model
# rejects it for the same reason the code must; a forwarded non-finite sample is decoded back to its sentinel.
NAN_CODE, PINF_CODE, NINF_CODE = 900000001, 900000002, -900000002
_NONFINITE = {NAN_CODE: float('nan'), PINF_CODE: float('inf'), NINF_CODE: float('-inf')}


def _enc_val(v):
    v = float(v)
    if v != v:
        return NAN_CODE
    if v in (float('inf'), float('-inf')):
        return PINF_CODE if v > 0 else NINF_CODE
    return int(v)


def _md_obj(k, rich):
    return {'id': k, 'tag': MTAGS[k % 8], 'n': [k, str(k), (k,)], 'z': 0} if rich else {'id': k}


def _mk(b):
    from psiaudio.pipeline import PipelineData
    d = np.array([_NONFINITE.get(v, v) for v in b['vals']], dtype=float).reshape(b['shape'])
    if b.get('dt'):
        d = d.astype(b['dt'])
    if not b['ann']:
        return d
    nd = len(b['shape'])
    ch = [LABS[c] for c in b['ch']] if isinstance(b['ch'], list) else LABS[b['ch']]
    rich = b.get('rich', False)
    md = _md_obj(b['md'], rich) if nd < 3 else [_md_obj(k, rich) for k in b['md']]
    fs = b['fs'][0] / b['fs'][1]
    if b.get('fsint') and b['fs'][1] == 1:
        fs = int(b['fs'][0])
    return PipelineData(d, fs=fs, s0=(np.int64(b['s0']) if b.get('s0np') else b['s0']), channel=ch, metadata=md)


def _lab_id(c):
    for k, v in LABS.items():
        if _same(c, v):
            return k
    return -999


def _obs_fwd(r, rich=False):
    from psiaudio.pipeline import PipelineData
    if not isinstance(r, np.ndarray):
        raise TypeError(f'valid_target received {type(r).__name__}')
    if not isinstance(r, PipelineData):
        return {'ann': False, 'shape': [int(v) for v in r.shape], 'vals': [_enc_val(v) for v in np.asarray(r).ravel()],
                'dtype': str(r.dtype)}
    fs = Fraction(float(r.fs))
    ch = r.channel
    ch = [_lab_id(c) for c in ch] if isinstance(ch, list) else _lab_id(ch)
    md = r.metadata
    if not isinstance(md, list):
        raise TypeError(f'forwarded metadata is not a list: {md!r}')
    ids = []
    for m in md:
        core = {k: v for k, v in m.items() if k != 'reject_threshold'} if isinstance(m, dict) else None
        ok = core is not None and type(core.get('id')) is int and _same(core, _md_obj(core['id'], rich))
        ids.append(core['id'] if ok else -999)
    return {'ann': True, 'shape': [int(v) for v in r.shape], 'vals': [_enc_val(v) for v in np.asarray(r).ravel()],
            's0': int(r.s0), 'fs': [fs.numerator, fs.denominator], 'ch': ch, 'md': ids, 'dtype': str(r.dtype),
            'rth': [m.get('reject_threshold') if isinstance(m, dict) else None for m in md]}


def _thr_value(v, kind):
    if kind == 'int' and float(v).is_integer():
        return int(v)
    if kind == 'np':
        return np.float64(v)
    if kind == 'npi' and float(v).is_integer():
        return np.int64(v)
    if kind == 'f32':
        return np.float32(v)
    return float(v)


def impl(case):
    from psiaudio.pipeline import reject_epochs
    got = {'fwd': None, 'status': None, 'obj': None}
    rich = [False]

    def target(d):
        if got['fwd'] is not None:
            raise RuntimeError('valid_target called twice for one batch')
        got['fwd'] = _obs_fwd(d, rich[0])
        got['obj'] = d

    def status(mask):
        if got['status'] is not None:
            raise RuntimeError('status_cb called twice for one batch')
        got['status'] = [bool(b) for b in np.asarray(mask).ravel()]
        got['status_ndim'] = int(np.asarray(mask).ndim)

    class Sink:
        def __call__(self, d):
            target(d)

    def gen_sink():
        while True:
            d = (yield)
            target(d)
    tk = case.get('target', 'func')
    if tk == 'send':                     # the next pipeline stage is a coroutine: its bound send method
        g = gen_sink()
        next(g)
        tgt = g.send
    elif tk == 'object':
        tgt = Sink()
    else:
        tgt = target
    calls = []
    kind = case.get('thk', 'float')
    if case['thr'][0] == 'c':
        th = _thr_value(case['thr'][1], kind)
    else:
        seq = list(case['thr'][1])

        def th():
            v = _thr_value(seq[len(calls)], kind)
            calls.append(v)
            return v
    use_status = case.get('status', True)
    cr = reject_epochs(th, MODES[case['mode']], status if use_status else None, tgt)
    outs = []
    for b in case['batches']:
        got.update(fwd=None, status=None, status_ndim=None, obj=None)
        rich[0] = b.get('rich', False)
        data = _mk(b)
        try:
            cr.send(data)
            if use_status:
                if got['status'] is None:
                    raise RuntimeError('status_cb was not called')
                if got['status_ndim'] != 1:
                    raise RuntimeError('status mask is not 1-D')
            o = {'fwd': got['fwd'], 'status': got['status']}
            if got['obj'] is not None:
                # the caller reuses its batch array (and metadata list) after the call: what was forwarded must not change
                if data.flags.writeable and data.size:
                    data[...] = 77
                if b['ann'] and isinstance(data.metadata, list):
                    data.metadata.append({'scribble': 1})
                again = _obs_fwd(got['obj'], rich[0])
                if again != got['fwd']:
                    o['alias'] = 'the forwarded epochs changed when the caller overwrote its batch after the call'
            outs.append(o)
        except StopIteration:
            outs.append({'stop': True})
        except (IndexError, ValueError, NotImplementedError, TypeError, KeyError, UnboundLocalError) as e:
            outs.append({'exc': type(e).__name__, 'msg': str(e)[:100]})
    return {'outs': outs, 'calls': len(calls)}


# --------------------------------------------------------------------------- Coq terms
def _lab(l):
    return f'(LMany {zlist(l)})' if isinstance(l, list) else f'(LOne {zlit(l)})'


def _scale(case):
    ths = [case['thr'][1]] if case['thr'][0] == 'c' else list(case['thr'][1])
    return 1 if all(float(t).is_integer() for t in ths) else 2


def _batch(b, sc=1):
    vals = [v * sc for v in b['vals']]
    if not b['ann']:
        return f'(mk_plain {zlist(b["shape"])} {zlist(vals)})'
    md = _lab(b['md'])
    return (f'(mk_ann {zlist(b["shape"])} {zlist(vals)} {zlit(b["s0"])} {zlit(b["fs"][0])} {zlit(b["fs"][1])} '
            f'{_lab(b["ch"])} {md})')


def _fwd(f, sc=1):
    if f is None:
        return 'None'
    vals = [v * sc for v in f['vals']]
    if not f['ann']:
        return f'(Some (fwd_plain {zlist(f["shape"])} {zlist(vals)}))'
    return (f'(Some (fwd_ann {zlist(f["shape"])} {zlist(vals)} {zlit(f["s0"])} {zlit(f["fs"][0])} {zlit(f["fs"][1])} '
            f'{_lab(f["ch"])} (LMany {zlist(f["md"])})))')


def _out(o, sc=1):
    if 'stop' in o:
        return 'OStop'
    if 'exc' in o:
        return f'(OErr {EXC[o["exc"]]})'
    return f'(OOut {_fwd(o["fwd"], sc)} {blist(o["status"] or [])})'


def term(case, res):
    m = 'MAbs' if case['mode'] == 'abs' else 'MPtp'
    sc = _scale(case)
    z = lambda t: zlit(int(round(float(t) * sc)))
    t = f'(TConst {z(case["thr"][1])})' if case['thr'][0] == 'c' else f'(TCall {listlit([z(v) for v in case["thr"][1]])})'
    chk = 'check_run' if case.get('status', True) else 'check_run_fwd'
    return (f'{chk} {m} {t} {listlit([_batch(b, sc) for b in case["batches"]])} '
            f'{listlit([_out(o, sc) for o in res["outs"]])}')


# --------------------------------------------------------------------------- the property as an oracle
def _crit(mode, ep):
    return max(abs(v) for v in ep) if mode == 'abs' else max(ep) - min(ep)


def _valid(b):
    sh = b['shape']
    return len(sh) == 3 and sh[1] == 1


def oracle(case, res):
    k = 0      # thresholds consumed
    for i, (b, o) in enumerate(zip(case['batches'], res['outs'])):
        if 'stop' in o:
            return None            # the coroutine ended on a refused batch; nothing is claimed afterwards
        if not _valid(b):
            if 'exc' not in o:
                return f'batch {i} of shape {b["shape"]} ({"annotated" if b["ann"] else "plain"}) was not refused'
            return None
        if 'exc' in o:
            return f'batch {i} (valid, shape {b["shape"]}) raised {o["exc"]}: {o["msg"]}'
        th = case['thr'][1] if case['thr'][0] == 'c' else case['thr'][1][k]
        k += 1
        E, _, T = b['shape']
        eps = [b['vals'][e * T:(e + 1) * T] for e in range(E)]
        want_mask = [_crit(case['mode'], ep) < th for ep in eps]
        if o.get('alias'):
            return f'batch {i}: {o["alias"]}'
        if not case.get('status', True):
            if o['status'] is not None:
                return f'batch {i}: a status callback ran although status_cb is None'
        elif o['status'] != want_mask:
            return (f'batch {i}: status callback got {o["status"]}, accept mask is {want_mask} '
                    f'(criterion values {[_crit(case["mode"], ep) for ep in eps]}, threshold {th})')
        keep = [e for e in range(E) if want_mask[e]]
        f = o['fwd']
        if not keep:
            if f is not None:
                return f'batch {i}: every epoch is rejected but {f["shape"]} was forwarded'
            continue
        if f is None:
            return f'batch {i}: epochs {keep} are under the threshold {th} but nothing was forwarded'
        want_vals = [v for e in keep for v in eps[e]]
        if f['shape'] != [len(keep), 1, T] or f['vals'] != want_vals:
            return (f'batch {i}: forwarded epochs {f["shape"]} {f["vals"][:12]} are not the accepted epochs {keep} in order '
                    f'(criterion {[_crit(case["mode"], ep) for ep in eps]}, threshold {th})')
        if f['ann'] != b['ann']:
            return f'batch {i}: forwarded array kind changed'
        if f['dtype'] != b.get('dt', 'float64'):
            return f'batch {i}: forwarded dtype {f["dtype"]} for a batch of dtype {b.get("dt", "float64")}'
        if b['ann']:
            want_md = [b['md'][e] for e in keep]
            if f['md'] != want_md:
                return f'batch {i}: forwarded metadata ids {f["md"]} but the accepted epochs {keep} carry {want_md}'
            if any(r != th for r in f['rth']):
                return f'batch {i}: reject_threshold entries {f["rth"]} differ from the threshold in force {th}'
            if f['s0'] != b['s0'] or f['fs'] != b['fs'] or f['ch'] != b['ch']:
                return f'batch {i}: s0/fs/channel changed: {f["s0"]}, {f["fs"]}, {f["ch"]}'
    if case['thr'][0] == 'f' and res['calls'] != k:
        return f'the threshold callable was read {res["calls"]} times for {k} accepted batches (once per batch is claimed)'
    return None


def nontrivial(case, res):
    return any(('exc' in o) or ('status' in o and not all(o['status'] or [False])) for o in res['outs'])


# --------------------------------------------------------------------------- generators
def _epoch(mode, c, T, rng, variant=0):
    """an epoch of T >= 1 integer samples whose criterion value is exactly c (c >= 0)"""
    if mode == 'abs':
        sgn = -1 if variant % 2 else 1
        ep = [rng.randint(-c, c) if c > 0 else 0 for _ in range(T)]
        ep[(variant // 2) % T] = sgn * c
        return ep
    if T == 1:
        return None if c != 0 else [rng.randint(-5, 5)]
    lo = rng.randint(-6, 6)
    ep = [rng.randint(lo, lo + c) for _ in range(T)]
    i, j = rng.sample(range(T), 2)
    if variant % 2:
        i, j = j, i
    ep[i], ep[j] = lo, lo + c
    return ep


def _batch_from(mode, crits, T, rng, ann, mdbase=0, variant=0):
    eps = []
    for q, c in enumerate(crits):
        ep = _epoch(mode, max(c, 0), T, rng, variant + q)
        if ep is None:
            ep = _epoch(mode, 0, T, rng)
        eps.append(ep)
    b = {'ann': ann, 'shape': [len(crits), 1, T], 'vals': [v for ep in eps for v in ep]}
    if ann:
        b.update(s0=rng.choice([0, -5, 12]), fs=rng.choice([[36000, 1], [3515625, 2]]), ch=[rng.choice([70, -1, 71, 72, 73, 74, 75])],
                 md=[100 + mdbase + q for q in range(len(crits))], rich=bool(rng.random() < 0.5))
    return b


def _bad_batches(rng):
    def ann(shape, ch, md):
        return {'ann': True, 'shape': shape, 'vals': list(range(int(np.prod(shape)))), 's0': 0, 'fs': [36000, 1], 'ch': ch, 'md': md}
    return [
        {'ann': False, 'shape': [4], 'vals': [0, 1, 2, 3]},
        {'ann': False, 'shape': [2, 3], 'vals': list(range(6))},
        {'ann': False, 'shape': [2, 2, 3], 'vals': list(range(12))},
        {'ann': False, 'shape': [2, 0, 3], 'vals': []},
        {'ann': False, 'shape': [1, 1, 1, 3], 'vals': [0, 1, 2]},
        ann([4], 70, 90), ann([1, 4], [70], 90), ann([2, 4], [70, 71], 90), ann([2, 2, 3], [70, 71], [90, 91]),
        ann([2, 3, 1], [70, 71, 72], [90, 91]),
    ]


def cases(tier, rng):
    quick = tier == 'quick'
    th = 10
    near = [th - 1, th, th + 1]
    # every pattern at / just below / just above the threshold
    for mode in ('abs', 'ptp'):
        for E in range(0, 4 if quick else 5):
            pats = list(itertools.product(near, repeat=E))
            if quick and E == 3:
                pats = pats[::2]
            for pi, pat in enumerate(pats):
                for ann in (False, True):
                    for T in ([3] if quick else [2, 4]):
                        if quick and (pi + ann) % 2 and E >= 2:
                            continue
                        yield {'mode': mode, 'thr': ['c', th],
                               'batches': [_batch_from(mode, list(pat), T, rng, ann, variant=pi)]}
        # single-sample epochs, zero / negative thresholds
        for t in (0, 1, -3):
            for ann in (False, True):
                yield {'mode': mode, 'thr': ['c', t], 'batches': [_batch_from(mode, [0, 1, 0], 1 if mode == 'abs' else 2, rng, ann)]}
                yield {'mode': mode, 'thr': ['c', t], 'batches': [_batch_from(mode, [0, 0], 1, rng, ann)]}
    # sequences of batches, callable threshold changing per batch
    for _ in range(1200 if quick else 8000):
        mode = rng.choice(['abs', 'ptp'])
        nb = rng.randint(1, 4)
        ths = [rng.choice([10, 10, 7, 12, 0, 25]) for _ in range(nb)]
        const = rng.random() < 0.35
        if const:
            ths = [ths[0]] * nb
        ann = rng.random() < 0.6
        bs = []
        for k in range(nb):
            E = rng.choice([0, 1, 2, 3, 4, 5])
            t = ths[k]
            crits = [rng.choice([t - 1, t, t + 1, t - 1, t, 0, 3 * t + 5, abs(t) + 40]) for _ in range(E)]
            mixed = ann if rng.random() < 0.85 else (not ann)
            bs.append(_batch_from(mode, crits, rng.randint(2, 5), rng, mixed, mdbase=10 * k, variant=rng.randint(0, 7)))
        yield {'mode': mode, 'thr': (['c', ths[0]] if const else ['f', ths]), 'batches': bs}
    # random samples
    for _ in range(600 if quick else 6000):
        mode = rng.choice(['abs', 'ptp'])
        E, T = rng.randint(1, 5), rng.randint(1, 6)
        t = rng.randint(1, 12)
        ann = rng.random() < 0.5
        b = {'ann': ann, 'shape': [E, 1, T], 'vals': [rng.randint(-12, 12) for _ in range(E * T)]}
        if ann:
            b.update(s0=3, fs=[45, 1], ch=[70], md=[200 + q for q in range(E)])
        yield {'mode': mode, 'thr': ['c', t], 'batches': [b]}
    # non-finite samples (NaN, +inf, -inf) next to finite ones: such an epoch is never under the threshold
    for _ in range(160 if quick else 1500):
        mode = rng.choice(['abs', 'ptp'])
        nb = rng.randint(1, 3)
        ths = [rng.choice([10, 7, 25, 0]) for _ in range(nb)]
        ann = rng.random() < 0.6
        bs = []
        for k in range(nb):
            E, T = rng.randint(1, 4), rng.randint(2, 5)
            t = ths[k]
            b = _batch_from(mode, [rng.choice([t - 1, t, t + 1, 0, 1]) for _ in range(E)], T, rng, ann, mdbase=10 * k,
                            variant=rng.randint(0, 7))
            for e in range(E):
                if rng.random() < 0.5:
                    code = rng.choice([NAN_CODE, NAN_CODE, PINF_CODE, NINF_CODE] if mode == 'abs' else [NAN_CODE])
                    b['vals'][e * T + rng.randrange(T)] = code      # T >= 2: at least one finite sample stays
            bs.append(b)
        c = {'mode': mode, 'thr': (['c', ths[0]] if nb == 1 else ['f', ths]), 'batches': bs}
        if rng.random() < 0.25:
            c['status'] = False
        yield c
    # refused input, alone and inside a sequence (the coroutine ends with the exception)
    yield from _audit_cases(tier, rng)
    good = _batch_from('abs', [9, 11], 3, rng, True)
    for bad in _bad_batches(rng):
        for mode in ('abs', 'ptp'):
            yield {'mode': mode, 'thr': ['c', 10], 'batches': [bad]}
        yield {'mode': 'abs', 'thr': ['f', [10, 10, 10]], 'batches': [good, bad, good]}


def _audit_cases(tier, rng):
    """coverage audit: argument kinds and options of reject_epochs that the pattern generators above do not vary"""
    quick = tier == 'quick'
    n = 0
    for mode in ('abs', 'ptp'):
        for th in (10, 10.5, 0, 0.5, -2, 1e9):
            near = [th - 1, th, th + 1] if float(th).is_integer() else [th - 0.5, th + 0.5, th - 1.5]
            near = [int(max(c, 0)) for c in near]
            for opts in ({'status': False}, {'target': 'send'}, {'target': 'object'}, {'thk': 'int'}, {'thk': 'np'}, {'thk': 'npi'},
                         {'thk': 'f32'}, {'dt': 'int64'}, {'dt': 'int16'}, {'dt': 'float32'}, {'dt': 'int32', 'status': False, 'target': 'send'},
                         {'rich': True}, {'rich': True, 'chid': 71}, {'chid': 72}, {'chid': 73}, {'chid': 74}, {'fsint': True, 's0np': True},
                         {'zeros': True}, {'zeros': True, 'dt': 'int16'}, {'callable': True}, {'callable': True, 'thk': 'npi', 'status': False}):
                if th == 1e9 and (opts.get('dt') in ('int16', 'float32') or opts.get('thk') == 'f32'):   # not exactly representable
                    continue
                for ann in (False, True):
                    n += 1
                    if quick and n % 2 and not (opts.get('status') is False or 'target' in opts):
                        continue
                    bs = []
                    for q in range(2):
                        crits = [near[(q + j) % 3] for j in range(3)] if not opts.get('zeros') else [0, 0]
                        b = _batch_from(mode, crits, 3, rng, ann, mdbase=10 * q, variant=n)
                        if opts.get('zeros'):
                            b['vals'] = [0] * len(b['vals'])
                        if th == 1e9:
                            b['vals'] = [v + (10 ** 9 - 10 if j % 3 == 0 else 0) for j, v in enumerate(b['vals'])] if mode == 'abs' else b['vals']
                        for k_ in ('dt', 'rich', 'fsint', 's0np'):
                            if k_ in opts:
                                b[k_] = opts[k_]
                        if ann and 'chid' in opts:
                            b['ch'] = [opts['chid']]
                        bs.append(b)
                    c = {'mode': mode, 'thr': (['f', [th, th]] if opts.get('callable') else ['c', th]), 'batches': bs}
                    for k_ in ('status', 'target', 'thk'):
                        if k_ in opts:
                            c[k_] = opts[k_]
                    yield c
    # integer epochs at the ends of their range (raw ADC counts): the criterion is a mathematical quantity - the peak of
    # an int16 epoch holding -32768 is 32768, the peak-to-peak amplitude of (30000, -30000) is 60000 - not whatever
    # abs / ptp return in a wrapping integer type
    for dt, lo, hi in (('int16', -32768, 32767), ('int32', -2 ** 31, 2 ** 31 - 1), ('int8', -128, 127)):
        for mode in ('abs', 'ptp'):
            for th in (100, hi, hi + 2, 2 * hi):
                for ann in (False, True):
                    E, T = 4, 3
                    eps = [[lo, 0, 1], [hi - 1, -(hi - 1), 0], [5, -7, 3], [hi, hi, hi]]
                    b = {'ann': ann, 'shape': [E, 1, T], 'vals': [v for ep in eps for v in ep], 'dt': dt}
                    if ann:
                        b.update(s0=0, fs=[36000, 1], ch=[70], md=[300 + q for q in range(E)])
                    yield {'mode': mode, 'thr': ['c', th], 'batches': [b]}
    # empty batches, a batch with no channel, options combined with refused input
    for ann in (False, True):
        for shape in ([0, 1, 3], [2, 0, 3], [0, 0, 3], [0, 2, 3]):
            b = {'ann': ann, 'shape': shape, 'vals': []}
            if ann:
                b.update(s0=0, fs=[36000, 1], ch=[70] * shape[1], md=[100 + q for q in range(shape[0])])
            for opts in ({}, {'status': False}, {'target': 'send'}):
                yield dict({'mode': 'abs', 'thr': ['c', 5], 'batches': [b, _batch_from('abs', [4, 5, 6], 2, rng, ann)]}, **opts)


def distribution(cases_, results):
    d = {'modes': {}, 'threshold': {}, 'batches': {}, 'epochs_at_threshold': 0, 'epochs_below': 0, 'epochs_above': 0,
         'annotated_batches': 0, 'plain_batches': 0, 'refused': 0}
    for c, r in zip(cases_, results):
        d['modes'][c['mode']] = d['modes'].get(c['mode'], 0) + 1
        d['threshold'][c['thr'][0]] = d['threshold'].get(c['thr'][0], 0) + 1
        d['batches'][len(c['batches'])] = d['batches'].get(len(c['batches']), 0) + 1
        k = 0
        for b, o in zip(c['batches'], r.get('outs', []) if isinstance(r, dict) else []):
            d['annotated_batches' if b['ann'] else 'plain_batches'] += 1
            if 'exc' in o:
                d['refused'] += 1
            if not _valid(b) or 'status' not in o:
                continue
            th = c['thr'][1] if c['thr'][0] == 'c' else c['thr'][1][k]
            k += 1
            E, _, T = b['shape']
            for e in range(E):
                v = _crit(c['mode'], b['vals'][e * T:(e + 1) * T])
                d['epochs_at_threshold' if v == th else ('epochs_below' if v < th else 'epochs_above')] += 1
    return d


# =========================================================================== translator tie (coq/gen/RejectGen.v)
# The coroutine reject_epochs itself - set-up, refusals, accept mask, data[mask], the two callbacks - and the PipelineData
# properties n_channels / n_epochs are REGENERATED from the source under test on every run (translate/pyreject2coq.py),
# and coq/Reject/ProofsTie.v proves the generated definitions equal to the model of coq/Reject/Model.v on the model's domain
# (C17_source_* in coq/Props/C17.v).
GEN = 'gen/RejectGen.v'
MODES['other'] = 'neither of the two'          # self-test only: a mode string outside the table (UnboundLocalError)
TRUSTED += ['translate/pyreject2coq.py (fail-closed AST translator of the coroutine psiaudio.pipeline.reject_epochs - set-up and loop '
            'body, statement by statement - and of PipelineData.n_channels / n_epochs to coq/gen/RejectGen.v; it pins: the signature '
            '`reject_epochs(reject_threshold, mode, status_cb, valid_target)` and the auto-start @coroutine decorator by its text, '
            '`data = (yield)` as the first statement of `while True:`, the table of locals with their types, the strings '
            "'absolute value' -> MAbs and 'amplitude' -> MPtp, `np.asarray(data, dtype=np.double)` as the exact 3-D sample "
            'array of the batch, raise <Exception>(message) -> the exception class only, and it DROPS by its exact text '
            "`if isinstance(valid_data, PipelineData): valid_data.add_metadata('reject_threshold', th)` (metadata entries are "
            'identities in the model; the oracle checks the added entry); docstrings and comments are ignored; self-tested on every '
            'run: reject_epochs_run is evaluated by coqc (vm_compute) against the real coroutine, send by send, on ~190 histories '
            'incl. refused batches, dead coroutines, a callable threshold, no status callback and an unknown mode string)',
            'the Python / NumPy primitives of coq/Reject/NumpyPrims.v as modelled (exercised by that self-test, not proved): the '
            'exception monad ret / raise / bind, py_bound (a name bound on some paths only), py_str_eq, py_callable, ThLambda / ThSame / '
            'py_call0 (the threshold callback and its own state), py_is_none, py_item / np_shape_at / pd_shape_at (tuple index, '
            'negative wraps, out of range raises), np_ndim / pd_ndim, py_len / py_len_fwd, np_asarray_double, np_abs, np_max_last / '
            'np_ptp_last (row_max / row_min over a non-empty time axis), np_lt_s, np_col0 (a[:, 0]), np_select / py_getitem_mask '
            '(boolean selection of the epochs AND of the metadata entries of an annotated batch; s0, fs, channel kept), py_call_cb, '
            'py_status, coroutine_run (an exception ends the generator, later sends raise StopIteration)']
ASSUMPTIONS += ['translator tie: generated = model is proved on the domain `dom` (a good batch, or a refused batch with 1..3 dimensions '
                'if annotated); C17_source_good_needed_refuted / C17_source_dims_needed_refuted show both halves are needed: the '
                "source's checks let a 4-D annotated array with shape[-2] == 1 through (it fails later with IndexError), which the "
                'model - limited to the 1..3 dimensions of PData/Model.v - refuses with ValueError']


def translate(repo):
    """Regenerate coq/gen/RejectGen.v from <repo>/psiaudio/pipeline.py and self-test it.  A source the translator cannot
    digest, a generated file that does not type-check or a failed self-test raise: the driver reports a broken tie."""
    import os
    import random
    import vlib
    from translate import pyreject2coq
    path = os.path.join(vlib.COQ, GEN)
    try:
        text, info = pyreject2coq.translate(repo)
    except pyreject2coq.Gap as e:
        msg = ''.join(ch if ch.isalnum() or ch in " _.,:;()[]{}=+-*/<>'`" else ' ' for ch in str(e))
        msg = msg.replace('(*', '( *').replace('*)', '* )')[:400]
        with open(path, 'w') as f:          # deliberately ill-typed: whoever builds it sees the reason
            f.write(f'(* GENERATED by harness/C17.py translate(): translate/pyreject2coq.py could not digest\n   {repo}/psiaudio/pipeline.py *)\n'
                    'From Coq Require Import ZArith String.\n' + f'Definition translator_gap : Z :=\n  "{msg}"%string.\n')
        raise
    with open(path, 'w') as f:              # always rewritten: always re-checked
        f.write(text)
    rc, out = vlib.coq_build('gen/RejectGen.vo')
    if rc != 0:
        raise pyreject2coq.Gap('the generated file does not type-check: ' + out[-800:])
    import psiaudio.pipeline as pl
    if os.path.realpath(pl.__file__) != os.path.realpath(os.path.join(repo, 'psiaudio', 'pipeline.py')):
        raise vlib.MachineryError(f'psiaudio.pipeline is {pl.__file__}, not the translated source under {repo}')
    import sys
    terms = pyreject2coq.selftest_terms(sys.modules[__name__], random.Random(11))
    try:
        failing = vlib.run_cases(PROP, ['PData.Model', 'Reject.Model', 'Reject.NumpyPrims', 'gen.RejectGen'], terms, tag='tieself')
    except vlib.MachineryError as e:
        raise pyreject2coq.Gap('self-test could not be evaluated: ' + str(e)[-600:])
    if failing:
        raise pyreject2coq.Gap(f'self-test: the generated definitions disagree with the real coroutine on {len(failing)} of '
                               f'{len(terms)} histories, first: {terms[failing[0]][:600]}')
    info.update(gen_files=[GEN], primitives=pyreject2coq.PRIMITIVES, selftest={'histories': len(terms), 'failing': 0})
    return info
