"""C17 - reject_epochs forwards exactly the epochs under threshold, metadata aligned.
Model: coq/Reject/Model.v (on top of coq/PData/Model.v); theorems: coq/Props/C17.v."""
import itertools
from fractions import Fraction

import numpy as np
from vlib import zlit, zlist, blist, listlit

PROP = 'C17'
REQUIRES = ['PData.Model', 'Reject.Model']
RULE = ('sequences of 1-4 batches sent to one reject_epochs coroutine; per epoch the criterion value is placed at th-1, th, th+1 '
        '(every pattern over up to 4 epochs for both criteria, by peak sign and by position of the extreme samples), far values and '
        'random integer-valued samples; thresholds constant or a callable returning a new value per batch (incl. 0 and negative); '
        'plain ndarray and PipelineData batches (distinct metadata ids per epoch, s0, fs, channel label), empty batches, all-accepted '
        'and all-rejected batches; malformed input: 1-D/2-D/4-D plain, multichannel, un-epoched annotated (then further batches to '
        'the dead coroutine). Non-trivial: at least one epoch rejected or an input refused. Distinct = distinct cases.')
TRUSTED = ['harness/C17.py (batch generator; canonicalisation of forwarded arrays, metadata ids and the status mask)',
           'NumPy max/abs/ptp/boolean-mask indexing as modelled in coq/Reject/Model.v and coq/PData/Model.v (exercised by the correspondence, not proved)']
ASSUMPTIONS = ['sample values and thresholds are integer-valued floats, so the comparison with the threshold is exact',
               'epochs have at least one sample (np.max of an empty axis raises)',
               'metadata entries are compared by their "id"; the added reject_threshold entry is checked by the oracle only']
MODES = {'abs': 'absolute value', 'ptp': 'amplitude'}
EXC = {'IndexError': 'EIndex', 'ValueError': 'EValue', 'NotImplementedError': 'ENotImpl', 'TypeError': 'ETypeKey',
       'KeyError': 'ETypeKey', 'UnboundLocalError': 'EUnbound'}


def _mk(b):
    from psiaudio.pipeline import PipelineData
    d = np.array(b['vals'], dtype=float).reshape(b['shape'])
    if not b['ann']:
        return d
    nd = len(b['shape'])
    ch = b['ch']
    md = {'id': b['md']} if nd < 3 else [{'id': k} for k in b['md']]
    return PipelineData(d, fs=b['fs'][0] / b['fs'][1], s0=b['s0'], channel=ch, metadata=md)


def _obs_fwd(r):
    from psiaudio.pipeline import PipelineData
    if not isinstance(r, PipelineData):
        return {'ann': False, 'shape': [int(v) for v in r.shape], 'vals': [int(v) for v in np.asarray(r).ravel()]}
    fs = Fraction(float(r.fs))
    ch = r.channel
    ch = [(-1 if c is None else int(c)) for c in ch] if isinstance(ch, list) else (-1 if ch is None else int(ch))
    md = r.metadata
    if not isinstance(md, list):
        raise TypeError(f'forwarded metadata is not a list: {md!r}')
    return {'ann': True, 'shape': [int(v) for v in r.shape], 'vals': [int(v) for v in np.asarray(r).ravel()],
            's0': int(r.s0), 'fs': [fs.numerator, fs.denominator], 'ch': ch, 'md': [int(m['id']) for m in md],
            'rth': [m.get('reject_threshold') for m in md]}


def impl(case):
    from psiaudio.pipeline import reject_epochs
    got = {'fwd': None, 'status': None}

    def target(d):
        if got['fwd'] is not None:
            raise RuntimeError('valid_target called twice for one batch')
        got['fwd'] = _obs_fwd(d)

    def status(mask):
        if got['status'] is not None:
            raise RuntimeError('status_cb called twice for one batch')
        got['status'] = [bool(b) for b in np.asarray(mask).ravel()]
        got['status_ndim'] = int(np.asarray(mask).ndim)

    calls = []
    if case['thr'][0] == 'c':
        th = float(case['thr'][1])
    else:
        seq = list(case['thr'][1])

        def th():
            v = float(seq[len(calls)])
            calls.append(v)
            return v
    cr = reject_epochs(th, MODES[case['mode']], status, target)
    outs = []
    for b in case['batches']:
        got.update(fwd=None, status=None, status_ndim=None)
        data = _mk(b)
        try:
            cr.send(data)
            if got['status'] is None:
                raise RuntimeError('status_cb was not called')
            if got['status_ndim'] != 1:
                raise RuntimeError('status mask is not 1-D')
            outs.append({'fwd': got['fwd'], 'status': got['status']})
        except StopIteration:
            outs.append({'stop': True})
        except (IndexError, ValueError, NotImplementedError, TypeError, KeyError, UnboundLocalError) as e:
            outs.append({'exc': type(e).__name__, 'msg': str(e)[:100]})
    return {'outs': outs, 'calls': len(calls)}


# --------------------------------------------------------------------------- Coq terms
def _lab(l):
    return f'(LMany {zlist(l)})' if isinstance(l, list) else f'(LOne {zlit(l)})'


def _batch(b):
    if not b['ann']:
        return f'(mk_plain {zlist(b["shape"])} {zlist(b["vals"])})'
    md = _lab(b['md'])
    return (f'(mk_ann {zlist(b["shape"])} {zlist(b["vals"])} {zlit(b["s0"])} {zlit(b["fs"][0])} {zlit(b["fs"][1])} '
            f'{_lab(b["ch"])} {md})')


def _fwd(f):
    if f is None:
        return 'None'
    if not f['ann']:
        return f'(Some (fwd_plain {zlist(f["shape"])} {zlist(f["vals"])}))'
    return (f'(Some (fwd_ann {zlist(f["shape"])} {zlist(f["vals"])} {zlit(f["s0"])} {zlit(f["fs"][0])} {zlit(f["fs"][1])} '
            f'{_lab(f["ch"])} (LMany {zlist(f["md"])})))')


def _out(o):
    if 'stop' in o:
        return 'OStop'
    if 'exc' in o:
        return f'(OErr {EXC[o["exc"]]})'
    return f'(OOut {_fwd(o["fwd"])} {blist(o["status"])})'


def term(case, res):
    m = 'MAbs' if case['mode'] == 'abs' else 'MPtp'
    t = f'(TConst {zlit(case["thr"][1])})' if case['thr'][0] == 'c' else f'(TCall {zlist(case["thr"][1])})'
    return (f'check_run {m} {t} {listlit([_batch(b) for b in case["batches"]])} '
            f'{listlit([_out(o) for o in res["outs"]])}')


# --------------------------------------------------------------------------- the property as an oracle
def _crit(mode, ep):
    return max(abs(v) for v in ep) if mode == 'abs' else max(ep) - min(ep)


def _valid(b):
    sh = b['shape']
    return len(sh) == 3 and sh[1] == 1


def oracle(case, res):
    k = 0      # thresholds consumed
    for i, (b, o) in enumerate(zip(case['batches'], res['outs'])):
        if 'stop' in o:
            return None            # the coroutine ended on a refused batch; nothing is claimed afterwards
        if not _valid(b):
            if 'exc' not in o:
                return f'batch {i} of shape {b["shape"]} ({"annotated" if b["ann"] else "plain"}) was not refused'
            return None
        if 'exc' in o:
            return f'batch {i} (valid, shape {b["shape"]}) raised {o["exc"]}: {o["msg"]}'
        th = case['thr'][1] if case['thr'][0] == 'c' else case['thr'][1][k]
        k += 1
        E, _, T = b['shape']
        eps = [b['vals'][e * T:(e + 1) * T] for e in range(E)]
        want_mask = [_crit(case['mode'], ep) < th for ep in eps]
        if o['status'] != want_mask:
            return (f'batch {i}: status callback got {o["status"]}, accept mask is {want_mask} '
                    f'(criterion values {[_crit(case["mode"], ep) for ep in eps]}, threshold {th})')
        keep = [e for e in range(E) if want_mask[e]]
        f = o['fwd']
        if not keep:
            if f is not None:
                return f'batch {i}: every epoch is rejected but {f["shape"]} was forwarded'
            continue
        if f is None:
            return f'batch {i}: epochs {keep} are under the threshold {th} but nothing was forwarded'
        want_vals = [v for e in keep for v in eps[e]]
        if f['shape'] != [len(keep), 1, T] or f['vals'] != want_vals:
            return (f'batch {i}: forwarded epochs {f["shape"]} {f["vals"][:12]} are not the accepted epochs {keep} in order '
                    f'(criterion {[_crit(case["mode"], ep) for ep in eps]}, threshold {th})')
        if f['ann'] != b['ann']:
            return f'batch {i}: forwarded array kind changed'
        if b['ann']:
            want_md = [b['md'][e] for e in keep]
            if f['md'] != want_md:
                return f'batch {i}: forwarded metadata ids {f["md"]} but the accepted epochs {keep} carry {want_md}'
            if any(r != th for r in f['rth']):
                return f'batch {i}: reject_threshold entries {f["rth"]} differ from the threshold in force {th}'
            if f['s0'] != b['s0'] or f['fs'] != b['fs'] or f['ch'] != b['ch']:
                return f'batch {i}: s0/fs/channel changed: {f["s0"]}, {f["fs"]}, {f["ch"]}'
    return None


def nontrivial(case, res):
    return any(('exc' in o) or ('status' in o and not all(o['status'])) for o in res['outs'])


# --------------------------------------------------------------------------- generators
def _epoch(mode, c, T, rng, variant=0):
    """an epoch of T >= 1 integer samples whose criterion value is exactly c (c >= 0)"""
    if mode == 'abs':
        sgn = -1 if variant % 2 else 1
        ep = [rng.randint(-c, c) if c > 0 else 0 for _ in range(T)]
        ep[(variant // 2) % T] = sgn * c
        return ep
    if T == 1:
        return None if c != 0 else [rng.randint(-5, 5)]
    lo = rng.randint(-6, 6)
    ep = [rng.randint(lo, lo + c) for _ in range(T)]
    i, j = rng.sample(range(T), 2)
    if variant % 2:
        i, j = j, i
    ep[i], ep[j] = lo, lo + c
    return ep


def _batch_from(mode, crits, T, rng, ann, mdbase=0, variant=0):
    eps = []
    for q, c in enumerate(crits):
        ep = _epoch(mode, max(c, 0), T, rng, variant + q)
        if ep is None:
            ep = _epoch(mode, 0, T, rng)
        eps.append(ep)
    b = {'ann': ann, 'shape': [len(crits), 1, T], 'vals': [v for ep in eps for v in ep]}
    if ann:
        b.update(s0=rng.choice([0, -5, 12]), fs=rng.choice([[36000, 1], [3515625, 2]]), ch=[rng.choice([70, -1])],
                 md=[100 + mdbase + q for q in range(len(crits))])
    return b


def _bad_batches(rng):
    def ann(shape, ch, md):
        return {'ann': True, 'shape': shape, 'vals': list(range(int(np.prod(shape)))), 's0': 0, 'fs': [36000, 1], 'ch': ch, 'md': md}
    return [
        {'ann': False, 'shape': [4], 'vals': [0, 1, 2, 3]},
        {'ann': False, 'shape': [2, 3], 'vals': list(range(6))},
        {'ann': False, 'shape': [2, 2, 3], 'vals': list(range(12))},
        {'ann': False, 'shape': [2, 0, 3], 'vals': []},
        {'ann': False, 'shape': [1, 1, 1, 3], 'vals': [0, 1, 2]},
        ann([4], 70, 90), ann([1, 4], [70], 90), ann([2, 4], [70, 71], 90), ann([2, 2, 3], [70, 71], [90, 91]),
        ann([2, 3, 1], [70, 71, 72], [90, 91]),
    ]


def cases(tier, rng):
    quick = tier == 'quick'
    th = 10
    near = [th - 1, th, th + 1]
    # every pattern at / just below / just above the threshold
    for mode in ('abs', 'ptp'):
        for E in range(0, 4 if quick else 5):
            pats = list(itertools.product(near, repeat=E))
            if quick and E == 3:
                pats = pats[::2]
            for pi, pat in enumerate(pats):
                for ann in (False, True):
                    for T in ([3] if quick else [2, 4]):
                        if quick and (pi + ann) % 2 and E >= 2:
                            continue
                        yield {'mode': mode, 'thr': ['c', th],
                               'batches': [_batch_from(mode, list(pat), T, rng, ann, variant=pi)]}
        # single-sample epochs, zero / negative thresholds
        for t in (0, 1, -3):
            for ann in (False, True):
                yield {'mode': mode, 'thr': ['c', t], 'batches': [_batch_from(mode, [0, 1, 0], 1 if mode == 'abs' else 2, rng, ann)]}
                yield {'mode': mode, 'thr': ['c', t], 'batches': [_batch_from(mode, [0, 0], 1, rng, ann)]}
    # sequences of batches, callable threshold changing per batch
    for _ in range(1200 if quick else 8000):
        mode = rng.choice(['abs', 'ptp'])
        nb = rng.randint(1, 4)
        ths = [rng.choice([10, 10, 7, 12, 0, 25]) for _ in range(nb)]
        const = rng.random() < 0.35
        if const:
            ths = [ths[0]] * nb
        ann = rng.random() < 0.6
        bs = []
        for k in range(nb):
            E = rng.choice([0, 1, 2, 3, 4, 5])
            t = ths[k]
            crits = [rng.choice([t - 1, t, t + 1, t - 1, t, 0, 3 * t + 5, abs(t) + 40]) for _ in range(E)]
            mixed = ann if rng.random() < 0.85 else (not ann)
            bs.append(_batch_from(mode, crits, rng.randint(2, 5), rng, mixed, mdbase=10 * k, variant=rng.randint(0, 7)))
        yield {'mode': mode, 'thr': (['c', ths[0]] if const else ['f', ths]), 'batches': bs}
    # random samples
    for _ in range(600 if quick else 6000):
        mode = rng.choice(['abs', 'ptp'])
        E, T = rng.randint(1, 5), rng.randint(1, 6)
        t = rng.randint(1, 12)
        ann = rng.random() < 0.5
        b = {'ann': ann, 'shape': [E, 1, T], 'vals': [rng.randint(-12, 12) for _ in range(E * T)]}
        if ann:
            b.update(s0=3, fs=[45, 1], ch=[70], md=[200 + q for q in range(E)])
        yield {'mode': mode, 'thr': ['c', t], 'batches': [b]}
    # refused input, alone and inside a sequence (the coroutine ends with the exception)
    good = _batch_from('abs', [9, 11], 3, rng, True)
    for bad in _bad_batches(rng):
        for mode in ('abs', 'ptp'):
            yield {'mode': mode, 'thr': ['c', 10], 'batches': [bad]}
        yield {'mode': 'abs', 'thr': ['f', [10, 10, 10]], 'batches': [good, bad, good]}


def distribution(cases_, results):
    d = {'modes': {}, 'threshold': {}, 'batches': {}, 'epochs_at_threshold': 0, 'epochs_below': 0, 'epochs_above': 0,
         'annotated_batches': 0, 'plain_batches': 0, 'refused': 0}
    for c, r in zip(cases_, results):
        d['modes'][c['mode']] = d['modes'].get(c['mode'], 0) + 1
        d['threshold'][c['thr'][0]] = d['threshold'].get(c['thr'][0], 0) + 1
        d['batches'][len(c['batches'])] = d['batches'].get(len(c['batches']), 0) + 1
        k = 0
        for b, o in zip(c['batches'], r.get('outs', []) if isinstance(r, dict) else []):
            d['annotated_batches' if b['ann'] else 'plain_batches'] += 1
            if 'exc' in o:
                d['refused'] += 1
            if not _valid(b) or 'status' not in o:
                continue
            th = c['thr'][1] if c['thr'][0] == 'c' else c['thr'][1][k]
            k += 1
            E, _, T = b['shape']
            for e in range(E):
                v = _crit(c['mode'], b['vals'][e * T:(e + 1) * T])
                d['epochs_at_threshold' if v == th else ('epochs_below' if v < th else 'epochs_above')] += 1
    return d
