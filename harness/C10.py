"""C10 - generation is deterministic and isolated.  Model: coq/Determ/Model.v (aliasing heap), Spec.v (pure reference)."""
import copy
import numpy as np
from vlib import zlit, listlit

PROP = 'C10'
REQUIRES = ['Determ.Model', 'Determ.Spec']
RULE = ('(1) seeded random programs of 4-25 operations over REAL objects, compared with the aliasing model: FixedWaveform, 16 carriers (tone incl. '
        'integer-typed parameters, silence, SAM tone, square wave, and all four seeded noise factories: broadband / band-limited IIR / band-limited FIR / '
        'shaped, incl. seed 0 and NumPy-integer seeds), GateFactory wrapping them, next() with Python-int / NumPy-int counts (and the NumPy float '
        'n_samples_remaining() returns, on FixedWaveform), zero-length counts on every carrier, reset(), copy.deepcopy, in-place writes by the caller into '
        'every array it was handed (results of next() and of every array-valued memoised function: envelope positional and keyword form, cos2envelope, '
        'sam_envelope, _sam_envelope, load_wav, the filter-design helper\'s tuple elements), re-reads of held arrays, five kinds of use of the global '
        'NumPy random state in between; plus hand-written programs for each aliasing path, each noise factory and each memoised function. '
        '(2) oracle-only programs: queue (six queue classes; append / extend with scalars / extend with lists; blocked-random seed default / 0 / int / '
        'NumPy int; 14 kinds of source: float / int16 / read-only arrays and finite generators of every seeded and memoised kind; originals used, reset, '
        'written to and advanced through their inner generators before AND while the queue plays them; clone early, clone late, clone of clone, read '
        'alternately); gen (every generator class of harness/stimcore.catalogue incl. nested transforms: disturbed run == fresh run; reset == rebuilt); '
        'memo (every fast_cache\'d function incl. the scalar ones, equal arguments of different kinds, positional / keyword, str / Path, caller writes into '
        'every answer: each answer == the un-memoised function); memokeys (for every fast_cache\'d function incl. both filter-design helpers: groups of calls in one process that a bug in the memo key would confuse - same values under different keyword names, keyword order swapped, positional vs keyword forms of different parameters, -1 / -2 and -1.0 / -2.0 (equal hash), 1 / 1.0 / True, 0 / 0.0 / False - in both orders, each answer == the un-memoised function). Non-trivial: the program contains a caller write or a deepcopy or global-random use.')
TRUSTED = ['harness/C10.py (program generator; mapping of model value codes to doubles via one-shot carriers and the un-memoised function)',
           'harness/stimcore.py mk / catalogue (builders of the real generator objects, shared with C01/C09)',
           'CPython/NumPy view semantics as modelled in coq/Determ/Model.v (slices are views, np.concatenate/.copy() allocate, read-only flag rejects writes)']
ASSUMPTIONS = ['the caller keeps no reference to the array a FixedWaveform was built from (mutating a constructor argument is a different parameter)',
               'an inner generator wrapped by a gate is not used directly afterwards',
               'FIR-filtered noise (band-limited FIR, shaped) is compared with the one-shot carrier to 1e-12 (scipy filters a chunk by convolution); '
               'everything else, and every same-chunking comparison, bit-exactly',
               'RandomSignalQueue (global NumPy state by design), seed=None noise, queue.insert (raises TypeError) and WavSequenceFactory (cannot be '
               'constructed: passes fs as the seed of its queue) are outside the statement / cannot be exercised',
               'that real objects have no hidden shared state beyond what the model lists is what the correspondence probes; it is not proved']
FS = 1000.0


NCAR = 16
FILTERED_CARRIERS = (9, 10, 11, 12)
# next(0) on a filtered noise factory used to hand scipy.signal.lfilter an empty chunk (IIR: UNINITIALISED memory became the filter
# state and the stream after it differed from run to run; FIR: ValueError).  Found by this harness, repaired in /repo (0525cf7):
# zero-length counts are ordinary inputs for every carrier.
ZERO_CHUNK_ON_FILTERED = True
FIR_CARRIERS = (9, 10)      # FIR noise: scipy filters a chunk by convolution, so chunked and one-shot output differ by rounding (1e-12 allowed)


def _carrier(c):
    """carrier c of the model: tone / silence / all four seeded noise factories / SAM tone / square wave, incl. seed 0,
    NumPy-integer seeds and integer-typed parameters"""
    from psiaudio import stim
    if c <= 8:
        k = c % 3
        if k == 0:
            return stim.ToneFactory(FS, 50.0 + 7 * c, 1.0 + 0.1 * c)
        if k == 1:
            return stim.SilenceFactory(fill_value=2 + c)
        return stim.BroadbandNoiseFactory(FS, 1.0, seed=c // 3)      # c = 2 -> seed 0 (a falsy seed is still a seed)
    if c == 9:
        from psiaudio.calibration import FlatCalibration
        return stim.BandlimitedFIRNoiseFactory(FS, 100.0, 200.0, 1.0, ntaps=31, seed=0, calibration=FlatCalibration.unity())
    if c == 10:
        return stim.ShapedNoiseFactory(FS, 1.0, {0: -20, FS / 8: 0, FS / 4: -6, FS / 2: -40}, ntaps=31, seed=np.int64(5))
    if c == 11:
        return stim.BandlimitedNoiseFactory(FS, 0, 1.0, 100.0, 200.0, 1, 1, 80)
    if c == 12:
        return stim.BandlimitedNoiseFactory(FS, np.int64(3), 0.5, 100.0, 200.0, 1, 1, 80, polarity=-1)
    if c == 13:
        return stim.SAMToneFactory(FS, 100.0, 10.0, 1.0)
    if c == 14:
        return stim.SquareWaveFactory(FS, 2.0, FS / 7.0, 0.4)
    if c == 15:
        return stim.ToneFactory(1000, 50, 1)                          # integer-typed rate, frequency and level
    raise KeyError(c)


def _wave(w, n):
    return (np.arange(n, dtype=np.double) + 1.0) * 0.25 + 10.0 * (w + 1)


NKEY = 8


def _cached_call(key, n):
    """(function, args, kwargs, element) memoised under `key`: every fast_cache'd function returning arrays; n is part of the
    arguments where the function takes a length; element selects one array of a tuple result"""
    from psiaudio import stim
    k = key % NKEY
    if k == 0:
        return stim.envelope, ('cosine-squared', FS, (10 + key) / FS, 3 / FS, 0, 0, n), {}, None
    if k == 1:
        return stim.cos2envelope, (FS, (12 + key) / FS, 4 / FS, 1, 2 / FS, n), {}, None
    if k == 2:
        return stim.sam_envelope, (key, n, FS, 1.0, 40.0 + key, 2 / FS, True), {}, None
    if k == 3:
        return stim._sam_envelope, (key, n, FS, 0.8, 30.0 + key, 2 / FS, 0.3, 1.1), {}, None
    if k == 4:
        # keyword form, a scipy window, rise_time left at its None default, integer-typed rate
        return stim.envelope, (), {'window': 'hann', 'fs': 1000, 'duration': (10 + key) / FS, 'samples': n}, None
    if k == 5:
        import stimcore
        return stim.load_wav, (FS, stimcore._wav_path(21, FS)), {}, None
    # the filter-design helper returns a tuple (b, a, zi): every element is handed out to every caller
    return stim._calculate_bandlimited_noise_filter, (FS, 100.0, 200.0, 50.0, 400.0, 1, 80), {}, (0 if k == 6 else 2)


def _cached_result(key, n):
    f, args, kw, el = _cached_call(key, n)
    r = f(*args, **kw)
    return r if el is None else r[el]


def _unwrap(f):
    while hasattr(f, '__wrapped__'):
        f = f.__wrapped__
    return f


def _cached_uncached(key, n):
    """the same function of the same arguments, computed afresh without any memo table"""
    from psiaudio import stim
    f, args, kw, el = _cached_call(key, n)
    if f.__name__ == 'cos2envelope':
        fs, dur, rise, off, start, samples = args
        return np.array(_unwrap(stim.envelope)('cosine-squared', fs, dur, rise, off, start, samples), dtype=float)
    if f.__name__ == 'sam_envelope':
        off, samples, fs, depth, fm, delay, eq = args
        return np.array(_unwrap(stim._sam_envelope)(off, samples, fs, depth, fm, delay, _unwrap(stim.sam_eq_phase)(delay, depth, 1),
                                                     _unwrap(stim.sam_eq_power)(depth)), dtype=float)
    r = _unwrap(f)(*args, **kw)
    return np.array(r if el is None else r[el], dtype=float)


def cases(tier, rng):
    quick = tier == 'quick'
    hand = [
        [['MkFixed', 0, 6], ['MkGate', 1, 3, 0], ['Next', 1, 4], ['Write', 0, 2, 900000001], ['Reset', 1], ['Next', 1, 4], ['Next', 1, 9]],
        [['MkFixed', 1, 8], ['Next', 0, 3], ['Write', 0, 0, 900000005], ['Reset', 0], ['Next', 0, 8]],
        [['MkFixed', 2, 5], ['Next', 0, 5], ['Write', 0, 4, 900000006], ['DeepCopy', 0], ['Reset', 0], ['Reset', 1], ['Next', 1, 5], ['Next', 0, 7]],
        [['CachedCall', 0, 10], ['Write', 0, 5, 900000007], ['CachedCall', 0, 10], ['ReadView', 0]],
        [['CachedCall', 1, 14], ['CachedCall', 2, 9], ['Write', 1, 0, 900000008], ['CachedCall', 2, 9], ['CachedCall', 1, 14]],
        [['MkCar', 2], ['Next', 0, 4], ['GlobalRandom'], ['MkCar', 2], ['Next', 1, 4], ['GlobalRandom'], ['Next', 0, 3], ['Next', 1, 3], ['Reset', 0], ['Next', 0, 7]],
        [['MkCar', 5], ['DeepCopy', 0], ['Next', 0, 5], ['GlobalRandom'], ['Next', 1, 5], ['Write', 0, 1, 900000009], ['Next', 1, 2], ['Next', 0, 2]],
    ]
    hand += [
        # every seeded noise factory: same seed, the global state disturbed in every possible way in between, reset, deepcopy
        [['MkCar', c], ['Next', 0, 4], ['GlobalRandom'], ['GlobalRandom'], ['MkCar', c], ['GlobalRandom'], ['Next', 1, 4], ['GlobalRandom'],
         ['GlobalRandom'], ['Next', 0, 3], ['DeepCopy', 0], ['GlobalRandom'], ['Next', 1, 3], ['Next', 2, 5], ['Next', 0, 5], ['Reset', 0],
         ['GlobalRandom'], ['Next', 0, 7], ['Write', 0, 1, 900000011], ['Reset', 1], ['Next', 1, 9]] for c in (2, 9, 10, 11, 12)
    ] + [
        # every memoised function: ask, try to write into the answer, ask again, read the first answer again
        [['CachedCall', k, 6 + k], ['Write', 0, 0, 900000012], ['Write', 0, 2, 900000013], ['CachedCall', k, 6 + k], ['ReadView', 0],
         ['Write', 1, 1, 900000014], ['CachedCall', k, 6 + k]] for k in range(NKEY)
    ] + [
        # a noise factory built from the cached filter coefficients after the caller tried to overwrite them
        [['CachedCall', 6, 12], ['Write', 0, 0, 900000015], ['CachedCall', 7, 13], ['Write', 1, 0, 900000016], ['MkCar', 11], ['Next', 0, 6],
         ['MkCar', 12], ['Next', 1, 6]],
        # FixedWaveform asked with the float count n_samples_remaining() returns, then written to, reset, deep-copied
        [['MkFixed', 0, 7], ['Next', 0, 3], ['Write', 0, 1, 900000017], ['Next', 0, 4], ['Write', 1, 0, 900000018], ['Reset', 0], ['DeepCopy', 0],
         ['Next', 0, 7], ['Next', 1, 9]],
    ]
    for p in hand:
        yield {'k': 'prog', 'prog': p, 'kinds': {str(i): ('f' if p[0][0] == 'MkFixed' and len(p) == 9 and p[-1] == ['Next', 1, 9] else None)
                                                 for i, o in enumerate(p) if o[0] == 'Next'}}
    for _ in range(400 if quick else 8000):
        prog, kinds = _random_prog(rng)
        yield {'k': 'prog', 'prog': prog, 'kinds': kinds}
    for _ in range(60 if quick else 800):
        yield {'k': 'queue', 'seed': rng.randint(0, 10 ** 6)}
    for j in range(200 if quick else 2500):
        yield {'k': 'gen', 'seed': 1000 * rng.randint(0, 10 ** 4) + j}      # seed % catalogue size walks through every generator type
    for _ in range(30 if quick else 400):
        yield {'k': 'memo', 'seed': rng.randint(0, 10 ** 6)}
    for salt in range(12 if quick else 120):
        yield {'k': 'memokeys', 'salt': salt}


def _random_prog(rng):
    """returns (program, kinds): kinds maps the position of a Next to the type of its count ('np' NumPy integer, 'f' the NumPy
    float that n_samples_remaining() of a finite waveform returns; only where the generator type accepts it)"""
    prog, nobj, live, nviews, nwave, kinds, typ, filt = [], 0, [], 0, 0, {}, {}, {}
    for _ in range(rng.randint(4, 25)):
        u = rng.random()
        if u < 0.12 or not live:
            if rng.random() < 0.45:
                prog.append(['MkFixed', nwave, rng.randint(0, 12)])
                nwave += 1
                typ[nobj] = 'fixed'
            else:
                prog.append(['MkCar', rng.randint(0, NCAR - 1)])
                typ[nobj] = 'car'
                filt[nobj] = prog[-1][1] in FILTERED_CARRIERS
            live.append(nobj)
            nobj += 1
        elif u < 0.2:
            oid = rng.choice(live)
            prog.append(['MkGate', rng.randint(0, 6), rng.randint(0, 10), oid])
            live.remove(oid)
            live.append(nobj)
            typ[nobj] = 'gate'
            filt[nobj] = filt.get(oid)
            nobj += 1
        elif u < 0.5:
            oid = rng.choice(live)
            v = rng.random()
            if v < 0.25:
                kinds[str(len(prog))] = 'np'
            elif v < 0.45 and typ[oid] == 'fixed':
                kinds[str(len(prog))] = 'f'
            prog.append(['Next', oid, rng.randint(1 if (filt.get(oid) and not ZERO_CHUNK_ON_FILTERED) else 0, 9)])
            nviews += 1
        elif u < 0.57:
            prog.append(['Reset', rng.choice(live)])
        elif u < 0.64:
            oid = rng.choice(live)
            prog.append(['DeepCopy', oid])
            live.append(nobj)
            typ[nobj] = typ[oid]
            filt[nobj] = filt.get(oid)
            nobj += 1
        elif u < 0.8 and nviews:
            prog.append(['Write', rng.randint(0, nviews - 1), rng.randint(0, 8), 900000000 + rng.randint(1, 99)])
        elif u < 0.86 and nviews:
            prog.append(['ReadView', rng.randint(0, nviews - 1)])
        elif u < 0.94:
            key = rng.randint(0, NKEY - 1)
            prog.append(['CachedCall', key, 6 + key])
            nviews += 1
        else:
            prog.append(['GlobalRandom'])
    return prog, kinds


def impl(case):
    if case['k'] == 'queue':
        return _queue_case(case['seed'])
    if case['k'] == 'gen':
        return _gen_case(case['seed'])
    if case['k'] == 'memo':
        return _memo_case(case['seed'])
    if case['k'] == 'memokeys':
        return _memokeys_case(case['salt'])
    from psiaudio import stim
    objs, views, out = [], [], []
    for i, o in enumerate(case['prog']):
        k = o[0]
        try:
            if k == 'MkFixed':
                objs.append(stim.FixedWaveform(FS, _wave(o[1], o[2])))
                out.append(['nothing'])
            elif k == 'MkCar':
                objs.append(_carrier(o[1]))
                out.append(['nothing'])
            elif k == 'MkGate':
                inner = objs[o[3]]
                assert inner is not None
                objs[o[3]] = None
                objs.append(stim.GateFactory(FS, o[1] / FS, o[2] / FS, inner))
                out.append(['nothing'])
            elif k == 'Next':
                kind = (case.get('kinds') or {}).get(str(i))
                n = np.int64(o[2]) if kind == 'np' else (np.float64(o[2]) if kind == 'f' else o[2])
                a = objs[o[1]].next(n)
                views.append(a)
                out.append(['vals', [float(v) for v in a]])
            elif k == 'Reset':
                objs[o[1]].reset()
                out.append(['nothing'])
            elif k == 'DeepCopy':
                objs.append(copy.deepcopy(objs[o[1]]))
                out.append(['nothing'])
            elif k == 'Write':
                try:
                    views[o[1]][o[2]] = float(o[3])
                    out.append(['nothing'])
                except (ValueError, IndexError):
                    out.append(['rejected'])
            elif k == 'ReadView':
                out.append(['vals', [float(v) for v in views[o[1]]]])
            elif k == 'CachedCall':
                a = _cached_result(o[1], o[2])
                views.append(a)
                out.append(['vals', [float(v) for v in a]])
            elif k == 'GlobalRandom':
                _disturb_global(len(out))
                out.append(['nothing'])
        except (AttributeError, TypeError, AssertionError):
            out.append(['raised'])
    return out


def _disturb_global(j):
    """someone else uses NumPy's global random state (seeded with the very seeds the generators use, drawn from, shuffled, restored)"""
    kind = j % 5
    if kind == 0:
        np.random.seed(j)
        np.random.uniform(size=3)
    elif kind == 1:
        np.random.seed(0)
    elif kind == 2:
        np.random.shuffle(np.arange(7))
        np.random.randint(0, 10, size=2)
    elif kind == 3:
        st = np.random.get_state()
        np.random.seed(1)
        np.random.random_sample(5)
        np.random.set_state(st)
    else:
        np.random.seed(None)
        np.random.standard_normal(2)


def _op(o):
    k = o[0]
    if k == 'GlobalRandom':
        return 'GlobalRandom'
    return f"{k} " + ' '.join(zlit(x) for x in o[1:])


def expr(case, res):
    if case['k'] != 'prog':
        return '([] : list Z)'
    p = listlit([_op(o) for o in _model_prog(case, res)])
    return f"(let p := {p} in run_prog p ++ [if isolation_test p then 1 else 0])"


def _model_prog(case, res):
    """the program as the model sees it: a memoised function without a length argument (wav file, filter coefficients)
    returns as many values as the implementation returned at its first call"""
    seen, prog = {}, []
    for o, r in zip(case['prog'], res):
        if o[0] == 'CachedCall':
            if o[1] not in seen:
                seen[o[1]] = len(r[1]) if (r[0] == 'vals' and o[1] % NKEY >= 5) else o[2]
            o = ['CachedCall', o[1], seen[o[1]]]
        prog.append(o)
    return prog


def _value(code, carriers, ncache):
    if code == 0:
        return 0.0
    if code >= 900000000:
        return float(code)
    if code >= 500000000:
        k, i = divmod(code - 500000000, 1000)
        return float(ncache[k][i])
    if code > 0:
        w, i = divmod(code, 1000000)
        return float(_wave(w - 1, i + 1)[i])
    c, i = divmod(-code, 1000000)
    return float(carriers(c - 1)[i])


def agree(case, res, mo):
    if case['k'] != 'prog':
        return None
    if mo[-1] != 1:
        return 'the executable form of C10_refines_pure is false on this program'
    mo = mo[:-1]
    cache = {}

    def carriers(c):
        if c not in cache:
            cache[c] = np.asarray(_carrier(c).next(400), dtype=float)
        return cache[c]
    ncache = {}
    for o in case['prog']:
        if o[0] == 'CachedCall' and o[1] not in ncache:
            ncache[o[1]] = _cached_uncached(o[1], o[2])
    fir_lo, fir_hi = 1000000 * (min(FIR_CARRIERS) + 1), 1000000 * (max(FIR_CARRIERS) + 2)
    pos = 0
    for i, (o, r) in enumerate(zip(case['prog'], res)):
        code, n = mo[pos], mo[pos + 1]
        vals = mo[pos + 2: pos + 2 + n]
        pos += 2 + n
        want = {1: 'vals', 2: 'rejected', 3: 'nothing', 4: 'raised'}[code]
        if r[0] != want:
            return f'op {i} {o}: implementation {r[0]}, model {want}'
        if want == 'vals':
            try:
                exp = [_value(v, carriers, ncache) for v in vals]
            except IndexError:
                return f'op {i} {o}: model returns {n} values, the un-memoised function fewer'
            if any(fir_lo <= -v < fir_hi for v in vals):
                bad = len(exp) != len(r[1]) or not np.allclose(exp, r[1], rtol=0, atol=1e-12)
            else:
                bad = exp != r[1]
            if bad:
                return f'op {i} {o}: implementation returned {r[1][:12]}, model {exp[:12]} (codes {vals[:12]})'
    return None


def nontrivial(case, res):
    if case['k'] != 'prog':
        return not res.get('skip')
    return any(o[0] in ('Write', 'DeepCopy', 'GlobalRandom') for o in case['prog'])


def oracle(case, res):
    if case['k'] != 'prog':
        return res.get('fail')
    from psiaudio import stim
    # memoised functions: every call returns the un-memoised value
    for o, r in zip(case['prog'], res):
        if o[0] == 'CachedCall' and r[0] == 'vals':
            want = [float(v) for v in _cached_uncached(o[1], o[2])]
            if r[1] != want:
                return f'memoised call {o} returned a value that differs from the function of its arguments (an earlier result was modified by the caller)'
    # replay: rebuild every object from its parameters, apply only its own next/reset history, compare streams
    hist = []      # per object: (builder, ops)
    for o, r in zip(case['prog'], res):
        k = o[0]
        if r[0] == 'raised':
            continue
        if k == 'MkFixed':
            hist.append([('fixed', o[1], o[2]), []])
        elif k == 'MkCar':
            hist.append([('car', o[1]), []])
        elif k == 'MkGate':
            inner = hist[o[3]]
            hist[o[3]] = None
            hist.append([('gate', o[1], o[2], inner[0]), []])      # the constructor resets the wrapped generator
        elif k == 'DeepCopy':
            src = hist[o[1]]
            hist.append([src[0], list(src[1])])
        elif k in ('Next', 'Reset') and hist[o[1]] is not None:
            h = hist[o[1]]
            if k == 'Next':
                # replay the object's own history on a freshly built object
                fresh = _build(h[0])
                _replay(fresh, h[1])
                want = [float(v) for v in fresh.next(o[2])]
                if r[0] == 'vals' and r[1] != want:
                    return (f'{o}: returned {r[1][:10]} but a generator built from the same parameters and given the same calls '
                            f'returns {want[:10]}')
                h[1].append(('next', o[2]))
            else:
                del h[1][:]                    # reset() must be as good as building the generator again: nothing to replay
    return None


def _build(b):
    from psiaudio import stim
    if b[0] == 'fixed':
        return stim.FixedWaveform(FS, _wave(b[1], b[2]))
    if b[0] == 'car':
        return _carrier(b[1])
    return stim.GateFactory(FS, b[1] / FS, b[2] / FS, _build(b[3]))


def _replay(obj, ops):
    for op in ops:
        if op[0] == 'inner':
            _replay(obj.input_factory, op[1])
        elif op[0] == 'next':
            obj.next(op[1])
        else:
            obj.reset()


def _filtered(cfg):
    return cfg['t'] in ('blnoise', 'firnoise', 'shaped', 'notch') or ('in' in cfg and _filtered(cfg['in']))


def _count(n, kind):
    return np.int64(n) if kind == 'np' else (np.float64(n) if kind == 'f' else n)


def _gen_script(rng, cfg):
    import stimcore
    lo = 0 if (ZERO_CHUNK_ON_FILTERED or not _filtered(cfg)) else 1
    kinds = [None, None, 'np'] + (['f'] if (cfg['t'] == 'fixed' or (stimcore.accepts_float(cfg) and cfg['t'] != 'notch')) else [])
    ops = []
    for _ in range(rng.randint(4, 14)):
        u = rng.random()
        if u < 0.45:
            ops.append(['next', rng.choice([lo, 1, 2, 3, 5, 8, 13, rng.randint(lo, 40)]), rng.choice(kinds)])
        elif u < 0.55:
            ops.append(['reset'])
        elif u < 0.65:
            ops.append(['copy', rng.random() < 0.5, rng.randint(1, 9)])
        elif u < 0.8:
            ops.append(['disturb', rng.randint(0, 99)])
        elif u < 0.92:
            ops.append(['other', rng.choice([0, 1, 4, 11])])
        else:
            ops.append(['memo', rng.randint(0, NKEY - 1)])
    if _filtered(cfg) and lo == 0:
        ops.insert(rng.randint(0, len(ops)), ['next', 0, rng.choice([None, 'np'])])     # an empty chunk must not disturb a filter
        ops.insert(0, ['next', rng.randint(1, 9), None])
    # every script ends with: some output, reset, output again (reset must restore everything the generator carries: offsets,
    # random state, filter state, the state of every nested generator)
    ops += [['next', rng.randint(max(lo, 1), 30), None], ['reset'], ['next', rng.randint(max(lo, 1), 30), None]]
    return ops


def _gen_case(seed):
    """ONE generator type of the whole catalogue (harness/stimcore.py: every class of stim.py incl. nested transforms): the stream of
    a generator that is disturbed in every way the property lists == the stream of a generator built afresh from the same
    parameters and given only the same next()/reset() calls"""
    import random
    import stimcore
    rng = random.Random(seed)
    fs = FS
    cat = stimcore.catalogue(fs, random.Random(0)) + [c for c in stimcore.catalogue_extra(fs) if 'preplay' in c]
    cfg = cat[seed % len(cat)]
    script = _gen_script(rng, cfg)
    # 'preplay': the wrapped input factory had been in use before it was handed to the constructor (which resets it):
    # the reference is built from a pristine input, "the same parameters" being what the property speaks of
    ref_cfg = {k: v for k, v in cfg.items() if k != 'preplay'}

    def reference():
        g = stimcore.mk(ref_cfg, fs)
        out = []
        for op in script:
            if op[0] == 'next':
                out.append(np.array(g.next(_count(op[1], op[2])), dtype=float))
            elif op[0] == 'reset':
                g = stimcore.mk(ref_cfg, fs)   # reset() must be as good as building the generator again
        return out
    try:
        stimcore.mk(cfg, fs).next(5)
    except ValueError as e:
        # a configuration the code refuses whatever is asked of it (rise time longer than the envelope, waveform too long to
        # repeat): nothing to compare
        return {'cfg': cfg['t'], 'skip': type(e).__name__, 'fail': None}
    want = reference()
    np.random.seed(seed % 50)
    g = stimcore.mk(cfg, fs)
    other = stimcore.mk(cfg, fs)           # same parameters, same seed: runs in between
    got, spare = [], []
    for op in script:
        if op[0] == 'next':
            a = g.next(_count(op[1], op[2]))
            got.append(np.array(a, dtype=float))
            stimcore.scribble(a)           # the caller owns what it was handed
        elif op[0] == 'reset':
            g.reset()
        elif op[0] == 'copy':
            c = copy.deepcopy(g)
            keep, drop = (c, g) if op[1] else (g, c)
            stimcore.scribble(drop.next(op[2]) if op[2] else np.zeros(1))     # the other one moves on (and may be reset)
            if op[2] % 2:
                drop.reset()
            spare.append(drop)
            g = keep
        elif op[0] == 'disturb':
            _disturb_global(op[1])
        elif op[0] == 'other':
            if op[1]:
                stimcore.scribble(other.next(op[1]))
            else:
                other.reset()
        elif op[0] == 'memo':
            stimcore.scribble(_cached_result(op[1], 6 + op[1]))
    again = reference()
    fail = None
    for k, (a, b, c) in enumerate(zip(got, want, again)):
        if not (np.array_equal(a, b) and np.array_equal(b, c)):
            which = 'a generator disturbed by other objects / global state / caller writes / deepcopy' if not np.array_equal(a, b) \
                else 'a generator built again later'
            fail = (f'{cfg["t"]} generator {cfg}: chunk {k} of {which} differs from the same parameters and calls on a fresh object '
                    f'({a[:6]} vs {b[:6]}); script {script}')
            break
    return {'cfg': cfg['t'], 'skip': None, 'fail': fail}


def _tr_half(e):
    return e * 0.5


def _memo_case(seed):
    """every memoised function, asked in random order with equal arguments of different kinds (int / float / NumPy scalar, positional /
    keyword, str / Path), the caller trying to write into every answer: each answer equals the un-memoised function of its arguments"""
    import random
    from pathlib import Path
    import stimcore
    from psiaudio import stim
    rng = random.Random(seed)
    wav = stimcore._wav_path(21, FS)
    num = lambda v: rng.choice([v, float(v), np.float64(v)] + ([int(v), np.int64(v)] if float(v) == int(v) else []))
    cnt = lambda v: rng.choice([int(v), np.int64(v), np.int32(v)])       # offsets and lengths are integers of any kind
    calls = []
    for _ in range(rng.randint(6, 14)):
        k = rng.randint(0, 9)
        if k == 0:
            n = rng.choice([9, 12])
            a = ('cosine-squared', num(1000), rng.choice([0.012, 0.013, 0.0124]), num(rng.choice([0.003, 0.002])), cnt(rng.choice([0, 0, 2])), num(0), cnt(n))
            calls.append((stim.envelope, a[:rng.randint(3, 7)], {}) if rng.random() < 0.5 else
                         (stim.envelope, (), dict(window=a[0], fs=a[1], duration=a[2], rise_time=a[3], samples=n)))
        elif k == 1:
            calls.append((stim.envelope, (rng.choice(['hann', 'blackman']), num(1000), rng.choice([0.01, 0.011]), None), {'transform': rng.choice([None, _tr_half])}))
        elif k == 2:
            calls.append((stim.cos2envelope, (num(1000), rng.choice([0.01, 0.011, 0.0104]), rng.choice([0.002, 0.003])), rng.choice([{}, {'offset': cnt(3), 'samples': cnt(8)}, {'start_time': 0.002}])))
        elif k == 3:
            calls.append((stim.sam_eq_power, (num(rng.choice([1, 0.5, 0])),), {}))
        elif k == 4:
            calls.append((stim.sam_eq_phase, (num(rng.choice([0, 0.002])), num(rng.choice([1, 0.5, 0])), rng.choice([1, -1])), {}))
        elif k == 5:
            calls.append((stim._sam_envelope, (cnt(rng.choice([0, 3])), cnt(rng.choice([9, 8])), num(1000), num(rng.choice([1, 0.5])), num(rng.choice([40, 40.5])), num(0), rng.choice([0.3, 0.31]), num(1)), {}))
        elif k == 6:
            calls.append((stim.sam_envelope, (cnt(rng.choice([0, 5])), cnt(7), num(1000), num(rng.choice([1, 0.5, 0.25])), num(rng.choice([40, 41])), rng.choice([0.002, 0.003]), True), {}))
        elif k == 7:
            calls.append((stim._calculate_bandlimited_noise_filter, (num(1000), num(rng.choice([100, 100.5])), num(200), num(50), num(400), num(1), num(rng.choice([80, 60]))), {}))
        elif k == 8:
            calls.append((stim.load_wav, (num(1000), rng.choice([wav, Path(wav)])),
                          rng.choice([{}, {'normalization': 'pe'}, {'normalization': 'rms'}, {'level': None, 'normalization': None}])))
        else:
            from psiaudio.calibration import FlatCalibration
            calls.append((stim.load_wav, (1000.0, wav, 0.0, _MEMO_CAL.setdefault('cal', FlatCalibration.unity())), {'normalization': 'pe'}))

    def same(a, b):
        if isinstance(a, tuple):
            return isinstance(b, tuple) and len(a) == len(b) and all(same(x, y) for x, y in zip(a, b))
        if isinstance(a, np.ndarray) or isinstance(b, np.ndarray):
            return np.array_equal(np.asarray(a, dtype=float), np.asarray(b, dtype=float))
        return a == b
    fail = None
    for f, args, kw in calls + calls[::-1]:
        r = f(*args, **kw)
        want = _unwrap(f)(*args, **kw)
        if not same(r, want):
            fail = f'{f.__name__}{args} {kw} returned {r!r:.200} but the function of these arguments is {want!r:.200}'
            break
        for a in (r if isinstance(r, tuple) else (r,)):
            if isinstance(a, np.ndarray):
                stimcore.scribble(a)
    return {'n': len(calls), 'fail': fail}


_MEMO_CAL = {}


class _IirCal:
    """a calibration that can design an equalising FIR (psiaudio's own calibrations have no get_iir): enough to exercise the
    memoised helper _calculate_bandlimited_noise_iir(fs, calibration, fl, fh)"""
    def get_iir(self, fs, fl, fh, duration):
        n = 7
        return np.cos(np.arange(n) * (fl / fs)) * (1.0 + fh / fs) + duration * 1e-3


def _memokey_groups(salt):
    """groups of memoised calls made one after the other in ONE process that a plausible bug in the memo key would confuse:
    same values under different keyword names, keyword order swapped, positional vs keyword forms of different parameters,
    different values with equal hash (-1 / -2; also -1.0 / -2.0) and equal values of different type (1 / 1.0 / True, 0 / 0.0 / False).
    `salt` varies an argument that is part of every key, so that each case starts from entries no earlier case has made."""
    from pathlib import Path
    import stimcore
    from psiaudio import stim
    from psiaudio.calibration import FlatCalibration
    w, fs = 'cosine-squared', 1000
    d = 0.012 + 0.001 * (salt % 9)          # envelope duration
    fm = 40 + salt                          # modulation frequency
    dl = 0.001 * (salt % 4)                 # SAM delay
    wav = stimcore._wav_path(21, FS)
    wavp = Path(wav) if salt % 2 else wav
    norm = ('pe', 'rms')[(salt // 2) % 2]
    cal = FlatCalibration.unity()           # a new object per case: hashed by identity
    ical = _IirCal()
    E, C2, SP, SPH, SE_, SE = stim.envelope, stim.cos2envelope, stim.sam_eq_power, stim.sam_eq_phase, stim._sam_envelope, stim.sam_envelope
    F, FI, LW = stim._calculate_bandlimited_noise_filter, stim._calculate_bandlimited_noise_iir, stim.load_wav
    fl = 100.0 + 0.75 * salt                # stays below the upper edge (200 Hz) for every salt of both tiers
    g = [
        # ---- envelope ----
        [(E, (w, fs), dict(duration=d, rise_time=0.003)), (E, (w, fs), dict(duration=d, start_time=0.003)),
         (E, (w, fs), dict(rise_time=0.003, duration=d)), (E, (w, fs, d, 0.003), {}), (E, (w, fs, d), dict(start_time=0.003))],
        [(E, (w, fs, d, 0.002), dict(offset=3, samples=8)), (E, (w, fs, d, 0.002), dict(samples=3, offset=8)),
         (E, (w, fs, d, 0.002, 3), dict(samples=8)), (E, (w, fs, d, 0.002, 8, 0, 3), {})],
        [(E, (w, fs), dict(duration=d, start_time=0.004)), (E, (w, fs), dict(duration=0.004, start_time=d)),
         (E, (w, fs), dict(start_time=d, duration=0.004))],
        [(E, (w, 1000, d, 0.002, 1), dict(samples=9)), (E, (w, 1000.0, d, 0.002, True), dict(samples=9)),
         (E, (w, fs, d, 0.002, 0), dict(samples=9)), (E, (w, fs, d, 0.002, False), dict(samples=9))],
        # ---- cos2envelope ----
        [(C2, (fs, d, 0.003), dict(offset=4, samples=9)), (C2, (fs, d, 0.003), dict(samples=4, offset=9)),
         (C2, (fs, d, 0.003, 4), dict(samples=9)), (C2, (fs, d, 0.003), dict(start_time=0.004, samples=9)),
         (C2, (fs, d, 0.003, 0, 0.004, 9), {})],
        [(C2, (fs,), dict(duration=d, rise_time=0.002)), (C2, (fs,), dict(duration=0.002 * 3, rise_time=0.002)),
         (C2, (fs,), dict(rise_time=d / 4, duration=d)), (C2, (fs, d), dict(rise_time=0.002)), (C2, (fs, d, 0.002), {})],
        [(C2, (fs, d, 0.003, -1), dict(samples=9)), (C2, (fs, d, 0.003, -2), dict(samples=9))],
        # ---- sam_eq_power / sam_eq_phase ----
        [(SP, (-1,), {}), (SP, (-2,), {}), (SP, (-1.0,), {}), (SP, (-2.0,), {}), (SP, (), dict(depth=-2)), (SP, (), dict(depth=-1))],
        [(SP, (1,), {}), (SP, (1.0,), {}), (SP, (True,), {}), (SP, (0,), {}), (SP, (0.0,), {}), (SP, (False,), {}),
         (SP, (), dict(depth=0.5)), (SP, (0.5,), {})],
        [(SPH, (dl, -1, 1), {}), (SPH, (dl, -2, 1), {}), (SPH, (dl, -1.0, -1), {}), (SPH, (dl, -2.0, -1), {})],
        [(SPH, (), dict(delay=0.5 + dl, depth=1, direction=1)), (SPH, (), dict(depth=0.5 + dl, delay=1, direction=1)),
         (SPH, (), dict(direction=1, depth=1, delay=0.5 + dl)), (SPH, (0.5 + dl, 1), dict(direction=1)), (SPH, (0.5 + dl,), dict(depth=1, direction=-1)),
         (SPH, (dl, 1, 1), {}), (SPH, (dl, 1.0, True), {}), (SPH, (dl, 0, 1), {}), (SPH, (dl, False, 1), {})],
        # ---- _sam_envelope / sam_envelope ----
        [(SE_, (-1, 6, fs, 1, fm, 0.002, 0.3, 1.1), {}), (SE_, (-2, 6, fs, 1, fm, 0.002, 0.3, 1.1), {})],
        [(SE_, (), dict(offset=3, samples=8, fs=fs, depth=1, fm=fm, delay=0.002, eq_phase=0.3, eq_power=1.1)),
         (SE_, (), dict(samples=3, offset=8, fs=fs, depth=1, fm=fm, delay=0.002, eq_phase=0.3, eq_power=1.1)),
         (SE_, (3, 8, fs, 1, fm, 0.002), dict(eq_phase=0.3, eq_power=1.1)), (SE_, (3, 8, fs, 1, fm, 0.002), dict(eq_phase=1.1, eq_power=0.3)),
         (SE_, (3, 8, fs, 1, fm, 0.002), dict(eq_power=1.1, eq_phase=0.3)), (SE_, (3, 8, fs, 1, fm, 0.002, 0.3, 1.1), {}),
         (SE_, (3, 8, fs, True, fm, 0.002, 0.3, 1.1), {}), (SE_, (3, 8, fs, 1.0, float(fm), 0.002, 0.3, 1.1), {})],
        [(SE, (-1, 6, fs, 1, fm, dl, True), {}), (SE, (-2, 6, fs, 1, fm, dl, True), {})],
        [(SE, (), dict(offset=2, samples=7, fs=fs, depth=1, fm=fm, delay=dl, equalize=True)),
         (SE, (), dict(samples=2, offset=7, fs=fs, depth=1, fm=fm, delay=dl, equalize=True)),
         (SE, (2, 7, fs), dict(depth=0.5, fm=fm, delay=dl, equalize=True)), (SE, (2, 7, fs), dict(fm=fm, depth=0.5, delay=dl, equalize=True)),
         (SE, (2, 7, fs, 1, fm, dl, 1), {}), (SE, (2, 7, fs, 1, fm, dl, 1.0), {}), (SE, (2, 7, fs, 1, fm, dl), dict(equalize=True))],
        # ---- the two filter-design helpers ----
        [(F, (fs, fl, 200.0, 50.0, 400.0, 1, 80), {}), (F, (fs, fl, 200.0, 50.0, 400.0, 1, 60), {}),
         (F, (fs, fl, 200.0, 50.0, 400.0), dict(passband_attenuation=1, stopband_attenuation=80)),
         (F, (fs, fl, 200.0, 50.0, 400.0), dict(stopband_attenuation=60, passband_attenuation=1)),
         (F, (fs, fl, 200.0), dict(fls=50.0, fhs=400.0, passband_attenuation=2, stopband_attenuation=80)),
         (F, (fs, fl, 200.0), dict(fhs=400.0, fls=50.0, stopband_attenuation=80, passband_attenuation=2)),
         (F, (fs, fl, 200.0, 50.0, 400.0, True, 80), {}), (F, (1000.0, fl, 200.0, 50.0, 400.0, 1.0, 80.0), {})],
        [(FI, (fs, ical), dict(fl=fl, fh=200.0)), (FI, (fs, ical), dict(fh=fl, fl=200.0)), (FI, (fs, ical), dict(fh=200.0, fl=fl)),
         (FI, (fs, ical, fl, 200.0), {}), (FI, (fs, ical, 200.0, fl), {}), (FI, (fs, ical, fl), dict(fh=200.0)),
         (FI, (fs, _IirCal(), fl, 200.0), {})],
        # ---- load_wav ----
        [(LW, (FS, wavp, -1, cal), dict(normalization=norm)), (LW, (FS, wavp, -2, cal), dict(normalization=norm)),
         (LW, (FS, wavp), dict(level=-2.0, calibration=cal, normalization=norm)), (LW, (FS, wavp), dict(calibration=cal, level=-1.0, normalization=norm)),
         (LW, (FS, wavp, 0, cal, norm), {}), (LW, (FS, wavp, False, cal, norm), {}), (LW, (FS, wavp, 1, cal, norm), {}), (LW, (FS, wavp, True, cal, norm), {})],
        [(LW, (FS, wavp), dict(normalization=norm)), (LW, (FS, wavp, None, None, norm), {}), (LW, (FS, wavp), dict(level=None, normalization=norm)),
         (LW, (FS, wavp), dict(calibration=None, normalization=norm)), (LW, (FS, wavp), {}), (LW, (FS, wavp, None), dict(normalization=None))],
    ]
    return g


def _memokeys_case(salt):
    from psiaudio import stim
    import stimcore

    def same(a, b):
        if isinstance(a, tuple):
            return isinstance(b, tuple) and len(a) == len(b) and all(same(x, y) for x, y in zip(a, b))
        if isinstance(a, np.ndarray) or isinstance(b, np.ndarray):
            a, b = np.asarray(a, dtype=float), np.asarray(b, dtype=float)
            return a.shape == b.shape and np.array_equal(a, b, equal_nan=True)
        return a == b or (a != a and b != b)
    n = 0
    for grp in _memokey_groups(salt):
        for rnd in range(2):               # second round: every entry exists by now
            for f, args, kw in (grp[::-1] if (salt + rnd) % 2 else grp):
                r = f(*args, **kw)
                want = _unwrap(f)(*args, **kw)
                n += 1
                if not same(r, want):
                    return {'n': n, 'fail': f'{f.__name__}{args} {kw} returned {r!r:.160}, but the function of these arguments is {want!r:.160} '
                                            f'(asked after {[(a, k) for _, a, k in grp]!r:.400})'}
                for a in (r if isinstance(r, tuple) else (r,)):
                    if isinstance(a, np.ndarray):
                        stimcore.scribble(a)
    return {'n': n, 'fail': None}


def _queue_sources(rng, fs, seed):
    """what gets appended: arrays of several dtypes / write flags and finite generators of every seeded and memoised kind"""
    import stimcore
    tone = {'t': 'tone', 'f': 100.0, 'level': 1.0}
    pool = [
        lambda: _wave(0, 6),
        lambda: (np.arange(5) * 3 - 7).astype(np.int16),
        lambda: stimcore.fixed_raw({'n': 7, 'ro': True}),
        lambda: stimcore.mk({'t': 'gate', 'start': 0, 'dur': 7, 'in': {'t': 'bbnoise', 'seed': seed % 11 + 1, 'level': 1.0}}, fs),
        lambda: stimcore.mk({'t': 'gate', 'start': 1, 'dur': 6, 'in': {'t': 'bbnoise', 'seed': 0, 'level': 1.0}}, fs),
        lambda: stimcore.mk({'t': 'env', 'window': 'cos2class', 'start': 0, 'dur': 8, 'rise': 2, 'in': tone}, fs),
        lambda: stimcore.mk({'t': 'gate', 'start': 0, 'dur': 9, 'in': {'t': 'blnoise', 'seed': seed % 3, 'level': 1.0, 'fl': 100.0, 'fh': 200.0}}, fs),
        lambda: stimcore.mk({'t': 'env', 'window': 'hann', 'start': 1, 'dur': 8, 'rise': 3,
                             'in': {'t': 'firnoise', 'seed': seed % 4, 'level': 1.0, 'fl': 100.0, 'fh': 200.0, 'ntaps': 31}}, fs),
        lambda: stimcore.mk({'t': 'gate', 'start': 0, 'dur': 6, 'in': {'t': 'shaped', 'seed': 0, 'level': 1.0, 'ntaps': 31}}, fs),
        lambda: stimcore.mk({'t': 'fixed', 'n': 21, 'cls': 'wav'}, fs),
        lambda: stimcore.mk({'t': 'fixed', 'n': 6}, fs),
        lambda: stimcore.mk({'t': 'gate', 'start': 0, 'dur': 10,
                             'in': {'t': 'sam', 'depth': 1.0, 'fm': 50.0, 'delay': 0.002, 'in': {'t': 'bbnoise', 'seed': 2, 'level': 1.0}}}, fs),
        lambda: stimcore.mk({'t': 'gate', 'start': 2, 'dur': 7,
                             'in': {'t': 'notch', 'f': 125.0, 'q': 1.33, 'in': {'t': 'bbnoise', 'seed': 3, 'level': 1.0}}}, fs),
        lambda: stimcore.mk({'t': 'repeat', 'n': 2, 'skip': 0, 'rate': fs / 9.0, 'delay': 0.0, 'in': {'t': 'fixed', 'n': 5}}, fs),
    ]
    picks = [rng.randrange(len(pool)) for _ in range(rng.randint(3, 4))]
    fir = any(k in (7, 8) for k in picks)      # FIR noise is chunk-invariant only up to rounding (1e-12 allowed by the property)
    return (lambda: [pool[k]() for k in picks]), fir


def _use_original(s, rng):
    """later use of an object that was appended: the queue must hold its own copy of everything the object reaches"""
    if isinstance(s, np.ndarray):
        if s.flags.writeable:
            s[...] = -5
        return
    u = rng.random()
    if u < 0.5:
        s.next(rng.randint(1, 9))
    elif u < 0.65:
        s.reset()
    elif u < 0.85 and hasattr(s, 'input_factory'):
        inner = s.input_factory
        inner = getattr(inner, 'input_factory', inner) if rng.random() < 0.5 else inner
        inner.next(rng.randint(1, 5))
    elif isinstance(getattr(s, 'waveform', None), np.ndarray) and s.waveform.flags.writeable:
        s.waveform[...] = -6
    else:
        s.next(2)


def _queue_case(seed):
    """queue.append / extend isolation, clone independence, blocked-random order vs the global random state"""
    import random
    from psiaudio import stim, queue as Q
    rng = random.Random(seed)
    fs = FS
    N = 120
    pol = rng.choice(['fifo', 'blocked_random', 'blocked_random', 'inter', 'grouped', 'blocked_fifo'])
    seedkind = rng.choice(['default', 'zero', 'int', 'np'])
    how = rng.choice(['append', 'append', 'extend', 'extend_lists'])
    mk_sources, fir = _queue_sources(rng, fs, seed)
    eq = (lambda a, b: a.shape == b.shape and np.allclose(a, b, rtol=0, atol=1e-12)) if fir else np.array_equal

    def build():
        if pol == 'blocked_random':
            kw = {'default': {}, 'zero': {'seed': 0}, 'int': {'seed': seed % 7}, 'np': {'seed': np.int64(seed % 5)}}[seedkind]
            q = Q.BlockedRandomSignalQueue(fs=fs, **kw)
        elif pol == 'grouped':
            q = Q.GroupedFIFOSignalQueue(group_size=2, fs=fs)
        else:
            q = {'fifo': Q.FIFOSignalQueue, 'inter': Q.InterleavedFIFOSignalQueue, 'blocked_fifo': Q.BlockedFIFOSignalQueue}[pol](fs=fs)
        srcs = mk_sources()
        if how == 'append':
            for s in srcs:
                q.append(s, 2, 1 / fs)
        elif how == 'extend':
            q.extend(srcs, 2, 1 / fs)
        else:
            q.extend(srcs, [2] * len(srcs), [1 / fs] * len(srcs), duration=[None] * len(srcs))
        return q, srcs
    ref, _ = build()
    want = ref.pop_buffer(N)
    # same queue, but the originals are used / modified after append (before and WHILE the queue plays them), the global RNG is
    # disturbed, and clones run interleaved
    q, srcs = build()
    for s in srcs:
        _use_original(s, rng)
    np.random.seed(rng.randint(0, 99))
    # a few samples into the first trial, clone; then read original and clone ALTERNATELY with different chunk
    # sizes (so that chunk boundaries cut through trials), writing into every returned buffer after copying it
    first = rng.randint(1, 5)
    head = q.pop_buffer(first)
    got, gotc = [head.copy()], [head.copy()]
    head[:] = -9.0
    c = q.clone()
    left, leftc = N - first, N - first
    late, late_at = None, rng.randint(first, N - 1)
    while left > 0 or leftc > 0:
        if rng.random() < 0.4:
            _use_original(rng.choice(srcs), rng)
        if rng.random() < 0.3:
            _disturb_global(rng.randint(0, 99))
        if left > 0 and (leftc == 0 or rng.random() < 0.5):
            n = min(left, rng.randint(1, 17))
            buf = q.pop_buffer(n)
            got.append(buf.copy())
            buf[:] = -7.0                      # the caller owns what it was handed
            np.random.uniform(size=rng.randint(0, 4))
            left -= n
            if late is None and N - left >= late_at and left > 0:
                late = (q.clone() if rng.random() < 0.5 else c.clone() if leftc == left else q.clone(), N - left)
        else:
            n = min(leftc, rng.randint(1, 23))
            buf = c.pop_buffer(n)
            gotc.append(buf.copy())
            buf[:] = -8.0
            leftc -= n
    got = np.concatenate(got)
    gotc = np.concatenate(gotc)
    fail = None
    what = f'{pol} queue ({how}, sources {[type(s).__name__ for s in srcs]})'
    if not eq(got, want):
        fail = f'{what}: output depends on later use of the appended originals / the global random state / chunking'
    elif not eq(gotc, want):
        fail = f'cloned {what} does not evolve independently of its original'
    elif late is not None and not eq(late[0].pop_buffer(N - late[1]), want[late[1]:]):
        fail = f'{what} cloned after {late[1]} samples does not continue like its original'
    return {'pol': pol, 'how': how, 'fail': fail}


def distribution(cases, results):
    d = {}
    for c, r in zip(cases, results):
        if c['k'] != 'prog':
            kk = c['k'] + ''.join(f' {r.get(f)}' for f in ('pol', 'how', 'cfg') if isinstance(r, dict) and r.get(f))
            d[kk] = d.get(kk, 0) + 1
            if isinstance(r, dict) and r.get('skip'):
                d['gen skipped (configuration refused)'] = d.get('gen skipped (configuration refused)', 0) + 1
        else:
            for o in c['prog']:
                kk = o[0] + (f' {o[1]}' if o[0] in ('MkCar', 'CachedCall') else '')
                d[kk] = d.get(kk, 0) + 1
            for v in (c.get('kinds') or {}).values():
                if v:
                    d['Next count ' + v] = d.get('Next count ' + v, 0) + 1
    return d


# =====================================================================================================================
# ADDITION (memoobj): memoisation over MUTABLE argument objects - model coq/Determ/ModelMemo.v, proofs Determ/ProofsMemo.v.
# Everything above is unchanged; the functions of the harness interface are wrapped so that the new case kind 'memoobj' is
# generated after, and handled apart from, the existing kinds.
#
# A case is a program over 1-3 calibration objects (Flat / Interp / Point, different 1 kHz sensitivities and gains):
#   ['new', cls, sens, gain]                 a calibration                                  model: NewObj (gain - sens)
#   ['set', oid, gain, how]                  cal.set_fixed_gain(g) / cal.fixed_gain = g            SetState oid (gain - sens_oid)
#   ['call', file, norm, level, oid|None]    stim.load_wav(FS, wav, level, cal, norm)              Call 0 [file+1; norm; level; Ref oid]
#   ['mkfactory', file, norm, level, oid]    f = stim.WavFileFactory(FS, wav, level, cal, norm)    (nothing: the property is lazy)
#   ['waveform', fid]                        f.waveform, possibly long after the factory was made  Call 0 [...the factory's arguments...]
# Each call is summarised by the scaling it applied to the file (dB, an integer by construction) and by WHICH array object it
# returned (index of the first call of the program that returned the very same object); both are compared with the
# key_by_value model.  Oracle: each call's array equals a fresh un-memoised computation for a FRESH calibration object with the
# same parameters and the same current gain.
REQUIRES = REQUIRES + ['Determ.ModelMemo']
RULE += (' (3) memoobj: random and hand-written programs over 1-3 calibration objects (FlatCalibration / InterpCalibration / PointCalibration, '
         'different sensitivities and gains) interleaving set_fixed_gain(g) / .fixed_gain = g with stim.load_wav(...) and (long-lived) '
         'stim.WavFileFactory(...).waveform on two tiny wav files, three normalisations, several levels, with and without calibration: the '
         'scaling applied by every call and the identity of the array object it returns are compared with the key_by_value model '
         '(coq/Determ/ModelMemo.v wav_out), and every returned array must equal the un-memoised computation for a fresh calibration '
         'with the same parameters.')
TRUSTED = TRUSTED + ['harness/C10.py memoobj: state of a calibration as seen by load_wav = fixed_gain - sensitivity(1 kHz) (integers), '
                     'scaling read off the returned array as 20*log10(result / unscaled file)']
ASSUMPTIONS = ASSUMPTIONS + ['memoobj: a calibration changes only through set_fixed_gain / assignment to .fixed_gain (the sensitivity table of an '
                             'InterpCalibration is fixed at construction)']

_MO_NORMS = [None, 'pe', 'rms']
_MO_WAVS = [21, 13]
_MO_CLASSES = ['flat', 'interp', 'point']


def _mo_cal(cls, sens, gain):
    from psiaudio import calibration as C
    if cls == 'flat':
        return C.FlatCalibration(float(sens), fixed_gain=gain)
    if cls == 'interp':
        # 1 kHz is the lower knot of the only segment: the interpolated sensitivity is exactly `sens`
        return C.InterpCalibration([1000.0, 4000.0], [float(sens), float(sens) + 7.0], fixed_gain=gain)
    return C.PointCalibration([500.0, 1000.0], [float(sens) - 4.0, float(sens)], fixed_gain=gain)


def _mo_random_prog(rng):
    prog, cals, used, facs = [], [], set(), []
    ncal = rng.randint(1, 3)

    def new():
        prog.append(['new', rng.choice(_MO_CLASSES), rng.choice([0, 0, 3, -2]), rng.randint(-3, 3)])
        cals.append(prog[-1])
    new()
    for _ in range(rng.randint(5, 16)):
        u = rng.random()
        if u < 0.1 and len(cals) < ncal:
            new()
        elif u < 0.35:
            # mostly objects that were already used (the interesting case), values close together so that equal scalings recur
            pool = [o for o in range(len(cals)) if o in used] or list(range(len(cals)))
            oid = rng.choice(pool if rng.random() < 0.8 else list(range(len(cals))))
            g = rng.randint(-3, 3)
            prog.append(['set', oid, rng.choice([g, float(g)]), rng.choice(['call', 'attr'])])
        elif u < 0.75:
            oid = None if rng.random() < 0.12 else rng.randrange(len(cals))
            prog.append(['call', rng.randint(0, 1) if rng.random() < 0.3 else 0, rng.choice([0, 1, 1, 2]),
                         None if oid is None else rng.randint(-2, 2), oid])
            if oid is not None:
                used.add(oid)
        elif u < 0.85 or not facs:
            oid = rng.randrange(len(cals))
            prog.append(['mkfactory', 0, rng.choice([1, 1, 2]), rng.randint(-2, 2), oid])
            facs.append(oid)
        else:
            fid = rng.randrange(len(facs))
            prog.append(['waveform', fid])
            used.add(facs[fid])
    return prog


_MO_HAND = [
    # the witness of C10_memo_by_identity_refuted: same object, gain changed between two calls
    [['new', 'flat', 0, 0], ['call', 0, 1, 5, 0], ['set', 0, 1, 'call'], ['call', 0, 1, 5, 0]],
    [['new', 'interp', 3, 0], ['call', 0, 1, 2, 0], ['set', 0, 2, 'attr'], ['call', 0, 1, 2, 0], ['set', 0, 0, 'call'], ['call', 0, 1, 2, 0]],
    [['new', 'point', -2, 1], ['call', 0, 2, 0, 0], ['set', 0, -1.0, 'call'], ['call', 0, 2, 0, 0]],
    # a WavFileFactory made before the gain changes, read before and after
    [['new', 'flat', 0, 0], ['mkfactory', 0, 1, 0, 0], ['waveform', 0], ['set', 0, 3, 'call'], ['waveform', 0], ['call', 0, 1, 0, 0],
     ['set', 0, 0, 'attr'], ['waveform', 0]],
    # two objects with equal values share one entry; a level change that cancels a gain change is the same scaling
    [['new', 'flat', 0, 2], ['new', 'interp', 3, 5], ['call', 0, 1, 1, 0], ['call', 0, 1, 1, 1], ['set', 1, 4, 'call'], ['call', 0, 1, 2, 1],
     ['call', 0, 1, 1, 1], ['call', 0, 1, None, None], ['call', 0, 1, None, None]],
    # the other wav file, no normalisation, gain set before first use (harmless under either discipline)
    [['new', 'point', 0, 0], ['set', 0, 2, 'attr'], ['call', 1, 0, 1, 0], ['call', 1, 0, 1, 0], ['call', 0, 0, 1, 0]],
]


def _mo_model_prog(prog, factory_fun=0):
    """the program as coq/Determ/ModelMemo.v sees it.  factory_fun: the memo table WavFileFactory.waveform ends up in - the same as
    load_wav's in the repaired code (both call _load_wav positionally); before the repair the property passed normalization= by keyword,
    which fast_cache keeps apart from the positional form (pass 1 to compare that code with wav_out_identity)"""
    ops, sens, facs = [], [], []
    for o in prog:
        if o[0] == 'new':
            sens.append(o[2])
            ops.append(f'NewObj {zlit(int(o[3]) - o[2])}')
        elif o[0] == 'set':
            ops.append(f'SetState {zlit(o[1])} {zlit(int(o[2]) - sens[o[1]])}')
        elif o[0] == 'mkfactory':
            facs.append(o)
        else:
            c = o if o[0] == 'call' else facs[o[1]]
            _, file, norm, level, oid = c
            fun = 0 if o[0] == 'call' else factory_fun
            if oid is None:
                ops.append(f'Call {fun} [AVal {zlit(file + 1)}; AVal {zlit(norm)}]')
            else:
                ops.append(f'Call {fun} [AVal {zlit(file + 1)}; AVal {zlit(norm)}; AVal {zlit(level)}; ARef {zlit(oid)}]')
    return ops


def _mo_fresh(stim, path, norm, level, calp):
    """the function of the argument VALUES, computed without any memo table for a calibration object nobody has seen"""
    fresh = None if calp is None else _mo_cal(*calp)
    if hasattr(stim, '_load_wav'):
        sf = None if fresh is None else np.float64(fresh.get_sf(1e3, level))
        return np.array(_unwrap(stim._load_wav)(FS, path, sf, norm))
    return np.array(_unwrap(stim.load_wav)(FS, path, level, fresh, norm))       # trees where load_wav itself carries the memo table


def _memoobj_case(prog):
    import logging
    import stimcore
    from psiaudio import stim
    logging.getLogger('psiaudio.stim').setLevel(logging.ERROR)      # the un-memoised loader logs a warning per call
    cals, params, facs, facp, out, held, fail = [], [], [], [], [], [], None
    for i, o in enumerate(prog):
        if o[0] == 'new':
            cals.append(_mo_cal(o[1], o[2], o[3]))
            params.append([o[1], o[2], o[3]])
            out.append(['nothing'])
        elif o[0] == 'set':
            if o[3] == 'call':
                cals[o[1]].set_fixed_gain(o[2])
            else:
                cals[o[1]].fixed_gain = o[2]
            params[o[1]][2] = o[2]
            out.append(['nothing'])
        elif o[0] == 'mkfactory':
            _, file, norm, level, oid = o
            facs.append(stim.WavFileFactory(FS, stimcore._wav_path(_MO_WAVS[file], FS), level, cals[oid], _MO_NORMS[norm]))
            facp.append(o)
        else:
            if o[0] == 'call':
                _, file, norm, level, oid = o
                path = stimcore._wav_path(_MO_WAVS[file], FS)
                a = stim.load_wav(FS, path, level, None if oid is None else cals[oid], _MO_NORMS[norm])
            else:
                _, file, norm, level, oid = facp[o[1]]
                path = stimcore._wav_path(_MO_WAVS[file], FS)
                a = facs[o[1]].waveform
            want = _mo_fresh(stim, path, _MO_NORMS[norm], level, None if oid is None else tuple(params[oid]))
            plain = _mo_fresh(stim, path, _MO_NORMS[norm], None, None)
            j = int(np.argmax(np.abs(plain)))
            ratio = float(a[j]) / float(plain[j]) if np.shape(a) == np.shape(plain) else float('nan')
            db = 20 * np.log10(ratio) if ratio > 0 else float('nan')
            dbi = int(round(db)) if np.isfinite(db) and abs(db - round(db)) < 1e-3 else None
            same = next((k for k, h in enumerate(held) if h is a), len(held))
            held.append(a)
            out.append(['res', file, norm, dbi, same, oid is not None])
            if fail is None and not (np.shape(a) == np.shape(want) and np.array_equal(np.asarray(a), want)):
                g = None if oid is None else params[oid]
                fail = (f'op {i} {o}: load_wav / WavFileFactory.waveform with level {level} and calibration {g} (class, sensitivity, CURRENT gain) '
                        f'returned the file scaled by {dbi if dbi is not None else db} dB, but the function of these argument values scales it by '
                        f'{None if oid is None else level - g[1] + g[2]} dB (first samples {np.asarray(a)[:4]} vs {want[:4]}): the result depends on what was '
                        f'done with the calibration object before; program {prog}')
    return {'out': out, 'fail': fail}


def _mo_agree(case, res, mo):
    if mo[-1] != 1:
        return 'the executable form of C10_memo_by_value_pure is false on this program'
    mo = mo[:-1]
    out = res['out']
    if len(mo) != 3 * len(out):
        return f'model has {len(mo) // 3} observations, implementation {len(out)}'
    first, ncall = {}, 0
    for n, r in enumerate(out):
        code, val, sid = mo[3 * n: 3 * n + 3]
        if r[0] == 'nothing':
            if code != 3:
                return f'observation {n}: implementation returned nothing, model code {code}'
            continue
        if code != 1:
            return f'observation {n}: implementation returned an array, model code {code}'
        file, rest = divmod(val, 1000000)
        norm, s = divmod(rest, 10000)
        scaled = s != 9999
        want = ['res', file - 1, norm, (s - 5000) if scaled else 0, first.setdefault(sid, ncall), scaled]
        ncall += 1
        if r != want:
            return (f'observation {n}: implementation {r}, key_by_value model {want} '
                    '(file, normalisation, scaling in dB, first call returning the same array object, calibrated)')
    return None


def _mo_stale_risk(prog):
    """the program mutates a calibration after it was used as an argument (where key_by_identity goes wrong)"""
    used, facs = set(), []
    for o in prog:
        if o[0] == 'call' and o[4] is not None:
            used.add(o[4])
        elif o[0] == 'mkfactory':
            facs.append(o[4])
        elif o[0] == 'waveform':
            used.add(facs[o[1]])
        elif o[0] == 'set' and o[1] in used:
            return True
    return False


_cases0, _impl0, _expr0, _agree0, _nontrivial0, _distribution0 = cases, impl, expr, agree, nontrivial, distribution


def cases(tier, rng):
    yield from _cases0(tier, rng)
    for p in _MO_HAND:
        yield {'k': 'memoobj', 'prog': p}
    for _ in range(54 if tier == 'quick' else 900):
        yield {'k': 'memoobj', 'prog': _mo_random_prog(rng)}


def impl(case):
    return _memoobj_case(case['prog']) if case['k'] == 'memoobj' else _impl0(case)


def expr(case, res):
    if case['k'] == 'memoobj':
        return f"(wav_out {listlit(_mo_model_prog(case['prog']))})"
    return _expr0(case, res)


def agree(case, res, mo):
    return _mo_agree(case, res, mo) if case['k'] == 'memoobj' else _agree0(case, res, mo)


def nontrivial(case, res):
    return _mo_stale_risk(case['prog']) if case['k'] == 'memoobj' else _nontrivial0(case, res)


def distribution(cases, results):
    d = _distribution0(cases, results)
    for c in cases:
        if c['k'] == 'memoobj':
            for o in c['prog']:
                kk = 'memoobj ' + o[0] + (f' {o[1]}' if o[0] == 'new' else f' {o[3]}' if o[0] == 'set' else '')
                d[kk] = d.get(kk, 0) + 1
            if _mo_stale_risk(c['prog']):
                d['memoobj programs mutating a used calibration'] = d.get('memoobj programs mutating a used calibration', 0) + 1
    return d
# ================================================= end of the memoobj addition =========================================


# ================================================= ADDITION (calshare) ================================================
# A stimulus factory holds a calibration OBJECT.  copy.deepcopy / queue.append / queue.extend / queue.clone must give the
# copy its own calibration: changing the original's fixed gain afterwards (set_fixed_gain or assignment) must not reach
# the copy, the queued stimulus or the cloned queue.  Oracle only (the reference is a fresh factory built with the gain in
# force when the copy was taken); everything above is unchanged, the interface functions are wrapped once more.
_cases1, _impl1, _nontrivial1, _distribution1 = cases, impl, nontrivial, distribution

RULE += (' (4) calshare: a factory with a Flat / Interp / Point calibration is deep-copied, appended / extended to a queue or its queue is '
         'cloned; then the ORIGINAL calibration gets another fixed gain; the copy / queued stimulus / clone must still produce the stream of '
         'the gain in force when it was taken (tone, cos2-gated tone, click, chirp, broadband noise factories).')


def _calshare_case(seed):
    import copy
    import random
    from psiaudio import stim, calibration as C, queue as Q
    rng = random.Random(seed)
    fs, N = 100000.0, 64
    ck = rng.choice(['flat', 'interp', 'point'])
    g0 = rng.choice([0.0, 3.0, -10.0])
    g1 = g0 + rng.choice([20.0, -6.0, 12.5])

    def mkcal(g):
        if ck == 'flat':
            return C.FlatCalibration(94.0, fixed_gain=g)
        if ck == 'interp':
            return C.InterpCalibration(np.array([0.0, 1000.0, 10000.0, 100000.0]), np.array([90.0, 94.0, 100.0, 97.0]), fixed_gain=g)
        return C.PointCalibration(np.array([1000.0, 2000.0]), np.array([94.0, 97.0]), fixed_gain=g)
    kinds = ['tone', 'cos2'] + (['click', 'chirp', 'noise'] if ck != 'point' else [])     # a point calibration knows 1 and 2 kHz only
    fk = rng.choice(kinds)

    def mk(cal):
        if fk == 'tone':
            return stim.ToneFactory(fs, 1000.0, 60.0, 0, calibration=cal)
        if fk == 'cos2':
            return stim.Cos2EnvelopeFactory(fs, N / fs, 8 / fs, stim.ToneFactory(fs, 2000.0, 50.0, 0, calibration=cal))
        if fk == 'click':
            return stim.ClickFactory(fs, 4 / fs, 70.0, 1, cal)
        if fk == 'chirp':
            return stim.ChirpFactory(fs, 1000.0, 4000.0, N / fs, 60.0, cal, window='hann', equalize=False)
        return stim.BroadbandNoiseFactory(fs, 60.0, seed=3, calibration=cal)
    cal = mkcal(g0)
    f = mk(cal)
    if rng.random() < 0.5:
        f.next(rng.choice([1, 7, N]))               # the original may already have been used
    ref_f = mk(mkcal(g0))
    ref_f.reset()
    ref = np.asarray(ref_f.next(N), dtype=float)
    how = rng.choice(['deepcopy', 'append', 'extend', 'clone', 'clone_used'])
    if how == 'deepcopy':
        g = copy.deepcopy(f)
    else:
        q = Q.FIFOSignalQueue(fs)
        if how == 'extend':
            q.extend([f], 1)
        else:
            q.append(f, 1)                      # one trial: a finite stimulus is followed by silence, as in the reference
        if how == 'clone_used':
            q.pop_buffer(5)
        q2 = q.clone() if how.startswith('clone') else None
    if rng.random() < 0.5:
        cal.set_fixed_gain(g1)
    else:
        cal.fixed_gain = g1
    if how == 'deepcopy':
        g.reset()
        y = np.asarray(g.next(N), dtype=float)
    elif how == 'clone_used':
        y = np.concatenate([ref[:5], np.asarray(q2.pop_buffer(N - 5), dtype=float)])   # the clone continues the trial in progress
    else:
        y = np.asarray((q2 or q).pop_buffer(N), dtype=float)
    what = f'{fk} factory, {ck} calibration, gain {g0} -> {g1} dB on the original after {how}'
    if y.shape != ref.shape:
        return {'fail': f'{what}: {y.shape} samples instead of {ref.shape}', 'nt': True}
    if not np.array_equal(y, ref):
        r = float(np.max(np.abs(y)) / max(float(np.max(np.abs(ref))), 1e-300))
        return {'fail': f'{what}: the copy follows the ORIGINAL calibration (peak ratio {r:.6g} to the stream at the gain in force when it was taken)',
                'nt': True}
    # the original itself does take up the new gain (otherwise the case shows nothing)
    f.reset()
    moved = not np.array_equal(np.asarray(f.next(N), dtype=float), ref)
    return {'fail': None, 'nt': bool(moved)}


def cases(tier, rng):
    yield from _cases1(tier, rng)
    for _ in range(60 if tier == 'quick' else 1200):
        yield {'k': 'calshare', 'seed': rng.randint(0, 10 ** 6)}


def impl(case):
    return _calshare_case(case['seed']) if case['k'] == 'calshare' else _impl1(case)


def nontrivial(case, res):
    return bool(res.get('nt')) if case['k'] == 'calshare' else _nontrivial1(case, res)


def distribution(cases, results):
    d = _distribution1([c for c in cases if c['k'] != 'calshare'], [r for c, r in zip(cases, results) if c['k'] != 'calshare'])
    d['calshare cases'] = sum(1 for c in cases if c['k'] == 'calshare')
    d['calshare cases where the original takes up the new gain'] = sum(1 for c, r in zip(cases, results)
                                                                      if c['k'] == 'calshare' and isinstance(r, dict) and r.get('nt'))
    return d
# ================================================= end of the calshare addition ========================================


# ================================================= translator tie of the array handling (aliasing) ====================
# coq/gen/DetermGen.v is regenerated from $PSIAUDIO_REPO/psiaudio/stim.py on every run (translate/pydeterm2coq.py: a fail-closed
# ALIASING translator - which array a statement hands on is a view of an existing storage, a fresh array, or an in-place write -
# plus a self-test of the translation against the real methods on real arrays: values, np.shares_memory, flags.writeable, object
# identity); coq/Determ/ProofsTie.v proves the regenerated definitions equal to the model of coq/Determ/Model.v (all repairs on),
# and Props/C10.v restates C10_refines_pure / C10_cached_pure over programs run with them (C10_source_*).
def translate(repo):
    from translate import pydeterm2coq
    return pydeterm2coq.hook(repo)


TRUSTED = TRUSTED + ['translate/pydeterm2coq.py (fail-closed ast translator of the array handling of fast_cache\'s wrapper, FixedWaveform.next / '
                     'reset, GateFactory.next, Transform.reset, ToneFactory.next / reset, SilenceFactory.next / reset to coq/gen/DetermGen.v; '
                     'its IR is run by a small interpreter against the real code on every run) with its NumPy aliasing table, whose meaning is '
                     'coq/Determ/TieLib.v: basic slicing -> a view; np.zeros / np.full / np.concatenate / .copy() / np.array -> a fresh writable '
                     'array; np.asarray / np.ascontiguousarray on an ndarray -> the same object; slice assignment -> a write through the view; '
                     'setflags(write=False) -> the storage is read-only; a fresh array that never leaves the function is carried by value; '
                     'dict / tuple / sorted / isinstance of the memo wrapper as pycache / pyval / pyobj',
                     'pinned, not translated (a change of their text breaks the tie): `samples = int(samples)`, the one-shot carrier call of '
                     'ToneFactory.next and the arithmetic tail of tone() (a fresh array), `self.input_factory.next(samples)` / `.reset()` '
                     '(dynamic dispatch, modelled by gen_onext / gen_oreset of Determ/ProofsTie.v), `result = f(*args, **kw)` (a memoised '
                     'function builds arrays nobody else holds), the closure of fast_cache (cache = {}, kwd_marker = object(), @wraps(f)), '
                     'the class headers deciding which reset() a GateFactory runs, `self.complete = False`']
