"""C10 - generation is deterministic and isolated.  Model: coq/Determ/Model.v (aliasing heap), Spec.v (pure reference)."""
import copy
import numpy as np
from vlib import zlit, listlit

PROP = 'C10'
REQUIRES = ['Determ.Model', 'Determ.Spec']
RULE = ('seeded random programs of 4-25 operations over REAL objects: FixedWaveform / ToneFactory / SilenceFactory / BroadbandNoiseFactory, '
        'GateFactory wrapping them, next(), reset(), copy.deepcopy, in-place writes by the caller into every array it was handed (results of next() '
        'and of the memoised functions envelope / cos2envelope / sam_envelope), re-reads of held arrays, np.random.seed/uniform in between; plus '
        'hand-written programs for each aliasing path; plus queue programs (append then mutate/advance the original, clone, interleaved use, '
        'blocked-random order vs global seed) judged by the oracle. Non-trivial: the program contains a caller write or a deepcopy or global-random use.')
TRUSTED = ['harness/C10.py (program generator; mapping of model value codes to doubles via one-shot carriers and the un-memoised function)',
           'CPython/NumPy view semantics as modelled in coq/Determ/Model.v (slices are views, np.concatenate/.copy() allocate, read-only flag rejects writes)']
ASSUMPTIONS = ['the caller keeps no reference to the array a FixedWaveform was built from (mutating a constructor argument is a different parameter)',
               'an inner generator wrapped by a gate is not used directly afterwards',
               'that real objects have no hidden shared state beyond what the model lists is what the correspondence probes; it is not proved']
FS = 1000.0


def _carrier(c):
    from psiaudio import stim
    k = c % 3
    if k == 0:
        return stim.ToneFactory(FS, 50.0 + 7 * c, 1.0 + 0.1 * c)
    if k == 1:
        return stim.SilenceFactory(fill_value=2 + c)
    return stim.BroadbandNoiseFactory(FS, 1.0, seed=c // 3)      # c = 2 -> seed 0 (a falsy seed is still a seed)


def _wave(w, n):
    return (np.arange(n, dtype=np.double) + 1.0) * 0.25 + 10.0 * (w + 1)


def _cached_args(key, n):
    """(function, args) memoised under `key`; n is part of the arguments"""
    from psiaudio import stim
    k = key % 3
    if k == 0:
        return stim.envelope, ('cosine-squared', FS, (10 + key) / FS, 3 / FS, 0, 0, n)
    if k == 1:
        return stim.cos2envelope, (FS, (12 + key) / FS, 4 / FS, 1, 2 / FS, n)
    return stim.sam_envelope, (key, n, FS, 1.0, 40.0 + key, 2 / FS, True)


def _cached_uncached(key, n):
    f, args = _cached_args(key, n)
    g = f
    while hasattr(g, '__wrapped__'):
        g = g.__wrapped__
    if f.__name__ == 'cos2envelope':
        from psiaudio import stim
        e = stim.envelope
        while hasattr(e, '__wrapped__'):
            e = e.__wrapped__
        fs, dur, rise, off, start, samples = args
        return np.array(e('cosine-squared', fs, dur, rise, off, start, samples), dtype=float)
    if f.__name__ == 'sam_envelope':
        from psiaudio import stim
        off, samples, fs, depth, fm, delay, eq = args
        inner = stim._sam_envelope
        while hasattr(inner, '__wrapped__'):
            inner = inner.__wrapped__
        return np.array(inner(off, samples, fs, depth, fm, delay, stim.sam_eq_phase(delay, depth, 1), stim.sam_eq_power(depth)), dtype=float)
    return np.array(g(*args), dtype=float)


def cases(tier, rng):
    quick = tier == 'quick'
    hand = [
        [['MkFixed', 0, 6], ['MkGate', 1, 3, 0], ['Next', 1, 4], ['Write', 0, 2, 900000001], ['Reset', 1], ['Next', 1, 4], ['Next', 1, 9]],
        [['MkFixed', 1, 8], ['Next', 0, 3], ['Write', 0, 0, 900000005], ['Reset', 0], ['Next', 0, 8]],
        [['MkFixed', 2, 5], ['Next', 0, 5], ['Write', 0, 4, 900000006], ['DeepCopy', 0], ['Reset', 0], ['Reset', 1], ['Next', 1, 5], ['Next', 0, 7]],
        [['CachedCall', 0, 10], ['Write', 0, 5, 900000007], ['CachedCall', 0, 10], ['ReadView', 0]],
        [['CachedCall', 1, 14], ['CachedCall', 2, 9], ['Write', 1, 0, 900000008], ['CachedCall', 2, 9], ['CachedCall', 1, 14]],
        [['MkCar', 2], ['Next', 0, 4], ['GlobalRandom'], ['MkCar', 2], ['Next', 1, 4], ['GlobalRandom'], ['Next', 0, 3], ['Next', 1, 3], ['Reset', 0], ['Next', 0, 7]],
        [['MkCar', 5], ['DeepCopy', 0], ['Next', 0, 5], ['GlobalRandom'], ['Next', 1, 5], ['Write', 0, 1, 900000009], ['Next', 1, 2], ['Next', 0, 2]],
    ]
    for p in hand:
        yield {'k': 'prog', 'prog': p}
    for _ in range(400 if quick else 8000):
        yield {'k': 'prog', 'prog': _random_prog(rng)}
    for _ in range(40 if quick else 600):
        yield {'k': 'queue', 'seed': rng.randint(0, 10 ** 6)}


def _random_prog(rng):
    prog, nobj, live, nviews, nwave = [], 0, [], 0, 0
    for _ in range(rng.randint(4, 25)):
        u = rng.random()
        if u < 0.12 or not live:
            if rng.random() < 0.55:
                prog.append(['MkFixed', nwave, rng.randint(0, 12)])
                nwave += 1
            else:
                prog.append(['MkCar', rng.randint(0, 8)])
            live.append(nobj)
            nobj += 1
        elif u < 0.2:
            oid = rng.choice(live)
            prog.append(['MkGate', rng.randint(0, 6), rng.randint(0, 10), oid])
            live.remove(oid)
            live.append(nobj)
            nobj += 1
        elif u < 0.5:
            prog.append(['Next', rng.choice(live), rng.randint(0, 9)])
            nviews += 1
        elif u < 0.57:
            prog.append(['Reset', rng.choice(live)])
        elif u < 0.64:
            prog.append(['DeepCopy', rng.choice(live)])
            live.append(nobj)
            nobj += 1
        elif u < 0.8 and nviews:
            prog.append(['Write', rng.randint(0, nviews - 1), rng.randint(0, 8), 900000000 + rng.randint(1, 99)])
        elif u < 0.86 and nviews:
            prog.append(['ReadView', rng.randint(0, nviews - 1)])
        elif u < 0.94:
            key = rng.randint(0, 5)
            prog.append(['CachedCall', key, 6 + key])
            nviews += 1
        else:
            prog.append(['GlobalRandom'])
    return prog


def impl(case):
    if case['k'] == 'queue':
        return _queue_case(case['seed'])
    from psiaudio import stim
    objs, views, out = [], [], []
    for o in case['prog']:
        k = o[0]
        try:
            if k == 'MkFixed':
                objs.append(stim.FixedWaveform(FS, _wave(o[1], o[2])))
                out.append(['nothing'])
            elif k == 'MkCar':
                objs.append(_carrier(o[1]))
                out.append(['nothing'])
            elif k == 'MkGate':
                inner = objs[o[3]]
                assert inner is not None
                objs[o[3]] = None
                objs.append(stim.GateFactory(FS, o[1] / FS, o[2] / FS, inner))
                out.append(['nothing'])
            elif k == 'Next':
                a = objs[o[1]].next(o[2])
                views.append(a)
                out.append(['vals', [float(v) for v in a]])
            elif k == 'Reset':
                objs[o[1]].reset()
                out.append(['nothing'])
            elif k == 'DeepCopy':
                objs.append(copy.deepcopy(objs[o[1]]))
                out.append(['nothing'])
            elif k == 'Write':
                try:
                    views[o[1]][o[2]] = float(o[3])
                    out.append(['nothing'])
                except (ValueError, IndexError):
                    out.append(['rejected'])
            elif k == 'ReadView':
                out.append(['vals', [float(v) for v in views[o[1]]]])
            elif k == 'CachedCall':
                f, args = _cached_args(o[1], o[2])
                a = f(*args)
                views.append(a)
                out.append(['vals', [float(v) for v in a]])
            elif k == 'GlobalRandom':
                np.random.seed(len(out))
                np.random.uniform(size=3)
                out.append(['nothing'])
        except (AttributeError, TypeError, AssertionError):
            out.append(['raised'])
    return out


def _op(o):
    k = o[0]
    if k == 'GlobalRandom':
        return 'GlobalRandom'
    return f"{k} " + ' '.join(zlit(x) for x in o[1:])


def expr(case, res):
    if case['k'] == 'queue':
        return '([] : list Z)'
    p = listlit([_op(o) for o in case['prog']])
    return f"run_prog {p} ++ [if isolation_test {p} then 1 else 0]"


def _value(code, carriers, ncache):
    if code == 0:
        return 0.0
    if code >= 900000000:
        return float(code)
    if code >= 500000000:
        k, i = divmod(code - 500000000, 1000)
        return float(ncache[k][i])
    if code > 0:
        w, i = divmod(code, 1000000)
        return float(_wave(w - 1, i + 1)[i])
    c, i = divmod(-code, 1000000)
    return float(carriers(c - 1)[i])


def agree(case, res, mo):
    if case['k'] == 'queue':
        return None
    if mo[-1] != 1:
        return 'the executable form of C10_refines_pure is false on this program'
    mo = mo[:-1]
    cache = {}

    def carriers(c):
        if c not in cache:
            cache[c] = np.asarray(_carrier(c).next(400), dtype=float)
        return cache[c]
    ncache = {}
    for o in case['prog']:
        if o[0] == 'CachedCall' and o[1] not in ncache:
            ncache[o[1]] = _cached_uncached(o[1], o[2])
    pos = 0
    for i, (o, r) in enumerate(zip(case['prog'], res)):
        code, n = mo[pos], mo[pos + 1]
        vals = mo[pos + 2: pos + 2 + n]
        pos += 2 + n
        want = {1: 'vals', 2: 'rejected', 3: 'nothing', 4: 'raised'}[code]
        if r[0] != want:
            return f'op {i} {o}: implementation {r[0]}, model {want}'
        if want == 'vals':
            exp = [_value(v, carriers, ncache) for v in vals]
            if exp != r[1]:
                return f'op {i} {o}: implementation returned {r[1][:12]}, model {exp[:12]} (codes {vals[:12]})'
    return None


def nontrivial(case, res):
    if case['k'] == 'queue':
        return True
    return any(o[0] in ('Write', 'DeepCopy', 'GlobalRandom') for o in case['prog'])


def oracle(case, res):
    if case['k'] == 'queue':
        return res.get('fail')
    from psiaudio import stim
    # memoised functions: every call returns the un-memoised value
    for o, r in zip(case['prog'], res):
        if o[0] == 'CachedCall' and r[0] == 'vals':
            want = [float(v) for v in _cached_uncached(o[1], o[2])]
            if r[1] != want:
                return f'memoised call {o} returned a value that differs from the function of its arguments (an earlier result was modified by the caller)'
    # replay: rebuild every object from its parameters, apply only its own next/reset history, compare streams
    hist = []      # per object: (builder, ops)
    for o, r in zip(case['prog'], res):
        k = o[0]
        if r[0] == 'raised':
            continue
        if k == 'MkFixed':
            hist.append([('fixed', o[1], o[2]), []])
        elif k == 'MkCar':
            hist.append([('car', o[1]), []])
        elif k == 'MkGate':
            inner = hist[o[3]]
            hist[o[3]] = None
            hist.append([('gate', o[1], o[2], inner[0]), []])      # the constructor resets the wrapped generator
        elif k == 'DeepCopy':
            src = hist[o[1]]
            hist.append([src[0], list(src[1])])
        elif k in ('Next', 'Reset') and hist[o[1]] is not None:
            h = hist[o[1]]
            if k == 'Next':
                # replay the object's own history on a freshly built object
                fresh = _build(h[0])
                _replay(fresh, h[1])
                want = [float(v) for v in fresh.next(o[2])]
                if r[0] == 'vals' and r[1] != want:
                    return (f'{o}: returned {r[1][:10]} but a generator built from the same parameters and given the same calls '
                            f'returns {want[:10]}')
                h[1].append(('next', o[2]))
            else:
                h[1].append(('reset',))
    return None


def _build(b):
    from psiaudio import stim
    if b[0] == 'fixed':
        return stim.FixedWaveform(FS, _wave(b[1], b[2]))
    if b[0] == 'car':
        return _carrier(b[1])
    return stim.GateFactory(FS, b[1] / FS, b[2] / FS, _build(b[3]))


def _replay(obj, ops):
    for op in ops:
        if op[0] == 'inner':
            _replay(obj.input_factory, op[1])
        elif op[0] == 'next':
            obj.next(op[1])
        else:
            obj.reset()


def _queue_case(seed):
    """queue.append isolation, clone independence, blocked-random order vs the global random state"""
    import random
    from psiaudio import stim, queue as Q
    rng = random.Random(seed)
    fs = FS

    def build(polname, use_orig):
        q = {'fifo': Q.FIFOSignalQueue, 'blocked_random': lambda **kw: Q.BlockedRandomSignalQueue(seed=seed % 7, **kw),
             'inter': Q.InterleavedFIFOSignalQueue}[polname](fs=fs)
        srcs = []
        for k in range(3):
            if k == 0:
                s = _wave(k, 6)
            elif k == 1:
                s = stim.BroadbandNoiseFactory(fs, 1.0, seed=seed % 11 + k)
                s = stim.GateFactory(fs, 0, 7 / fs, s)
            else:
                s = stim.Cos2EnvelopeFactory(fs, 8 / fs, 2 / fs, stim.ToneFactory(fs, 100.0, 1.0))
            srcs.append(s)
            q.append(s, 2, 1 / fs)
        return q, srcs
    pol = rng.choice(['fifo', 'blocked_random', 'inter'])
    ref, _ = build(pol, False)
    want = ref.pop_buffer(80)
    # same queue, but the originals are used / modified after append, the global RNG is disturbed, and a clone runs interleaved
    q, srcs = build(pol, True)
    srcs[0][:] = -5.0
    srcs[1].next(rng.randint(1, 9))
    srcs[2].next(3)
    np.random.seed(rng.randint(0, 99))
    # a few samples into the first trial, clone; then read original and clone ALTERNATELY with different chunk
    # sizes (so that chunk boundaries cut through trials), writing into every returned buffer after copying it
    first = rng.randint(1, 5)
    head = q.pop_buffer(first)
    got, gotc = [head.copy()], [head.copy()]
    head[:] = -9.0
    c = q.clone()
    left, leftc = 80 - first, 80 - first
    while left > 0 or leftc > 0:
        if left > 0 and (leftc == 0 or rng.random() < 0.5):
            n = min(left, rng.randint(1, 17))
            buf = q.pop_buffer(n)
            got.append(buf.copy())
            buf[:] = -7.0                      # the caller owns what it was handed
            np.random.uniform(size=rng.randint(0, 4))
            left -= n
        else:
            n = min(leftc, rng.randint(1, 23))
            buf = c.pop_buffer(n)
            gotc.append(buf.copy())
            buf[:] = -8.0
            leftc -= n
    got = np.concatenate(got)
    gotc = np.concatenate(gotc)
    fail = None
    if not np.array_equal(got, want):
        fail = f'{pol} queue output depends on later use of the appended originals / the global random state / chunking'
    elif not np.array_equal(gotc, want):
        fail = f'cloned {pol} queue does not evolve independently of its original'
    return {'pol': pol, 'fail': fail}


def distribution(cases, results):
    d = {}
    for c in cases:
        if c['k'] == 'queue':
            d['queue'] = d.get('queue', 0) + 1
        else:
            for o in c['prog']:
                d[o[0]] = d.get(o[0], 0) + 1
    return d
