"""C09 - finite stimuli honour their duration contract and envelope shape.  Model: coq/Stim/Model.v."""
import numpy as np
import stimcore as sc

PROP = 'C09'
REQUIRES = ['Stim.Model', 'Stim.Spec']
RULE = ('finite generators (gate, envelope with windows cosine-squared/hann/hamming/blackman/bartlett/cos2 class, rise None/0/max, '
        'fixed incl. click/chirp/band-limited click/wav (str and Path, three normalisations) and int16/float32/read-only arrays, repeat '
        '(on/off-grid period and delay, n = 0, infinite input), envelope over SAM, gate over fixed/bool/int tokens, SAM / square-wave '
        'envelope / notch over a fixed waveform, too-long rise, too-long repeat, zero and one-sample durations, rounding ties x.5, int 0 '
        'times, the constructor default start, pointwise transform, very long stimuli) at 5 rates incl. non-integer, with on-grid and '
        'off-grid start/duration/rise times; draw histories that cross every boundary (and one below / one above it) and run past the '
        'end, with NumPy int and (where the stimulus reports them) float draw counts, zero-sample draws, get_samples_remaining(), the '
        'caller overwriting the arrays it receives, and n_samples / n_samples_remaining / is_complete / get_duration queried before '
        'and after every draw; stim.envelope / cos2envelope called directly for the whole stimulus (samples="auto") and beyond; '
        'sequences of memoised envelope calls whose arguments collide under a wrong cache key, each judged against the model, the '
        'un-memoised function and the contract; NumPy\'s global generator reseeded and a second noise generator drawn between operations. '
        'Non-trivial: the history draws past the end or the stimulus has a non-zero start or a ramp. '
        'Distinct = distinct (config, rate, history).')
TRUSTED = ['harness/stimcore.py (see C01)', 'scipy.signal.windows.* and cos2ramp give the ramp values (oracle for the window shape)']
ASSUMPTIONS = ['sample counts are int(round(t*fs)) as the code computes them; the harness evaluates the same float expression',
               'range [0,1] of the cosine-squared ramp is proved over R in Props/C09.v; for scipy windows it is checked numerically']
FS = [1000.0, 25000.0, 44100.0, 48828.125, 195312.5]
WINDOWS = ['cosine-squared', 'cos2class', 'hann', 'hamming', 'blackman', 'bartlett']


def _configs(fs, rng, quick):
    one = {'t': 'silence', 'fill': 1}
    tone = {'t': 'tone', 'f': fs / 9.0, 'level': 1.2, 'phase': 1.0}
    out = []
    for w in WINDOWS:
        for (start, dur, rise) in [(0, 16, 4), (5, 15, None), (3.3, 12.4, 2.7), (2, 10, 5), (4, 9, 0), (0, 0, 0), (1, 7, 4)]:
            out.append({'t': 'env', 'window': w, 'start': start, 'dur': dur, 'rise': rise, 'in': rng.choice([one, tone])})
    for (start, dur) in [(0, 9), (5, 11), (2.6, 7.7), (0, 0), (7, 1)]:
        out.append({'t': 'gate', 'start': start, 'dur': dur, 'in': rng.choice([one, tone])})
    out += [{'t': 'fixed', 'n': 13}, {'t': 'fixed', 'n': 0}, {'t': 'fixed', 'n': 1},
            {'t': 'fixed', 'n': 9, 'cls': 'click'}, {'t': 'fixed', 'n': 24, 'cls': 'chirp'}, {'t': 'fixed', 'n': 16, 'cls': 'blclick'},
            {'t': 'gate', 'start': 2, 'dur': 12, 'in': {'t': 'fixed', 'n': 24, 'cls': 'chirp'}},
            {'t': 'gate', 'start': 4, 'dur': 6, 'in': {'t': 'fixed', 'n': 20}},
            # a FINITE input that runs out before the gate closes: the gate's own count decides completion
            {'t': 'gate', 'start': 2, 'dur': 20, 'in': {'t': 'fixed', 'n': 9}},
            {'t': 'gate', 'start': 0, 'dur': 30, 'in': {'t': 'fixed', 'n': 17}},
            {'t': 'env', 'window': 'hann', 'start': 3, 'dur': 24, 'rise': 4, 'in': {'t': 'fixed', 'n': 7}},
            {'t': 'env', 'window': 'cosine-squared', 'start': 0, 'dur': 40, 'rise': 5,
             'in': {'t': 'repeat', 'n': 2, 'skip': 0, 'rate': fs / 9.0, 'delay': 0.0, 'in': {'t': 'fixed', 'n': 9}}},
            {'t': 'repeat', 'n': 3, 'skip': 1, 'rate': fs / 12.0, 'delay': 2 / fs,
             'in': {'t': 'env', 'window': 'cosine-squared', 'start': 0, 'dur': 8, 'rise': 2, 'in': one}},
            {'t': 'repeat', 'n': 2, 'skip': 0, 'rate': fs / 9.0, 'delay': 0.0, 'in': {'t': 'fixed', 'n': 9}},
            {'t': 'repeat', 'n': 2, 'skip': 0, 'rate': fs / 9.0, 'delay': 1 / fs, 'in': {'t': 'fixed', 'n': 9}},
            {'t': 'repeat', 'n': 1, 'skip': 2, 'rate': fs / 20.0, 'delay': 3 / fs,
             'in': {'t': 'gate', 'start': 1, 'dur': 5, 'in': tone}},
            {'t': 'env', 'window': 'hann', 'start': 2, 'dur': 20, 'rise': 3,
             'in': {'t': 'sam', 'depth': 1.0, 'fm': fs / 9.0, 'delay': 5 / fs, 'in': one}},
            {'t': 'notch', 'f': fs / 8.0, 'q': 1.33, 'in': {'t': 'gate', 'start': 2, 'dur': 8, 'in': tone}}]
    # ---- coverage-audit additions -------------------------------------------------------------------------
    fx9 = {'t': 'fixed', 'n': 9}
    out += [
        # shortest durations, zero duration after a non-zero start, rounding ties (x.5 samples), int 0 times,
        # the constructor's default start_time, a pointwise transform
        {'t': 'env', 'window': 'cosine-squared', 'start': 3, 'dur': 0, 'rise': None, 'in': one},
        {'t': 'env', 'window': 'hann', 'start': 3, 'dur': 0, 'rise': 0, 'int0': True, 'in': tone},
        {'t': 'env', 'window': 'hann', 'start': 2, 'dur': 1, 'rise': None, 'in': one},
        {'t': 'env', 'window': 'hamming', 'start': 0, 'dur': 1, 'rise': 0, 'int0': True, 'in': one},
        {'t': 'env', 'window': 'cosine-squared', 'start': 0, 'dur': 2, 'rise': 1, 'defstart': True, 'in': one},
        {'t': 'env', 'window': 'bartlett', 'start': 0, 'dur': 3, 'rise': None, 'defstart': True, 'in': one},
        {'t': 'env', 'window': 'cos2class', 'start': 0, 'dur': 12, 'rise': 3, 'defstart': True, 'in': tone},
        {'t': 'env', 'window': 'cos2class', 'start': 2.5, 'dur': 8.5, 'rise': 1.5, 'in': one},
        {'t': 'env', 'window': 'hann', 'start': 3.5, 'dur': 7.5, 'rise': 2.5, 'in': one},
        {'t': 'env', 'window': 'hann', 'start': 3, 'dur': 14, 'rise': 4, 'transform': 'sq', 'in': one},
        {'t': 'env', 'window': 'blackman', 'start': 2.4, 'dur': 11.3, 'rise': None, 'transform': 'sq', 'in': tone},
        {'t': 'env', 'window': 'cosine-squared', 'start': 2, 'dur': 9, 'rise': 3, 'in': {'t': 'bbnoise', 'seed': 0, 'level': 1.0}},
        {'t': 'gate', 'start': 0, 'dur': 7, 'int0': True, 'in': tone},
        {'t': 'gate', 'start': 3, 'dur': 0, 'in': tone},
        {'t': 'gate', 'start': 2.5, 'dur': 6.5, 'in': one},
        {'t': 'gate', 'start': 2, 'dur': 5, 'in': {'t': 'silence', 'fill': True}},
        {'t': 'gate', 'start': 3, 'dur': 5, 'in': {'t': 'fixed', 'n': 11, 'dtype': 'int16'}},
        {'t': 'gate', 'start': 1, 'dur': 12, 'in': {'t': 'fixed', 'n': 17, 'cls': 'wav'}},
        {'t': 'gate', 'start': 2, 'dur': 9, 'in': {'t': 'square', 'level': 2.0, 'freq': fs / 4.0, 'duty': 0.5}},
        # fixed waveforms: other dtypes, read-only, wav files (str and Path, the three normalisations)
        {'t': 'fixed', 'n': 11, 'dtype': 'int16'},
        {'t': 'fixed', 'n': 10, 'dtype': 'float32', 'ro': True},
        {'t': 'fixed', 'n': 21, 'cls': 'wav'},
        {'t': 'fixed', 'n': 17, 'cls': 'wav', 'norm': 'rms', 'path': True},
        {'t': 'fixed', 'n': 19, 'cls': 'wav', 'norm': None},
        {'t': 'fixed', 'n': 7, 'cls': 'click', 'pol': -1},
        {'t': 'fixed', 'n': 18, 'cls': 'chirp', 'window': 'hann'},
        # transforms of a fixed waveform (their remaining-sample count is the NumPy float of the fixed waveform)
        {'t': 'sam', 'depth': 1, 'fm': fs / 7.0, 'delay': 5 / fs, 'direction': -1, 'in': {'t': 'fixed', 'n': 13}},
        {'t': 'sqenv', 'depth': 1, 'fm': fs / 6.5, 'duty': 0.5, 'alpha': 0.25, 'in': {'t': 'fixed', 'n': 13}},
        {'t': 'notch', 'f': fs / 8.0, 'q': 2, 'in': {'t': 'fixed', 'n': 13}},
        # repeat: off-grid period / delay, no repetitions, one below the length limit, transform of a fixed waveform as
        # input, an input without a finite duration (rejected)
        {'t': 'repeat', 'n': 2, 'skip': 1, 'rate': fs / 12.4, 'delay': 2.6 / fs, 'in': {'t': 'fixed', 'n': 8}},
        {'t': 'repeat', 'n': 0, 'skip': 0, 'rate': fs / 6.0, 'delay': 0, 'in': {'t': 'fixed', 'n': 4}},
        {'t': 'repeat', 'n': 0, 'skip': 2, 'rate': fs / 6.0, 'delay': 0, 'in': {'t': 'fixed', 'n': 4}},
        {'t': 'repeat', 'n': 2, 'skip': 0, 'rate': fs / 10.0, 'delay': 0.0, 'in': fx9},
        {'t': 'repeat', 'n': 2, 'skip': 1, 'rate': fs / 11.0, 'delay': 1 / fs,
         'in': {'t': 'sam', 'depth': 1.0, 'fm': fs / 7.0, 'delay': 2 / fs, 'in': fx9}},
        {'t': 'repeat', 'n': 3, 'skip': 0, 'rate': max(int(fs // 12), 1), 'delay': 0,
         'in': {'t': 'gate', 'start': 1.4, 'dur': 6.4, 'in': tone}},
        {'t': 'repeat', 'n': 2, 'skip': 0, 'rate': fs / 10.0, 'delay': 0.0, 'in': tone},
        # the input factory was in use before it was wrapped (previewed / played out): the wrappers reset it
        {'t': 'repeat', 'n': 2, 'skip': 1, 'rate': fs / 12.0, 'delay': 1 / fs, 'in': {'t': 'fixed', 'n': 8}, 'preplay': 3},
        {'t': 'repeat', 'n': 3, 'skip': 0, 'rate': fs / 10.0, 'delay': 0.0, 'in': {'t': 'fixed', 'n': 9}, 'preplay': 9},
        {'t': 'gate', 'start': 2, 'dur': 9, 'in': {'t': 'fixed', 'n': 13}, 'preplay': 4},
        # long stimuli: only the bookkeeping and a few samples are looked at
        {'t': 'gate', 'start': 1000003.4, 'dur': 2000000.5, 'huge': True, 'in': tone},
        {'t': 'env', 'window': 'hann', 'start': 123456.5, 'dur': 7654321.3, 'rise': 1000.2, 'huge': True, 'in': one},
    ]
    if not quick:
        for _ in range(60):
            dur = rng.uniform(0, 30)
            out.append({'t': 'env', 'window': rng.choice(WINDOWS), 'start': rng.uniform(0, 10), 'dur': dur,
                        'rise': rng.choice([None, rng.uniform(0, dur / 2.05)]), 'in': rng.choice([one, tone])})
    return out


def cases(tier, rng):
    quick = tier == 'quick'
    for fs in FS:
        for cfg in _configs(fs, rng, quick):
            if cfg.get('huge'):
                for ops in ([['query'], ['next', 3], ['query'], ['next', 2, 'np64'], ['query'], ['reset'], ['query']],
                            [['next', 1, 'np32+scr'], ['query'], ['next', 0], ['query']]):
                    yield {'fs': fs, 'cfg': cfg, 'ops': ops}
                continue
            B = sorted(sc.boundaries(cfg, fs))
            total = max(B)
            hist = []
            # one history that walks through every boundary and beyond the end, querying after every draw
            pos = 0
            ops = [['query']]
            for b in B + [total + 3, total + 4, total + 20]:
                if b > pos:
                    ops += [['next', b - pos], ['query']]
                    pos = b
            hist.append(ops)
            # the same walk through one below / at / one above every boundary (every comparison of the bookkeeping
            # at ==, -1, +1), with NumPy-typed counts and the caller writing into what it received
            pos = 0
            ops = [['query']]
            for b in sorted({b + e for b in B for e in (-1, 0, 1) if b + e > 0}):
                ops += [['next', b - pos, rng.choice(['np64', 'np32', '']) + '+scr'], ['query']]
                pos = b
            hist.append(ops)
            for _ in range(2 if quick else 12):
                ops = [['query']]
                for _ in range(rng.randint(1, 6)):
                    ops += [['next', rng.choice([1, 2, rng.randint(0, total + 5)])], ['query']]
                    if rng.random() < 0.15:
                        ops += [['reset'], ['query']]
                hist.append(ops)
            hist.append([['query'], ['next', total + 7], ['query'], ['next', 5], ['query']])
            # get_samples_remaining() (float-typed count for fixed waveforms), then draws past the end, reset, again
            hist.append([['next', min(2, total)], ['rest'], ['query'], ['next', 3], ['query'], ['rest'], ['next', 2],
                         ['reset'], ['rest'], ['next', 4], ['query']])
            hist.append(sc.kinds_history(cfg, fs, rng))
            hist.append(sc.narrow_history(rng))
            if sc.accepts_float(cfg):
                # float-typed counts as the stimulus reports them itself, one short of the end, to the end, past it
                hist.append([['next', max(total - 1, 0), 'npf+scr'], ['query'], ['next', 1, 'pyf+scr'], ['query'],
                             ['next', 2, 'npf'], ['query'], ['reset'], ['next', total + 2, 'pyf'], ['query']])
            for ops in hist:
                yield {'fs': fs, 'cfg': cfg, 'ops': ops}
    # the envelope functions called directly for the whole stimulus (samples='auto') and for more than the whole
    for fs in FS:
        for i in range(60 if quick else 1500):
            grid = i % 2 == 0
            start = rng.randint(0, 10) if grid else rng.choice([rng.uniform(0, 10), rng.randint(0, 9) + 0.5])
            dur = rng.randint(0, 24) if grid else rng.choice([rng.uniform(0, 24), rng.randint(0, 23) + 0.5])
            rise = rng.choice([None, 0, rng.randint(0, int(dur) // 2 + 1) if grid else rng.uniform(0, dur / 1.9)])
            call = rng.choice(['pos', 'kw', 'cos2'])
            c = {'k': 'envfn', 'fs': fs, 'window': 'cosine-squared' if call == 'cos2' else rng.choice(WINDOWS[:1] + WINDOWS[2:]),
                 'start': start, 'dur': dur, 'rise': rise, 'call': call, 'extra': rng.choice(['auto', 'auto', 0, 1, rng.randint(2, 30)])}
            if rng.random() < 0.25:
                c['int0'] = True
            if rng.random() < 0.25:
                c['scr'] = True
            yield c
            if i % 6 == 1:
                # the function twin of an enveloped tone: ramped_tone(duration) = tone(duration) * envelope(duration) must
                # agree on the sample count for every duration (incl. k + 0.5 samples), so the call never fails on a shape
                yield dict(c, call='ramped', start=0, extra='auto', window=c['window'] if call != 'cos2' else 'cosine-squared')
        # sequences of memoised envelope calls whose arguments collide under a wrong cache key
        yield from sc.memo_cases(fs, rng, 30 if quick else 400, ['envelope', 'cos2envelope'])


def _envfn_params(case):
    fs = case['fs']
    elb, dur = sc.eff(case['start'], fs), sc.eff(case['dur'], fs)
    rise = int(np.floor(dur / 2)) if case['rise'] is None else sc.eff(case['rise'], fs)
    n = elb + dur if case['extra'] == 'auto' else elb + dur + case['extra']
    return elb, dur, rise, n


def _envfn_call(case):
    from psiaudio import stim
    fs = case['fs']
    cfg = {'start': case['start'], 'dur': case['dur'], 'rise': case['rise'], 'int0': case.get('int0')}
    start, dur, rise = (sc.tsec(cfg, k, fs) for k in ('start', 'dur', 'rise'))
    kw = {} if case['extra'] == 'auto' else {'samples': _envfn_params(case)[3]}
    if case['call'] == 'ramped':
        return stim.ramped_tone(fs, fs / 8.0, 1.5, dur, rise_time=rise, window=case['window'], phase=0.3)
    if case['call'] == 'cos2':
        return stim.cos2envelope(fs, dur, rise, start_time=start, **kw)
    if case['call'] == 'kw':
        return stim.envelope(window=case['window'], fs=fs, duration=dur, rise_time=rise, start_time=start, **kw)
    return stim.envelope(case['window'], fs, dur, rise, 0, start, **kw)


def impl(case):
    if case.get('k') == 'memo':
        return sc.memo_impl(case)
    if case.get('k') == 'envfn':
        try:
            e = _envfn_call(case)
            res = ['ok', [float(v) for v in e]]
            if case.get('scr'):
                sc.scribble(e)          # the caller tries to write into the (memoised) result, then asks again
                res.append([float(v) for v in _envfn_call(case)])
            return res
        except ValueError:
            return ['raise']
    return sc.run_impl(case['cfg'], case['fs'], case['ops'])


def expr(case, res):
    from vlib import zlit
    if case.get('k') == 'memo':
        return sc.memo_expr(case)
    if case.get('k') == 'envfn':
        elb, dur, rise, n = _envfn_params(case)
        return f"run_envelope {zlit(elb)} {zlit(dur)} {zlit(rise)} 0 {zlit(n)}"
    reg = sc.Registry(case['fs'])
    return f"run_gen {sc.coq_gen(case['cfg'], reg)} {sc.coq_ops(case['ops'])}"


def agree(case, res, mo):
    if case.get('k') == 'memo':
        return sc.memo_agree(case, res, mo)
    if case.get('k') == 'envfn':
        if mo[0] == 2:
            return None if res[0] == 'raise' else 'model raises ValueError, implementation returned an envelope'
        if res[0] == 'raise':
            return 'implementation raised ValueError, model returned an envelope'
        factors = sc.parse_factors(mo[1:])
        _, _, rise, _ = _envfn_params(case)
        want = sc.frag_values(case['fs'], {'kind': 'ramp', 'window': case['window'], 'rise': rise}, factors)
        if case['call'] == 'ramped':
            from psiaudio import stim
            carrier = stim.tone(case['fs'], case['fs'] / 8.0, 1.5, 0.3, samples=len(want))
            want = [float(v) for v in carrier * np.asarray(want, dtype=float)]
        for got in res[1:]:
            if got != want:
                return f'envelope values differ from the model recipes: {got} vs {want}'
        return None
    reg = sc.Registry(case['fs'])
    sc.coq_gen(case['cfg'], reg)
    return sc.compare(case['cfg'], case['fs'], reg, case['ops'], res, mo)


def _total(cfg, fs):
    t = cfg['t']
    if t in ('gate', 'env'):
        return int(round((cfg['start'] / fs) * fs)) + int(round((cfg['dur'] / fs) * fs))
    if t == 'fixed':
        return cfg['n']
    if t == 'repeat':
        return (cfg['n'] + cfg['skip']) * int(round(fs / cfg['rate']))
    if t in ('sam', 'sqenv', 'notch'):
        return _total(cfg['in'], fs)
    return None


def nontrivial(case, res):
    if case.get('k') == 'memo':
        return True
    if case.get('k') == 'envfn':
        return res[0] == 'ok' and len(res[1]) > 0
    tot = _total(case['cfg'], case['fs'])
    drawn = sum(o[1] for o in case['ops'] if o[0] == 'next') + (10 ** 8 if any(o[0] == 'rest' for o in case['ops']) else 0)
    return tot is not None and (drawn > tot or case['cfg'].get('start', 0) > 0 or case['cfg'].get('rise', 0) not in (0,))


def _window(w, r, transform=None):
    from psiaudio import stim
    from scipy import signal
    win = stim.cos2ramp(2 * r) if w in ('cosine-squared', 'cos2class') else getattr(signal.windows, w)(2 * r)
    return sc.TRANSFORMS[transform](win) if transform else win


def _shape(a, start, d, r, w, transform=None):
    """a = the whole stimulus over the constant 1: zeros, first half of the window, ones, second half, zeros"""
    tot = start + d
    if np.any(a[:start] != 0):
        return f'non-zero sample before the start ({start})'
    if np.any(a[tot:] != 0):
        return f'non-zero sample at or after the end ({tot}): index {tot + int(np.argmax(a[tot:] != 0))}'
    win = _window(w, r, transform)
    body = a[start:tot]
    if not (np.array_equal(body[:r], win[:r]) and np.all(body[r:d - r] == 1.0) and np.array_equal(body[d - r:], win[r:])):
        return 'envelope is not (first half of window, ones, second half of window)'
    if w in ('cosine-squared', 'cos2class', 'hann', 'hamming', 'bartlett') and (body.min(initial=0) < 0 or body.max(initial=0) > 1):
        return 'envelope leaves [0, 1]'
    return None


def _envfn_oracle(case, res):
    elb, d, r, n = _envfn_params(case)
    if res[0] == 'raise':
        return None if d < 2 * r else 'envelope() raised ValueError although rise <= duration/2'
    if d < 2 * r:
        return 'a rise time longer than half the duration was not rejected'
    if len(res) > 2 and res[2] != res[1]:
        return 'the same envelope() call returned different values after the caller wrote into the first result'
    a = np.asarray(res[1], dtype=float)
    if len(a) != n:
        return f'envelope() returned {len(a)} samples, expected {n} (round(start*fs)+round(duration*fs) = {elb + d})'
    if case['call'] == 'ramped':
        return None         # carrier * envelope: the shape is judged on the bare envelope cases; here count and values
    return _shape(a, elb, d, r, case['window'])


def _memo_contract(case, res):
    """the duration contract on every call of a memoised sequence: sample count, zeros outside, rise rejection"""
    for c, r in zip(case['calls'], res):
        a = sc._memo_bound(c)
        elb, d, rise, o, n = sc._memo_env_params(a)
        if r[0] == 'raise':
            if d >= 2 * rise:
                return f'{c}: raised ValueError although rise <= duration/2'
            continue
        if d < 2 * rise:
            return f'{c}: a rise time longer than half the duration was not rejected'
        v = np.asarray(r[1], dtype=float)
        if len(v) != n:
            return f'{c}: returned {len(v)} samples, expected {n}'
        idx = np.arange(n) + o
        if np.any(v[(idx < elb) | (idx >= elb + d)] != 0):
            return f'{c}: non-zero sample outside [start, start+duration)'
    return None


def oracle(case, res):
    if case.get('k') == 'memo':
        return sc.memo_oracle(case, res) or _memo_contract(case, res)
    if case.get('k') == 'envfn':
        return _envfn_oracle(case, res)
    fs, cfg = case['fs'], case['cfg']
    if res and res[0][0] == 'ctor-raise':
        if cfg['t'] == 'repeat':
            per = int(round(fs / cfg['rate']))
            sd = int(round(fs * cfg['delay']))
            tin = _total(cfg['in'], fs)
            if tin is None or tin > per - sd:
                return None         # no finite duration to repeat / waveform longer than the period
        return 'constructor raised ValueError for acceptable parameters'
    tot = _total(cfg, fs)
    top = cfg['t']
    rise_bad = False
    if top == 'env':
        d = int(round((cfg['dur'] / fs) * fs))
        r = d // 2 if cfg['rise'] is None else int(round((cfg['rise'] / fs) * fs))
        rise_bad = d < 2 * r
    drawn = 0
    stream = []
    for o, r_ in zip(case['ops'], res):
        if o[0] == 'reset':
            drawn, stream = 0, []
        elif o[0] in ('next', 'rest'):
            if o[0] == 'rest':
                if tot is None:
                    continue
                o = ['next', max(tot - drawn, 0)]
            if r_[0] == 'raise':
                if not rise_bad:
                    return f'next({o[1]}) raised {r_[1]} although rise <= duration/2'
                continue
            if rise_bad and o[1] > 0:
                return 'a rise time longer than half the duration was not rejected'
            if len(r_[1]) != o[1]:
                return f'next({o[1]}) returned {len(r_[1])} samples'
            drawn += o[1]
            stream += r_[1]
        elif o[0] == 'query' and tot is not None:
            ns, rem, comp = r_[1], r_[2], r_[3]
            want_dur = sc.duration_expected(cfg, fs)
            if len(r_) > 4 and r_[4] != want_dur:
                return f'get_duration() = {r_[4]!r}, expected {want_dur!r}'
            if top in ('gate', 'env', 'fixed', 'repeat') and ns != tot:
                return f'n_samples() = {ns}, expected {tot}'
            if rem != max(tot - drawn, 0):
                return f'n_samples_remaining() = {rem} after drawing {drawn} of {tot}'
            if comp != (drawn >= tot):
                return f'is_complete() = {comp} after drawing {drawn} of {tot}'
    if rise_bad or tot is None or top not in ('gate', 'env', 'fixed', 'repeat'):
        return None
    # zero outside [start, start+duration)
    a = np.asarray(stream, dtype=float)
    start = int(round((cfg['start'] / fs) * fs)) if top in ('gate', 'env') else 0
    if np.any(a[:start] != 0):
        return f'non-zero sample before the start ({start})'
    if np.any(a[tot:] != 0):
        return f'non-zero sample at or after the end ({tot}): index {tot + int(np.argmax(a[tot:] != 0))}'
    # envelope shape against the named window, when the carrier is the constant 1
    if top == 'env' and cfg['in'] == {'t': 'silence', 'fill': 1} and len(a) >= tot:
        d = tot - start
        r = d // 2 if cfg['rise'] is None else int(round((cfg['rise'] / fs) * fs))
        return _shape(a, start, d, r, cfg['window'], cfg.get('transform'))
    return None


def distribution(cases, results):
    d = {}
    for c in cases:
        if c.get('k') == 'memo':
            k = 'memoised call sequence'
        elif c.get('k') == 'envfn':
            k = 'envelope():' + c['call']
        else:
            k = c['cfg']['t'] + (':' + c['cfg']['window'] if c['cfg']['t'] == 'env' else '')
        d[k] = d.get(k, 0) + 1
    return d


# ================================================= translator tie of the index bookkeeping =============================
# coq/gen/StimIdxGen.v is regenerated from $PSIAUDIO_REPO/psiaudio/stim.py on every run (translate/pystim2coq.py: fail-closed
# ast translator + self-test against the real functions / objects); coq/Stim/ProofsTie.v proves the regenerated definitions equal
# to the model definitions of coq/Stim/Model.v, and Props/C09.v restates the main theorems over them (C09_source_*).
def translate(repo):
    from translate import pystim2coq
    return pystim2coq.hook(repo)


TRUSTED = TRUSTED + ['translate/pystim2coq.py (fail-closed ast translator of the index bookkeeping of envelope, GateFactory.__init__ / next / '
                     'n_samples_remaining / n_samples / is_complete, EnvelopeFactory.next, FixedWaveform.next / queries, '
                     'SquareWaveFactory.next, _sam_envelope to coq/gen/StimIdxGen.v; its IR is run by a small interpreter against the real '
                     'code on every run); ' + 'pinned, not translated (a change of their text breaks the tie): the float conversions '
                     'int(round(t * fs)) / int(delay * fs), the rise_time-is-None branch, the window look-up, the SAM formula, `transform`, '
                     'the input factory\'s next / reset calls, env * token; np.zeros / np.ones / np.clip / np.concatenate / basic slicing '
                     'as Stim/Model.v and Common/PySlice.v model them']


TRUSTED = TRUSTED + ['translate/pystim2coq.py, second part: repeat() (length test, ValueError; pinned: int(round(fs / rate)), int(round(fs * delay)), '
                     'the 2-D layout np.zeros((n + skip_n, s_period)) / result[skip_n:, s_delay:s_delay + s_waveform] = waveform / ravel mapped '
                     'to np_zeros2 / np_set_rows / np_ravel of the generated file), RepeatFactory.reset (pinned: the input\'s reset and '
                     'get_samples_remaining calls, the call of repeat), Transform.next / reset (pinned: the input\'s next / reset, '
                     'self.transform); tie proofs in coq/Stim/ProofsTieRep.v']
