"""C09 - finite stimuli honour their duration contract and envelope shape.  Model: coq/Stim/Model.v."""
import numpy as np
import stimcore as sc

PROP = 'C09'
REQUIRES = ['Stim.Model', 'Stim.Spec']
RULE = ('finite generators (gate, envelope with windows cosine-squared/hann/hamming/blackman/bartlett/cos2 class, rise None/0/max, '
        'fixed, repeat, envelope over SAM, gate over fixed, too-long rise, too-long repeat) at 5 rates incl. non-integer, with on-grid and '
        'off-grid start/duration/rise times; draw histories that cross every boundary and run past the end, with n_samples / '
        'n_samples_remaining / is_complete queried before and after every draw. Non-trivial: the history draws past the end or the '
        'stimulus has a non-zero start or a ramp. Distinct = distinct (config, rate, history).')
TRUSTED = ['harness/stimcore.py (see C01)', 'scipy.signal.windows.* and cos2ramp give the ramp values (oracle for the window shape)']
ASSUMPTIONS = ['zero-sample draws are not sent through stateful scipy filters (lfilter on an empty array returns a garbage state); the property quantifies over chunk sizes >= 1',
               'sample counts are int(round(t*fs)) as the code computes them; the harness evaluates the same float expression',
               'range [0,1] of the cosine-squared ramp is proved over R in Props/C09.v; for scipy windows it is checked numerically']
FS = [1000.0, 25000.0, 44100.0, 48828.125, 195312.5]
WINDOWS = ['cosine-squared', 'cos2class', 'hann', 'hamming', 'blackman', 'bartlett']


def _configs(fs, rng, quick):
    one = {'t': 'silence', 'fill': 1}
    tone = {'t': 'tone', 'f': fs / 9.0, 'level': 1.2, 'phase': 1.0}
    out = []
    for w in WINDOWS:
        for (start, dur, rise) in [(0, 16, 4), (5, 15, None), (3.3, 12.4, 2.7), (2, 10, 5), (4, 9, 0), (0, 0, 0), (1, 7, 4)]:
            out.append({'t': 'env', 'window': w, 'start': start, 'dur': dur, 'rise': rise, 'in': rng.choice([one, tone])})
    for (start, dur) in [(0, 9), (5, 11), (2.6, 7.7), (0, 0), (7, 1)]:
        out.append({'t': 'gate', 'start': start, 'dur': dur, 'in': rng.choice([one, tone])})
    out += [{'t': 'fixed', 'n': 13}, {'t': 'fixed', 'n': 0}, {'t': 'fixed', 'n': 1},
            {'t': 'fixed', 'n': 9, 'cls': 'click'}, {'t': 'fixed', 'n': 24, 'cls': 'chirp'}, {'t': 'fixed', 'n': 16, 'cls': 'blclick'},
            {'t': 'gate', 'start': 2, 'dur': 12, 'in': {'t': 'fixed', 'n': 24, 'cls': 'chirp'}},
            {'t': 'gate', 'start': 4, 'dur': 6, 'in': {'t': 'fixed', 'n': 20}},
            {'t': 'repeat', 'n': 3, 'skip': 1, 'rate': fs / 12.0, 'delay': 2 / fs,
             'in': {'t': 'env', 'window': 'cosine-squared', 'start': 0, 'dur': 8, 'rise': 2, 'in': one}},
            {'t': 'repeat', 'n': 2, 'skip': 0, 'rate': fs / 9.0, 'delay': 0.0, 'in': {'t': 'fixed', 'n': 9}},
            {'t': 'repeat', 'n': 2, 'skip': 0, 'rate': fs / 9.0, 'delay': 1 / fs, 'in': {'t': 'fixed', 'n': 9}},
            {'t': 'repeat', 'n': 1, 'skip': 2, 'rate': fs / 20.0, 'delay': 3 / fs,
             'in': {'t': 'gate', 'start': 1, 'dur': 5, 'in': tone}},
            {'t': 'env', 'window': 'hann', 'start': 2, 'dur': 20, 'rise': 3,
             'in': {'t': 'sam', 'depth': 1.0, 'fm': fs / 9.0, 'delay': 5 / fs, 'in': one}},
            {'t': 'notch', 'f': fs / 8.0, 'q': 1.33, 'in': {'t': 'gate', 'start': 2, 'dur': 8, 'in': tone}}]
    if not quick:
        for _ in range(60):
            dur = rng.uniform(0, 30)
            out.append({'t': 'env', 'window': rng.choice(WINDOWS), 'start': rng.uniform(0, 10), 'dur': dur,
                        'rise': rng.choice([None, rng.uniform(0, dur / 2.05)]), 'in': rng.choice([one, tone])})
    return out


def cases(tier, rng):
    quick = tier == 'quick'
    for fs in FS:
        for cfg in _configs(fs, rng, quick):
            B = sorted(sc.boundaries(cfg, fs))
            total = max(B)
            hist = []
            # one history that walks through every boundary and beyond the end, querying after every draw
            pos = 0
            ops = [['query']]
            for b in B + [total + 3, total + 4, total + 20]:
                if b > pos:
                    ops += [['next', b - pos], ['query']]
                    pos = b
            hist.append(ops)
            for _ in range(2 if quick else 12):
                ops = [['query']]
                for _ in range(rng.randint(1, 6)):
                    ops += [['next', rng.choice([1, 2, rng.randint(0, total + 5)])], ['query']]
                    if rng.random() < 0.15:
                        ops += [['reset'], ['query']]
                hist.append(ops)
            hist.append([['query'], ['next', total + 7], ['query'], ['next', 5], ['query']])
            # get_samples_remaining() (float-typed count for fixed waveforms), then draws past the end, reset, again
            hist.append([['next', min(2, total)], ['rest'], ['query'], ['next', 3], ['query'], ['rest'], ['next', 2],
                         ['reset'], ['rest'], ['next', 4], ['query']])
            for ops in hist:
                if _has_filter(cfg):
                    # the property quantifies over chunk sizes >= 1; scipy's lfilter returns a garbage final
                    # state for an EMPTY input, so a zero-sample draw through a stateful filter is excluded
                    ops = [o for o in ops if not (o[0] == 'next' and o[1] == 0)]
                    if any(o[0] == 'rest' for o in ops):
                        continue        # a second get_samples_remaining() would be a zero-sample draw
                yield {'fs': fs, 'cfg': cfg, 'ops': ops}


def _has_filter(cfg):
    return cfg['t'] == 'notch' or ('in' in cfg and _has_filter(cfg['in']))


def impl(case):
    return sc.run_impl(case['cfg'], case['fs'], case['ops'])


def expr(case, res):
    reg = sc.Registry(case['fs'])
    return f"run_gen {sc.coq_gen(case['cfg'], reg)} {sc.coq_ops(case['ops'])}"


def agree(case, res, mo):
    reg = sc.Registry(case['fs'])
    sc.coq_gen(case['cfg'], reg)
    return sc.compare(case['cfg'], case['fs'], reg, case['ops'], res, mo)


def _total(cfg, fs):
    t = cfg['t']
    if t in ('gate', 'env'):
        return int(round((cfg['start'] / fs) * fs)) + int(round((cfg['dur'] / fs) * fs))
    if t == 'fixed':
        return cfg['n']
    if t == 'repeat':
        return (cfg['n'] + cfg['skip']) * int(round(fs / cfg['rate']))
    if t in ('sam', 'sqenv', 'notch'):
        return _total(cfg['in'], fs)
    return None


def nontrivial(case, res):
    tot = _total(case['cfg'], case['fs'])
    drawn = sum(o[1] for o in case['ops'] if o[0] == 'next') + (10 ** 6 if any(o[0] == 'rest' for o in case['ops']) else 0)
    return tot is not None and (drawn > tot or case['cfg'].get('start', 0) > 0 or case['cfg'].get('rise', 0) not in (0,))


def oracle(case, res):
    from psiaudio import stim
    from scipy import signal
    fs, cfg = case['fs'], case['cfg']
    if res and res[0][0] == 'ctor-raise':
        if cfg['t'] == 'repeat':
            per = int(round(fs / cfg['rate']))
            sd = int(round(fs * cfg['delay']))
            if _total(cfg['in'], fs) > per - sd:
                return None
        return 'constructor raised ValueError for acceptable parameters'
    tot = _total(cfg, fs)
    top = cfg['t']
    rise_bad = False
    if top == 'env':
        d = int(round((cfg['dur'] / fs) * fs))
        r = d // 2 if cfg['rise'] is None else int(round((cfg['rise'] / fs) * fs))
        rise_bad = d < 2 * r
    drawn = 0
    stream = []
    for o, r_ in zip(case['ops'], res):
        if o[0] == 'reset':
            drawn, stream = 0, []
        elif o[0] in ('next', 'rest'):
            if o[0] == 'rest':
                if tot is None:
                    continue
                o = ['next', max(tot - drawn, 0)]
            if r_[0] == 'raise':
                if not rise_bad:
                    return f'next({o[1]}) raised {r_[1]} although rise <= duration/2'
                continue
            if rise_bad and o[1] > 0:
                return 'a rise time longer than half the duration was not rejected'
            if len(r_[1]) != o[1]:
                return f'next({o[1]}) returned {len(r_[1])} samples'
            drawn += o[1]
            stream += r_[1]
        elif o[0] == 'query' and tot is not None:
            ns, rem, comp = r_[1], r_[2], r_[3]
            if top in ('gate', 'env', 'fixed', 'repeat') and ns != tot:
                return f'n_samples() = {ns}, expected {tot}'
            if rem != max(tot - drawn, 0):
                return f'n_samples_remaining() = {rem} after drawing {drawn} of {tot}'
            if comp != (drawn >= tot):
                return f'is_complete() = {comp} after drawing {drawn} of {tot}'
    if rise_bad or tot is None or top not in ('gate', 'env', 'fixed', 'repeat'):
        return None
    # zero outside [start, start+duration)
    a = np.asarray(stream, dtype=float)
    start = int(round((cfg['start'] / fs) * fs)) if top in ('gate', 'env') else 0
    if np.any(a[:start] != 0):
        return f'non-zero sample before the start ({start})'
    if np.any(a[tot:] != 0):
        return f'non-zero sample at or after the end ({tot}): index {tot + int(np.argmax(a[tot:] != 0))}'
    # envelope shape against the named window, when the carrier is the constant 1
    if top == 'env' and cfg['in'] == {'t': 'silence', 'fill': 1} and len(a) >= tot:
        d = tot - start
        r = d // 2 if cfg['rise'] is None else int(round((cfg['rise'] / fs) * fs))
        w = cfg['window']
        win = stim.cos2ramp(2 * r) if w in ('cosine-squared', 'cos2class') else getattr(signal.windows, w)(2 * r)
        body = a[start:tot]
        if not (np.array_equal(body[:r], win[:r]) and np.all(body[r:d - r] == 1.0) and np.array_equal(body[d - r:], win[r:])):
            return 'envelope is not (first half of window, ones, second half of window)'
        if w in ('cosine-squared', 'cos2class', 'hann', 'hamming', 'bartlett') and (body.min(initial=0) < 0 or body.max(initial=0) > 1):
            return 'envelope leaves [0, 1]'
    return None


def distribution(cases, results):
    d = {}
    for c in cases:
        k = c['cfg']['t'] + (':' + c['cfg']['window'] if c['cfg']['t'] == 'env' else '')
        d[k] = d.get(k, 0) + 1
    return d
