"""C04 - pause/resume conserves trials and reports every cancellation exactly once.  Model: coq/Queue/Model.v."""
import numpy as np
import queuecore as qc

PROP = 'C04'
REQUIRES = ['Queue.Model', 'Queue.Spec']
RULE = ('all seven queue classes x small stimulus sets (1-3 stimuli, lengths 1..6, trials 1..3, delays 0..3, array and generator '
        'sources): histories pop(a) pause(t) pop(b) resume(t2) pop(rest) with t at EVERY sample position 0..clock (inside a waveform, exactly at '
        'its end, inside a delay, before/after earlier pause points, after the last trial was generated), a second pause/resume pair '
        'at every position for the smallest sets, then seeded random histories of up to 12 operations; every history is run to empty. '
        'Also pause(None), resume(None), future pause. Coverage-audit block: times off the grid and at half-sample ties, as NumPy scalars / keywords / omitted, '
        'absolute times that are 0.0 / int 0 (falsy) with the clock elsewhere (negative start offset), the rejection boundary (clock, clock+1, +-0.4, +-0.6 sample), '
        'pause before any request / while paused / untimed then timed, resume while running / twice / backwards, zero-size requests, declared durations longer / '
        'shorter than the waveform and 0, trials set up with decrement=False, every source container / trial-count kind / delay kind, constructor variants, '
        'clone() and get_closest_key while paused, rejected pauses at every position relative to the trial in progress followed by resume / requests / a legal pause '
        'at every position, logs of 300-600 one- or two-sample trials generated ahead and cancelled by an early pause, random histories over that whole grammar. Non-trivial: the pause removed at least one trial.')
TRUSTED = ['harness/queuecore.py']
ASSUMPTIONS = ['pause/resume times are T0 + k/fs with k on or off the grid; the model gets the sample index int(round((t - t0)*fs)) computed with the code\'s own float '
               'expression, and "not after the clock" / "ends after t" are judged on that index (the code compares on the sample grid after the repair)',
               'a rejected (future) pause does NOT end the history: what it leaves behind is compared with the model (after the repair: the queue untouched); '
               'the oracle demands no notification and an unchanged status (clock, empty flag, counters), the queue running / paused as before, and keeps checking conservation',
               'declared durations are whole numbers of samples (they may differ from the waveform length: "ends after t" is about the declared duration)',
               'trials set up with decrement=False are notified as removed but nothing is restored (requeue docstring); conservation counts decremented trials only']
FS = [1000.0, 195312.5, 97656.25]


def _finish(total):
    return [['pop', total], ['pop', 5]]


def cases(tier, rng):
    quick = tier == 'quick'
    sets = [
        [{'len': 3, 'trials': 2, 'kind': 'array', 'delays': 2}],
        [{'len': 3, 'trials': 2, 'kind': 'gen', 'delays': 1}, {'len': 2, 'trials': 1, 'kind': 'array', 'delays': 0}],
        [{'len': 2, 'trials': 1, 'kind': 'array', 'delays': 1}, {'len': 1, 'trials': 2, 'kind': 'gen', 'delays': 0},
         {'len': 4, 'trials': 1, 'kind': 'array', 'delays': 2}],
    ]
    for st in sets:
        span = sum(s['trials'] * (s['len'] + 3) for s in st) * len(st) + 4
        for pol in qc.POLICIES:
            c = {'pol': pol, 'gs': 2, 'stims': st, 'fs': FS[0] if quick else rng.choice(FS), 't0': 0, 'seed': 3}
            # one pause at every position, for several amounts generated before it
            for a in ([span // 3, span] if quick else [2, span // 3, span // 2, span]):
                for t in range(0, a + 1):
                    yield dict(c, ops=[['pop', a], ['pause', t], ['pop', 3], ['resume', t + 2]] + _finish(4 * span))
            # two pauses (second one before / at / after the first)
            a = span // 2
            for t1 in range(0, a + 1, 1 if not quick else 2):
                for t2 in range(max(0, t1 - 3), t1 + 8, 1 if not quick else 3):
                    yield dict(c, ops=[['pop', a], ['pause', t1], ['resume', t1], ['pop', 6], ['pause', t2], ['pop', 2],
                                       ['resume', t2 + 1]] + _finish(4 * span))
            yield dict(c, ops=[['pop', 4], ['pause', 9]])                       # future pause
            yield dict(c, ops=[['pop', 4], ['pause', None], ['pop', 5], ['resume', None]] + _finish(4 * span))
    for _ in range(150 if quick else 4000):
        n = rng.randint(1, 3)
        st = [{'len': rng.randint(1, 6), 'trials': rng.randint(1, 3), 'kind': rng.choice(['array', 'gen', 'cos2']),
               'delays': rng.choice([0, 1, 3])} for _ in range(n)]
        c = {'pol': rng.choice(qc.POLICIES), 'gs': rng.randint(1, n + 1), 'stims': st, 'fs': rng.choice(FS),
             't0': rng.choice([0, 0, 40, 12.34]), 'seed': rng.randint(0, 50), 'fill': rng.choice(['append', 'extend', 'mixed'])}
        ops, clock, paused = [], 0, False
        for _ in range(rng.randint(2, 12)):
            u = rng.random()
            if u < 0.5:
                k = rng.randint(1, 12)
                ops.append(['pop', k])
                clock += k
            elif not paused:
                t = rng.randint(max(0, clock - 15), clock)
                ops.append(['pause', t])
                clock = t
                paused = True
            else:
                t = clock + rng.choice([0, 0, 1, 5]) if rng.random() < 0.8 else max(0, clock - 2)
                ops.append(['resume', t])
                clock = t
                paused = False
        if paused:
            ops.append(['resume', clock])
        yield dict(c, ops=ops + _finish(400))
    yield from _audit_cases(quick, rng, sets)


def _rand_hist(c, rng, nops):
    """random history over the full grammar: pops (incl. zero-size, NumPy sizes), pause/resume in any order (pause
    while paused, resume while running), times on and off the grid and as NumPy scalars / keywords / omitted,
    get_closest_key queries, clone()"""
    ops, clock = [], 0
    for _ in range(nops):
        u = rng.random()
        if u < 0.45:
            k = rng.choice([0, 1, 2, 3, 5, 8, 12])
            ops.append(['pop', k, rng.choice(['', '', 'np', 'kw'])])
            clock += k
        elif u < 0.70:
            if rng.random() < 0.15:
                ops.append(['pause', None, rng.choice(['', 'noarg', 'kw'])])
                continue
            t = rng.randint(max(0, clock - 15), clock) + rng.choice([0, 0, 0.3, -0.3, 0.5, -0.5, 0.45])
            if rng.random() < 0.12:
                ops.append(['pause', clock + rng.choice([1, 2, 3, 6, 30])])      # rejected: nothing changes, the history goes on
                continue
            if t < 0 or qc.eff_time(c, t) > clock:
                t = clock
            ops.append(['pause', t, rng.choice(['', '', 'np', 'kw'])])
            clock = qc.eff_time(c, t)
        elif u < 0.90:
            if rng.random() < 0.2:
                ops.append(['resume', None, rng.choice(['', 'noarg', 'kw'])])
                continue
            t = max(0, clock + rng.choice([0, 0, 1, 5, -2, 0.5, 2.5, 0.3, -0.7]))
            ops.append(['resume', t, rng.choice(['', '', 'np', 'kw'])])
            clock = qc.eff_time(c, t)
        elif u < 0.97:
            ops.append(['closest', rng.choice([clock, clock - 1, clock - 3.5, clock + 2, 0, -1])])
        elif not any(st.get('dkind') == 'gen' for st in c['stims']):
            ops.append(['clone'])
    return ops + [['resume', clock]]


def _audit_cases(quick, rng, sets):
    """Argument kinds, sentinel values, comparison boundaries and operation orders the generators above never
    reached (coverage audit).  Domain: pause times whose sample index is not after the clock; a rejected pause
    ends the history."""
    rep = 1 if quick else 6
    fin = _finish(300)

    def base(pol, st, **kw):
        c = {'pol': pol, 'gs': rng.randint(1, len(st) + 1), 'stims': st, 'fs': rng.choice(FS), 't0': rng.choice([0, 0, 40, 12.34, -6]),
             'seed': rng.randint(0, 50), 'fill': rng.choice(['append', 'extend', 'mixed'])}
        c.update(kw)
        return c
    for pol in qc.POLICIES:
        st = sets[1]
        # times as NumPy scalars / keywords; off the grid (pause: the sample index round((t-t0)*fs) decides; resume:
        # the next trial starts at round(t2*fs)/fs); half-sample ties
        for a in (5, 9, 14):
            for _ in range(rep):
                c = base(pol, st)
                t = rng.randint(0, a - 1) + rng.choice([0.3, 0.5, -0.3, 0.49, 0.0])
                t = max(t, 0)
                yield dict(c, ops=[['pop', a], ['pause', t, rng.choice(['', 'np', 'kw'])], ['pop', 3, 'np'],
                                   ['resume', t + rng.choice([2.5, 0.3, 1.7, 3.5, 0]), rng.choice(['', 'np', 'kw'])]] + fin)
        # absolute times that are falsy (0.0 / int 0) but are not "no time given"
        for a in (6, 11):
            yield dict(base(pol, st, t0=-5), ops=[['pop', a], ['pause', 5], ['pop', 2], ['resume', 5]] + fin)
            yield dict(base(pol, st, t0=-5), ops=[['pop', a], ['pause', 3], ['pop', 2], ['resume', 5], ['pop', 4], ['pause', 5], ['resume', 7]] + fin)
            yield dict(base(pol, st, t0=0), ops=[['pop', a], ['pause', 0, 'int0'], ['pop', 2], ['resume', 0, 'int0']] + fin)
            yield dict(base(pol, st, t0=0), ops=[['pop', a], ['pause', 4], ['pop', 2], ['resume', 0, rng.choice(['', 'int0', 'np'])]] + fin)
            yield dict(base(pol, st, t0=0, mk={'t0': 'skip'}), ops=[['pop', a], ['pause', 0], ['resume', 0, 'kw']] + fin)
        # the rejection boundary: the clock itself, one sample later, and what rounds onto either
        for a in (4, 7):
            c = base(pol, st)
            for t in (a, a + 1, a + 0.4, a + 0.6, a - 0.4):
                yield dict(c, ops=[['pop', a], ['pause', t]] + fin)
            yield dict(c, ops=[['pop', a], ['pause', 2], ['resume', 1], ['pop', 3], ['pause', 5]] + fin)     # clock 4 after the resume
            yield dict(c, ops=[['pop', a], ['pause', 2], ['resume', 1], ['pop', 3], ['pause', 4]] + fin)
        # every order of the three operations: pause before anything, pause while paused, resume while running,
        # untimed then timed, arguments omitted
        c = base(pol, st)
        yield dict(c, ops=[['pause', 0], ['pop', 3], ['resume', 3]] + fin)
        yield dict(c, ops=[['pause', None, 'noarg'], ['pop', 3], ['resume', None, 'noarg']] + fin)
        for a in (5, 8, 12):
            yield dict(c, ops=[['pop', a], ['pause', a - 2], ['pause', a - 4], ['pop', 2], ['resume', a]] + fin)
            yield dict(c, ops=[['pop', a], ['pause', a - 4], ['pop', 1], ['pause', a - 3], ['resume', None]] + fin)
            yield dict(c, ops=[['pop', a], ['pause', None], ['pop', 2], ['pause', a - 1], ['pop', 2], ['resume', None, 'noarg']] + fin)
            yield dict(c, ops=[['pop', a], ['resume', a + 3], ['pop', 4], ['resume', a - 2], ['pop', 2], ['pause', a - 1], ['resume', a - 1]] + fin)
            yield dict(c, ops=[['pop', a], ['pause', a - 1], ['resume', a + 2], ['resume', a]] + fin)
            yield dict(c, ops=[['pop', a], ['pop', 0], ['pause', a - 1], ['pop', 0], ['closest', a - 1], ['closest', a - 4], ['clone'],
                               ['pop', 2], ['closest', a + 1], ['resume', a], ['closest', a]] + fin)
        # declared duration different from the waveform length: "ends after t" is about the declared duration
        for dv in (2, -1, 'zero'):
            std = [dict(x, dur=(0 if dv == 'zero' else max(0, x['len'] + dv))) for x in st]
            c = base(pol, std)
            for t in range(0, 10, 1 if not quick else 2):
                yield dict(c, ops=[['pop', 9], ['pause', t], ['pop', 2], ['resume', t + 1]] + fin)
        # ... and declared durations that differ BETWEEN the stimuli: a later trial has ended by t while an earlier one
        # (long declared duration) still ends after t - the log is not ordered by end time
        for mix in ((12, 0, 3), (0, 12, -1), (7, -1, 20)):
            std = [dict(x, dur=max(0, x['len'] + mix[i % 3])) for i, x in enumerate(st)]
            c = base(pol, std)
            for t in range(1, 14, 2 if not quick else 4):
                yield dict(c, ops=[['pop', 14], ['pause', t], ['pop', 2], ['resume', t + 1]] + fin)
        # trials set up with decrement=False are cancelled (notified) but there is nothing to restore
        P = [{'len': 3, 'trials': 2, 'kind': 'array', 'delays': 1}, {'len': 1, 'trials': 1, 'kind': 'gen', 'delays': 0}]
        c = base(pol, P)
        for a in (3, 6, 9):
            t = rng.randint(0, a + 4)
            yield dict(c, ops=[['pop', a, 'nd'], ['pop', 4], ['pause', t], ['pop', 2, 'nd'], ['resume', t + 1], ['pop', 5, 'ndkw']] + fin)
        # constructor variants
        for mk in ({'via': 'dict', 'opt': 'default'}, {'fs': 'set_fs', 'fs_kind': 'np64', 'opt': 'pos'}, {'fs_kind': 'int', 'opt': 'truthy'}):
            c = base(pol, st, mk=mk, seed=0, fs=1000.0)
            t = rng.randint(0, 9)
            yield dict(c, ops=[['pop', 9], ['pause', t], ['pop', 2], ['resume', t + 3]] + fin)
    # a REJECTED pause does not end the history: rejected at every position relative to the trial in progress (inside
    # its waveform, inside the delay after it, far ahead), then resume() / resume(t), more requests, and a later legal
    # pause at every position (before / inside / after the nominal span of the trial the rejection touched)
    for si, st in enumerate(sets[:2] if quick else sets):
        for pol in qc.POLICIES:
            c = base(pol, st, t0=rng.choice([0, 0, 12.34, -6]))
            for a in ((2, 5) if quick else range(1, 9)):
                for dt in ((1, 2, 3, 5, 40) if quick else (1, 2, 3, 4, 5, 6, 8, 40)):
                    later = list(range(0, a + 8))
                    for t2 in (rng.sample(later, 4) if quick else later):
                        res = rng.choice([None, None, a, a + 1])
                        b = max(0, t2 - (a if res is None else res)) + rng.choice([0, 1, 3])    # enough requests for t2 to be legal
                        yield dict(c, ops=[['pop', a], ['pause', a + dt], ['pop', 2], ['resume', res], ['pop', b], ['pause', t2],
                                           ['pop', 2], ['resume', t2 + 1]] + fin)
            # two rejections in a row, a rejection while paused, a rejection straight after a legal pause
            for a in (3, 6):
                yield dict(c, ops=[['pop', a], ['pause', a + 1], ['pause', a + 2], ['resume', None], ['pop', 4], ['pause', a]] + [['resume', a]] + fin)
                yield dict(c, ops=[['pop', a], ['pause', a - 1], ['pause', a + 1], ['pop', 2], ['resume', a], ['pop', 3], ['pause', a + 1], ['resume', a + 1]] + fin)
                yield dict(c, ops=[['pop', a], ['pause', None], ['pause', a + 2], ['resume', None], ['pop', 5], ['pause', a - 1], ['resume', a + 3]] + fin)
    # long logs: hundreds of very short trials generated ahead in one or a few requests, then a pause at an EARLY time
    # (every one of them ends after t: each is announced as removed once and restored), resume, run to empty
    for pol in qc.POLICIES:
        for _ in range(1 if quick else 6):
            n = rng.choice([1, 2, 3])
            st = [{'len': rng.choice([1, 2]), 'trials': rng.randint(300, 600) // n, 'kind': rng.choice(['array', 'gen']),
                   'delays': rng.choice([0, 1])} for _ in range(n)]
            total = sum(x['trials'] * (x['len'] + x['delays']) for x in st)
            ahead = rng.randint(total * 3 // 4, total + 20)
            pre = [['pop', ahead]] if rng.random() < 0.5 else [['pop', ahead // 3], ['pop', ahead // 3], ['pop', ahead - 2 * (ahead // 3)]]
            t = rng.choice([0, 1, 2, 5, 9])
            c = base(pol, st, gs=rng.randint(1, n + 1), nperms=2 * (600 // n) + 40, fill='append')
            # ... at a LOW rate as well: the same look-ahead is then minutes long (a pause more than a minute before
            # the newest trial), so a log pruned by age rather than by the pause time shows
            c['fs'] = rng.choice([1.0, 2.0] if quick else [1.0, 2.0, c['fs']])
            c['t0'] = rng.choice([0, 40, -6])
            yield dict(c, ops=pre + [['pause', t], ['pop', 3], ['resume', t + rng.choice([0, 2])], ['pop', 4 * total + 50], ['pop', 5]])
    # random histories over the full grammar, stimuli of every container / trial-count / delay kind
    for _ in range(120 if quick else 3000):
        n = rng.randint(1, 3)
        st = []
        for _ in range(n):
            x = {'len': rng.randint(1, 6), 'trials': rng.randint(1, 3), 'delays': rng.choice([0, 1, 3, None, 1.5, 0.4, 0.5, 2.5]),
                 'kind': rng.choice(['array', 'gen', 'cos2', 'i64', 'f32', 'ro', 'view', 'list', 'i16']),
                 'tkind': rng.choice(['int', 'int', 'np', 'float']), 'dkind': rng.choice(['auto', 'np', 'int0'])}
            if rng.random() < 0.25:
                x['delays'] = [rng.randint(0, 3) for _ in range(rng.randint(1, 3))]
                x['dkind'] = 'cycle'
            elif rng.random() < 0.15:
                x['delays'] = [rng.randint(0, 3) for _ in range(40)]
                x['dkind'] = rng.choice(['auto', 'tuple', 'ndarray', 'iter', 'gen'])
            if rng.random() < 0.2:
                x['meta'] = rng.choice([0, '', {'a': 1}, 'x'])
            st.append(x)
        c = base(rng.choice(qc.POLICIES), st, fill=rng.choice(['append', 'extend', 'mixed', 'extend_scalar', 'extend_np']))
        yield dict(c, ops=_rand_hist(c, rng, rng.randint(3, 14)) + _finish(400))


def impl(case):
    return qc.run_impl(case)


def _tests(args, case):
    from vlib import listlit, zlit
    ops = []
    for o in case['ops']:
        if o[0] == 'pop':
            ops.append(f'Pop {zlit(o[1])}')
        else:
            a = 'None' if o[1] is None else f'(Some {zlit(qc.eff_time(case, o[1]))})'
            ops.append(('Pause ' if o[0] == 'pause' else 'Resume ') + a)
    return [f"conservation_test {args} {listlit(ops)}"]


def expr(case, res):
    e, n = qc.coq_expr(case, res, _tests)
    case['_ntests'] = n
    return e


def agree(case, res, mo):
    return qc.compare(case, res, mo, case.get('_ntests', 0))


def nontrivial(case, res):
    return any(e[0] == 'removed' for r in res for e in r.get('events', []))


def oracle(case, res):
    """C04 judged on the implementation's notifications only."""
    stims = case['stims']
    req = [s['trials'] for s in stims]
    live = []          # [key, start sample, decremented] of trials added and not removed
    paused = False
    timed_pause = False
    expect_start = None
    clk = 0            # queue clock (samples) before the current operation
    prev_status = None # status after the previous operation
    for o, r in zip(case['ops'], res):
        if o[0] == 'pause':
            t = None if o[1] is None else qc.eff_time(case, o[1])      # sample index the time denotes
            if 'raised' in r:
                # must be a future pause, and the rejection comes before anything is cancelled: no notification, the
                # status as it was, the queue running / paused as before (the accounting below goes on holding)
                if not (t is not None and t > clk):
                    return 'pause raised ValueError for a time not after the clock'
                if r['events']:
                    return f'rejected pause({o[1]}) sent notifications {r["events"]}'
                if prev_status is not None and r['status'] != prev_status:
                    return f'rejected pause({o[1]}) changed the status from {prev_status} to {r["status"]}'
            elif t is not None:
                if t > clk:
                    return 'a pause time later than the queue clock was accepted'
                should = [x[:2] for x in live if x[1] + qc.declared_dur(stims[x[0]]) > t]
                got = [[e[1], e[2]] for e in r['events'] if e[0] == 'removed']
                if sorted(got) != sorted(should):
                    return f'pause({o[1]}): removed {sorted(got)}, but the trials ending after t are {sorted(should)}'
                for x in got:
                    live.remove(next(y for y in live if y[:2] == x))
                if r['status']['samples'] != t:
                    return f'pause({o[1]}) left the clock at {r["status"]["samples"]}'
            elif r['events']:
                return 'pause() without a time sent notifications'
            if 'raised' not in r:
                paused = True
                timed_pause = timed_pause or t is not None
        elif o[0] == 'resume':
            paused = False
            # after pause(t) nothing is pending, so the next trial starts at the resume time; after an
            # untimed pause the interrupted trial / delay simply continues
            expect_start = r['status']['samples'] if timed_pause else None
            timed_pause = False
            if o[1] is not None and r['status']['samples'] != qc.eff_time(case, o[1]):
                return f'resume({o[1]}) left the clock at {r["status"]["samples"]}'
            if o[1] is None and r['status']['samples'] != clk:
                return f'resume() moved the clock from {clk} to {r["status"]["samples"]}'
            if r['events']:
                return 'resume sent notifications'
        elif o[0] == 'pop':
            if 'raised' in r:
                return f'pop_buffer raised {r["raised"]}'
            added = [e for e in r['events'] if e[0] == 'added']
            if [e for e in r['events'] if e[0] == 'removed']:
                return 'a removed notification outside pause'
            if paused and (added or any(v != 0 for v in r['wave'])):
                return 'output or a new trial while paused'
            if len(r['wave']) != max(o[1], 0) or r['status']['samples'] != clk + len(r['wave']):
                return f'request of {o[1]} samples returned {len(r["wave"])}, clock {clk} -> {r["status"]["samples"]}'
            for e in added:
                if expect_start is not None:
                    if e[2] != expect_start:
                        return f'first trial after resume starts at {e[2]}, not at the resume time {expect_start}'
                    expect_start = None
                live.append([e[1], e[2], e[6]])
        # conservation at every step: remaining = requested - live (automatically decremented) presentations
        if 'status' in r:
            prev_status = r['status']
            clk = r['status']['samples']
            net = [sum(1 for x in live if x[0] == k and x[2]) for k in range(len(stims))]
            want = [a - b for a, b in zip(req, net)]
            if r['status']['remaining'] != want:
                return f'after {o}: remaining trials {r["status"]["remaining"]}, but requested - (added - removed) = {want}'
    last = [r for r in res if 'status' in r]
    last = last[-1] if last and 'raised' not in res[-1] else None
    if last is not None and last['status']['empty'] and paused is False:
        net = [sum(1 for x in live if x[0] == k and x[2]) for k in range(len(stims))]
        if case['pol'] in qc.EXACT:
            if net != req:
                return f'at empty: non-cancelled presentations {net}, requested {req}'
        elif any(a < b for a, b in zip(net, req)):
            return f'at empty: non-cancelled presentations {net} fewer than requested {req}'
    elif last is not None and paused is False:
        return 'queue never reported empty'
    return None


def distribution(cases, results):
    d = {}
    for c, r in zip(cases, results):
        k = c['pol']
        d.setdefault(k, {'histories': 0, 'with_removal': 0})
        d[k]['histories'] += 1
        d[k]['with_removal'] += int(any(e[0] == 'removed' for x in r for e in x.get('events', [])))
    return d


# ====================================================================================================================
# Translator tie (appended; nothing above is changed): the same regenerated file as harness/C02.py - coq/gen/QueueStepGen.v,
# one Gallina definition per method of psiaudio/queue.py (translate/pyqueue2coq.py), here the pause / resume path
# (_ends_after, rewind_samples, cancel, requeue x2 + its dispatch, pause, resume) - is rebuilt, so that the theorems
# C04_source_* of coq/Props/C04.v (coq/Queue/ProofsTieC04.v: the generated pause / resume are the model's, a history run
# with the generated methods is the model's history, hence conservation / pause_exact / future_pause_rejected hold of it)
# are re-checked against what the source says now.
import C02 as _C02

TRUSTED = list(TRUSTED) + [t for t in _C02.TRUSTED if t.startswith(('translate/pyqueue2coq.py', 'coq/Queue/TieLib.v'))] + [
    'translate/pyqueue2coq.py, pause / resume path: pinned to sample numbers (the harness hands the model int(round((t - t0) * fs))): '
    'the rejection test of pause, `new_sample = int(round((t - self._t0) * self._fs))`, both lines of _ends_after (end = t0 + declared '
    'duration of the log entry, compared with t), `int(round(delay * self._fs))` of cancel; logging with '
    'compound arguments and the `trials = {..}` dicts built for it dropped; coq/Queue/TieLibC04.v (for loops with an accumulator, '
    'list comprehension with a method call as filter, collections.Counter(l).items() as the (key, count) pairs in order of first occurrence)']


def translate(repo):
    """regenerate coq/gen/QueueStepGen.v from the source under test (see harness/C02.py translate)"""
    return _C02.translate(repo)
