"""C04 - pause/resume conserves trials and reports every cancellation exactly once.  Model: coq/Queue/Model.v."""
import numpy as np
import queuecore as qc

PROP = 'C04'
REQUIRES = ['Queue.Model', 'Queue.Spec']
RULE = ('all seven queue classes x small stimulus sets (1-3 stimuli, lengths 1..6, trials 1..3, delays 0..3, array and generator '
        'sources): histories pop(a) pause(t) pop(b) resume(t2) pop(rest) with t at EVERY sample position 0..clock (inside a waveform, exactly at '
        'its end, inside a delay, before/after earlier pause points, after the last trial was generated), a second pause/resume pair '
        'at every position for the smallest sets, then seeded random histories of up to 12 operations; every history is run to empty. '
        'Also pause(None), resume(None), future pause. Non-trivial: the pause removed at least one trial.')
TRUSTED = ['harness/queuecore.py']
ASSUMPTIONS = ['pause/resume times are on the sample grid (T0 + k/fs); the code compares t0+duration > t on the sample grid (after the repair)',
               'a rejected (future) pause ends the history: the property does not say what the state is afterwards',
               'declared duration == waveform length (sources built by the harness)']
FS = [1000.0, 195312.5, 97656.25]


def _finish(total):
    return [['pop', total], ['pop', 5]]


def cases(tier, rng):
    quick = tier == 'quick'
    sets = [
        [{'len': 3, 'trials': 2, 'kind': 'array', 'delays': 2}],
        [{'len': 3, 'trials': 2, 'kind': 'gen', 'delays': 1}, {'len': 2, 'trials': 1, 'kind': 'array', 'delays': 0}],
        [{'len': 2, 'trials': 1, 'kind': 'array', 'delays': 1}, {'len': 1, 'trials': 2, 'kind': 'gen', 'delays': 0},
         {'len': 4, 'trials': 1, 'kind': 'array', 'delays': 2}],
    ]
    for st in sets:
        span = sum(s['trials'] * (s['len'] + 3) for s in st) * len(st) + 4
        for pol in qc.POLICIES:
            c = {'pol': pol, 'gs': 2, 'stims': st, 'fs': FS[0] if quick else rng.choice(FS), 't0': 0, 'seed': 3}
            # one pause at every position, for several amounts generated before it
            for a in ([span // 3, span] if quick else [2, span // 3, span // 2, span]):
                for t in range(0, a + 1):
                    yield dict(c, ops=[['pop', a], ['pause', t], ['pop', 3], ['resume', t + 2]] + _finish(4 * span))
            # two pauses (second one before / at / after the first)
            a = span // 2
            for t1 in range(0, a + 1, 1 if not quick else 2):
                for t2 in range(max(0, t1 - 3), t1 + 8, 1 if not quick else 3):
                    yield dict(c, ops=[['pop', a], ['pause', t1], ['resume', t1], ['pop', 6], ['pause', t2], ['pop', 2],
                                       ['resume', t2 + 1]] + _finish(4 * span))
            yield dict(c, ops=[['pop', 4], ['pause', 9]])                       # future pause
            yield dict(c, ops=[['pop', 4], ['pause', None], ['pop', 5], ['resume', None]] + _finish(4 * span))
    for _ in range(150 if quick else 4000):
        n = rng.randint(1, 3)
        st = [{'len': rng.randint(1, 6), 'trials': rng.randint(1, 3), 'kind': rng.choice(['array', 'gen', 'cos2']),
               'delays': rng.choice([0, 1, 3])} for _ in range(n)]
        c = {'pol': rng.choice(qc.POLICIES), 'gs': rng.randint(1, n + 1), 'stims': st, 'fs': rng.choice(FS),
             't0': rng.choice([0, 0, 40, 12.34]), 'seed': rng.randint(0, 50), 'fill': rng.choice(['append', 'extend', 'mixed'])}
        ops, clock, paused = [], 0, False
        for _ in range(rng.randint(2, 12)):
            u = rng.random()
            if u < 0.5:
                k = rng.randint(1, 12)
                ops.append(['pop', k])
                clock += k
            elif not paused:
                t = rng.randint(max(0, clock - 15), clock)
                ops.append(['pause', t])
                clock = t
                paused = True
            else:
                t = clock + rng.choice([0, 0, 1, 5]) if rng.random() < 0.8 else max(0, clock - 2)
                ops.append(['resume', t])
                clock = t
                paused = False
        if paused:
            ops.append(['resume', clock])
        yield dict(c, ops=ops + _finish(400))


def impl(case):
    return qc.run_impl(case)


def _tests(args, case):
    from vlib import listlit, zlit
    ops = []
    for o in case['ops']:
        if o[0] == 'pop':
            ops.append(f'Pop {zlit(o[1])}')
        else:
            a = 'None' if o[1] is None else f'(Some {zlit(qc.eff_time(case, o[1]))})'
            ops.append(('Pause ' if o[0] == 'pause' else 'Resume ') + a)
    return [f"conservation_test {args} {listlit(ops)}"]


def expr(case, res):
    e, n = qc.coq_expr(case, res, _tests)
    case['_ntests'] = n
    return e


def agree(case, res, mo):
    return qc.compare(case, res, mo, case.get('_ntests', 0))


def nontrivial(case, res):
    return any(e[0] == 'removed' for r in res for e in r.get('events', []))


def oracle(case, res):
    """C04 judged on the implementation's notifications only."""
    stims = case['stims']
    req = [s['trials'] for s in stims]
    live = []          # [key, t0] of trials added and not removed
    paused = False
    timed_pause = False
    expect_start = None
    for o, r in zip(case['ops'], res):
        if o[0] == 'pause':
            if o[1] is not None and 'raised' not in r:
                pass
            if 'raised' in r:
                # must be a future pause
                return None if (o[1] is not None and o[1] > clock(res, r)) else 'pause raised ValueError for a time not after the clock'
            if o[1] is not None:
                if o[1] > prev_clock(res, r):
                    return 'a pause time later than the queue clock was accepted'
                t = o[1]
                should = [x for x in live if x[1] + stims[x[0]]['len'] > t]
                got = [[e[1], e[2]] for e in r['events'] if e[0] == 'removed']
                if sorted(got) != sorted(should):
                    return f'pause({t}): removed {sorted(got)}, but the trials ending after t are {sorted(should)}'
                for x in got:
                    live.remove(x)
                if r['status']['samples'] != t:
                    return f'pause({t}) left the clock at {r["status"]["samples"]}'
            paused = True
            timed_pause = o[1] is not None
        elif o[0] == 'resume':
            paused = False
            # after pause(t) nothing is pending, so the next trial starts at the resume time; after an
            # untimed pause the interrupted trial / delay simply continues
            expect_start = r['status']['samples'] if timed_pause else None
            if o[1] is not None and r['status']['samples'] != o[1]:
                return f'resume({o[1]}) left the clock at {r["status"]["samples"]}'
        else:
            if 'raised' in r:
                return f'pop_buffer raised {r["raised"]}'
            added = [e for e in r['events'] if e[0] == 'added']
            if paused and (added or any(v != 0 for v in r['wave'])):
                return 'output or a new trial while paused'
            for e in added:
                if expect_start is not None:
                    if any(sum(req) == 0 for _ in [0]):
                        pass
                    if e[2] != expect_start:
                        return f'first trial after resume starts at {e[2]}, not at the resume time {expect_start}'
                    expect_start = None
                live.append([e[1], e[2]])
        # conservation at every step, exact policies: remaining = requested - live presentations
        if 'status' in r and case['pol'] in qc.EXACT:
            net = [sum(1 for x in live if x[0] == k) for k in range(len(stims))]
            want = [a - b for a, b in zip(req, net)]
            if r['status']['remaining'] != want:
                return f'after {o}: remaining trials {r["status"]["remaining"]}, but requested - (added - removed) = {want}'
    last = res[-1]
    if 'status' in last and last['status']['empty'] and not paused:
        net = [sum(1 for x in live if x[0] == k) for k in range(len(stims))]
        if case['pol'] in qc.EXACT:
            if net != req:
                return f'at empty: non-cancelled presentations {net}, requested {req}'
        elif any(a < b for a, b in zip(net, req)):
            return f'at empty: non-cancelled presentations {net} fewer than requested {req}'
    elif 'status' in last and not paused:
        return 'queue never reported empty'
    return None


def clock(res, r):
    i = res.index(r)
    return res[i - 1]['status']['samples'] if i > 0 else 0


prev_clock = clock


def distribution(cases, results):
    d = {}
    for c, r in zip(cases, results):
        k = c['pol']
        d.setdefault(k, {'histories': 0, 'with_removal': 0})
        d[k]['histories'] += 1
        d[k]['with_removal'] += int(any(e[0] == 'removed' for x in r for e in x.get('events', [])))
    return d
