"""C19 - no code path can fail on an unresolved name.

Tie: TRANSLATOR.  translate/pynames2coq.py regenerates coq/gen/Names_<module>.v (scope trees of the ten modules) and
coq/gen/Names_env.v (dir() facts of the installed interpreter/libraries) from $PSIAUDIO_REPO on every run;
coq/Props/C19.v re-checks `check_module_except (known m) gen_env gen_<module> = true` by vm_compute, and
coq/Names/Sound.v proves that this boolean decides the relational name-resolution specification of coq/Names/Scope.v.

Cases (translator <-> reality cross-check): every code object that CPython compiles from the module source is one
case (unit = def / class body / module, with its lambdas and comprehensions).  impl reads the unit's BYTECODE:
every LOAD_GLOBAL / LOAD_NAME with the attribute chain (LOAD_ATTR run) that follows it and its line.  term: the
regenerated scope model lists exactly the same (name, chain, line) loads for that unit (check_unit).  oracle: in the
imported module every such name of a function/method is in vars(module) or builtins, and every chain read off a module
object finds its attributes.
"""
import builtins
import dis
import importlib
import os
import re
import sys
import types

import vlib
from vlib import listlit, zlit

sys.path.insert(0, os.path.join(vlib.VERIF, 'translate'))
import pynames2coq as T  # noqa: E402

PROP = 'C19'
REQUIRES = ['Names.Env']
MODULES = T.MODULES
RULE = ('static: one case per code unit (module body, every class body, every def/method, with nested lambdas and '
        'comprehensions merged into it) of the ten modules, all of them in both tiers (no sampling); per module one '
        'more case comparing the set of units.  Non-trivial: the unit loads at least one global or builtin name.')
TRUSTED = ['translate/pynames2coq.py (Python ast -> scope tree; syntactic, fail-closed on unknown node kinds; '
           'dir()/getattr facts of the installed libraries)',
           'harness/C19.py (bytecode reader: dis LOAD_GLOBAL/LOAD_NAME/LOAD_ATTR; live lookup in vars(module)/builtins)',
           'CPython 3.12 compiler: the names a code object loads by name are those dis reports']
ASSUMPTIONS = ['STRICT reading (coq/Names/Scope.v, end): a module global counts only if a binding of it can take effect on import in '
               'the installed environment - an import of a module that is not installed, `from m import n` of a missing n, '
               'bindings inside `if __name__ == "__main__":`, the name of a module-level `except ... as e`, and names deleted '
               'with `del` do NOT count; module-level code itself is judged permissively (it ran when the module was imported)',
               'bindings under run-time conditions that cannot be decided statically (if/else, for/while bodies and else, try '
               'bodies other than imports, `global x` assigned in a function that may not have run) count as bound: "possibly '
               'unbound" is outside the claim; the live oracle judges them in the environment at hand',
               'rejected as translator gap (never accepted silently): TYPE_CHECKING / constant-false / __debug__ guards, star '
               'imports, from __future__ import annotations, exec/eval, getattr(<imported module>, "constant"), explicit '
               '__class__, walrus in comprehensions, match, async, type aliases/parameters',
               'a global with several effective bindings of different kinds (import + fallback assignment) is not typed as a '
               'module: chains on it are left to the live oracle; getattr with a non-constant name is dynamic (outside)',
               'function locals, closure variables and class attributes that may be unbound on some path are outside the claim',
               'instance attributes and attributes of non-module values are outside the claim',
               'failing import statements (e.g. tqdm inside util.get_cb) are outside the claim',
               'module globals are names bound anywhere at module level (a binding in a branch that did not run counts); '
               'no dynamic namespace manipulation (globals()[..], setattr on modules, del of globals)',
               'module attribute facts are those of the installed versions (see coverage.translator.versions), after '
               'importing every module the sources import',
               'reads listed in known_findings.txt (key=<module>:<unit>:<name>) are excluded from the per-module theorems']
COMP_NAMES = ('<lambda>', '<listcomp>', '<genexpr>', '<setcomp>', '<dictcomp>')
NAME_LOADS = ('LOAD_GLOBAL', 'LOAD_NAME', 'LOAD_FROM_DICT_OR_GLOBALS')
SELFTESTS = ['selftest', 'selftest2']


def _known_keys():
    known, _ = vlib.load_known()
    return sorted(k['key'] for k in known if k['property'] == PROP)


def translate(repo):
    info = T.run(repo, os.path.join(vlib.COQ, 'gen'))
    rows = []
    for key in _known_keys():
        parts = key.split(':')
        if len(parts) != 3 or parts[0] not in MODULES:
            raise vlib.MachineryError(f'known_findings.txt: malformed C19 key {key!r} (want module:unit:name)')
        rows.append(f'({T.q(T.PACKAGE + "." + parts[0])}, ({T.q(parts[1])}, {T.q(parts[2])}))')
    text = ('(* GENERATED by harness/C19.py from /verif/known_findings.txt (C19 known: lines) - do not edit *)\n'
            'From PV Require Import Names.Scope.\nOpen Scope string_scope.\n'
            'Definition gen_known : list (string * (string * string)) := [' + '; '.join(rows) + '].\n')
    # always rewritten: every run re-checks the theorems against what was regenerated now
    with open(os.path.join(vlib.COQ, 'gen', 'Names_known.v'), 'w') as f:
        f.write(text)
    info['gen_files'].append('gen/Names_known.v')
    info['known_exceptions'] = _known_keys()
    return info


# ------------------------------------------------------------------------------------------ bytecode side
_CODE = {}


def _units(m):
    """unit name -> list of code objects, compiled from the source file (nothing is imported or executed)"""
    if m in _CODE:
        return _CODE[m]
    if m in SELFTESTS:
        path = os.path.join(vlib.VERIF, 'translate', f'pynames_{m}.py')
    else:
        path = os.path.join(vlib.REPO, T.PACKAGE, m + '.py')
    top = compile(open(path).read(), path, 'exec')
    units = {}

    def walk(co, unit):
        units.setdefault(unit, []).append(co)
        for c in co.co_consts:
            if isinstance(c, types.CodeType):
                walk(c, unit if c.co_name in COMP_NAMES else c.co_qualname)
    walk(top, '<module>')
    _CODE[m] = units
    return units


def _is_function_unit(m, unit):
    """def/method (judged by the oracle); class bodies and the module body ran at import time"""
    if unit == '<module>':
        return False
    co = _units(m)[unit][0]
    return bool(co.co_flags & 0x2)        # CO_NEWLOCALS: functions, not class bodies


def _loads(m, unit):
    out = set()
    for co in _units(m)[unit]:
        ins = list(dis.get_instructions(co))
        for i, x in enumerate(ins):
            if x.opname in NAME_LOADS:
                attrs = []
                j = i + 1
                while j < len(ins) and ins[j].opname == 'LOAD_ATTR':
                    attrs.append(ins[j].argval)
                    j += 1
                out.add((x.argval, tuple(attrs), x.positions.lineno))
    return sorted(out)


def _from_imports(m, unit):
    """(absolute module, name, line) of every `from <module of the package> import name` the unit's bytecode executes"""
    import importlib.util as iu
    out = set()
    for co in _units(m)[unit]:
        ins = list(dis.get_instructions(co))
        for i, x in enumerate(ins):
            if x.opname != 'IMPORT_NAME' or i < 2 or ins[i - 2].opname != 'LOAD_CONST':
                continue
            level = ins[i - 2].argval
            try:
                absname = iu.resolve_name('.' * level + (x.argval or ''), T.PACKAGE) if level else x.argval
            except ImportError:
                continue
            absname = absname.rstrip('.')
            if absname.split('.')[0] != T.PACKAGE:
                continue
            j = i + 1
            while j < len(ins) and ins[j].opname != 'POP_TOP':
                if ins[j].opname == 'IMPORT_FROM':
                    out.add((absname, ins[j].argval, ins[j].positions.lineno))
                j += 1
    return sorted(out)


def _import_missing(absname, name):
    try:
        mod = importlib.import_module(absname)
    except Exception:
        return None          # a failing import of the module itself is outside the claim
    if hasattr(mod, name):
        return None
    try:
        importlib.import_module(absname + '.' + name)
        return None
    except Exception:
        return f'from {absname} import {name}'


def cases(tier, rng):
    yield {'k': 'strict_report', 'm': 'selftest2'}
    for m in SELFTESTS + MODULES:
        try:
            us = _units(m)
        except (SyntaxError, OSError):
            yield {'k': 'units', 'm': m}
            continue
        yield {'k': 'units', 'm': m}
        for u in sorted(us):
            yield {'k': 'unit', 'm': m, 'unit': u}


def _module(m):
    return importlib.import_module(f'{T.PACKAGE}.{m}')


def _missing(mod, name, attrs):
    """None if the read succeeds in the imported module, else what fails"""
    g = vars(mod)
    if name in g:
        obj = g[name]
    elif hasattr(builtins, name):
        return None
    else:
        return name
    path = name
    for a in attrs:
        if not isinstance(obj, types.ModuleType):
            return None
        path += '.' + a
        try:
            obj = getattr(obj, a)
        except AttributeError:
            return path
        except Exception:
            return None
    return None


def _probe_selftest2():
    """import translate/pynames_selftest2.py (not as __main__), call every probe; units that raise NameError or
    AttributeError on a module object"""
    import importlib.util
    path = os.path.join(vlib.VERIF, 'translate', 'pynames_selftest2.py')
    spec = importlib.util.spec_from_file_location('pynames_selftest2', path)
    mod = importlib.util.module_from_spec(spec)
    spec.loader.exec_module(mod)
    bad = []
    for unit, f in mod.PROBES.items():
        try:
            f()
        except NameError:
            bad.append(unit)
        except AttributeError as e:
            if str(e).startswith('module '):
                bad.append(unit)
    missing = [u for u in mod.LIVE_ONLY if u not in bad]
    if missing:
        raise vlib.MachineryError(f'selftest2: LIVE_ONLY units {missing} did not fail when called')
    return sorted(u for u in bad if u not in mod.LIVE_ONLY), len(mod.PROBES)


def impl(case):
    m = case['m']
    if case['k'] == 'strict_report':
        bad, n = _probe_selftest2()
        return {'failing_units': bad, 'probes': n}
    if case['k'] == 'units':
        return {'units': sorted(_units(m))}
    if case['k'] == 'unresolved':      # a report of the Coq checker (search), confirmed against the live module
        mod = _module(m)
        fm = re.match(r'from (\S+) import (\S+)$', case['name'])
        if fm:
            bad = _import_missing(fm.group(1), fm.group(2))
        else:
            text = case['name'].split('.')
            bad = _missing(mod, text[0], text[1:])
        return {'missing': [[bad, case['line']]] if bad else []}
    loads = _loads(m, case['unit'])
    missing = []
    if m not in SELFTESTS and _is_function_unit(m, case['unit']):
        mod = _module(m)
        for name, attrs, line in loads:
            bad = _missing(mod, name, attrs)
            if bad:
                missing.append([bad, line])
        for absname, name, line in _from_imports(m, case['unit']):
            bad = _import_missing(absname, name)
            if bad:
                missing.append([bad, line])
    return {'loads': [[n, list(a), l] for n, a, l in loads], 'missing': missing}


def _s(x):
    return T.q(x)


def term(case, res):
    short = case['m']
    if case['k'] == 'strict_report':
        return f"check_strict_report {listlit([_s(u) for u in res['failing_units']])}"
    if case['k'] == 'units':
        return f"check_units gen_{short} {listlit([_s(u) for u in res['units']])}"
    if case['k'] == 'unresolved':
        return 'true'
    loads = listlit([f"({_s(n)}, {listlit([_s(a) for a in at])}, {zlit(l)})" for n, at, l in res['loads']])
    return f"check_unit gen_{short} {_s(case['unit'])} {loads}"


def oracle(case, res):
    if res.get('missing'):
        what = ', '.join(f'{n} (line {l})' for n, l in res['missing'])
        unit = case.get('unit')
        return (f"psiaudio.{case['m']}: {unit} reads {what}: not in the module's globals, not a builtin / "
                f"not an attribute of the imported module -> NameError/AttributeError when that line runs")
    return None


def key(case, res):
    """known-finding key <module>:<unit>:<name>; a unit with several unresolved names is known only if all are"""
    if case['k'] == 'unresolved':
        return f"{case['m']}:{case['unit']}:{case['name']}"
    if not res or not res.get('missing'):
        return None
    keys = [f"{case['m']}:{case['unit']}:{n}" for n, _ in res['missing']]
    known = set(_known_keys())
    for k in keys:
        if k not in known:
            return k
    return keys[0]


def nontrivial(case, res):
    return (case['k'] == 'unit' and bool(res.get('loads'))) or case['k'] == 'strict_report'


def distribution(cases, results):
    d = {}
    for c, r in zip(cases, results):
        if c['k'] != 'unit' or not isinstance(r, dict) or 'loads' not in r:
            continue
        e = d.setdefault(c['m'], {'units': 0, 'function_units': 0, 'loads': 0, 'chains': 0})
        e['units'] += 1
        e['function_units'] += _is_function_unit(c['m'], c['unit'])
        e['loads'] += len(r['loads'])
        e['chains'] += sum(1 for x in r['loads'] if x[1])
    return d


# ------------------------------------------------------------------------------------------ search
ROW = re.compile(r'\(\s*"([^"]*)",\s*\(?\s*"((?:[^"]|"")*)",\s*"((?:[^"]|"")*)",\s*(-?\d+)\s*\)')


def checker_report():
    """what the PROVED checker lists as unresolved in the regenerated models: [(module, unit, text, line)]"""
    raw = vlib.coq_eval(PROP, REQUIRES, 'flat_map (fun m => map (fun r => (m_name m, r)) '
                        '(app (unresolved_except (known m) gen_env m) '
                        '(unresolved_strict (known m) gen_env_strict m))) gen_pkg')
    if not re.match(r'\s*=', raw):
        raise vlib.MachineryError('cannot evaluate the checker report: ' + raw[-1500:])
    out = []
    for mod, unit, text, line in ROW.findall(raw.rsplit(': list', 1)[0]):
        out.append((mod.split('.')[-1], unit.replace('""', '"'), text.replace('""', '"'), int(line)))
    return out


def search(tier, rng):
    """Called when a theorem of Props/C19.v stopped checking (or a unit disagreed): name every unresolved read the
    checker reports and keep those that the live module confirms."""
    found = []
    for m, unit, text, line in sorted(set(checker_report())):
        if text.startswith('translator gap'):
            continue
        try:
            fm = re.match(r'from (\S+) import (\S+)$', text)
            parts = text.split('.')
            bad = _import_missing(fm.group(1), fm.group(2)) if fm else _missing(_module(m), parts[0], parts[1:])
            if not bad:
                continue           # the live module resolves it: not a confirmed failing input
            case = {'k': 'unresolved', 'm': m, 'unit': unit, 'name': bad, 'line': line}
            res = impl(case)
        except Exception:
            continue
        msg = oracle(case, res)
        if msg:
            found.append((case, msg))
    return found
