"""C15 - SignalBuffer operations are atomic under concurrent use.

Proof side: coq/Conc/{Sched,Serial,Lang,Tie,Current}.v, coq/Props/C15.v, table coq/gen/BufferLockGen.v regenerated
from $PSIAUDIO_REPO/psiaudio/buffer.py by translate/pylocks2coq.py on every run (`translate`).

Cases:
  k='method'   translator self-check, one per method: the table's own field/call sets vs (a) the names the
               COMPILER put into the method's bytecode (LOAD_ATTR/STORE_ATTR) and (b) what an instrumented
               instance observed inside that method's own frame while a scenario ran.
  k='mutable'  fields whose value/contents changed while the scenario ran are in the table's computed mutable set.
  k='explore'  (consistency test of the theorem's conclusion on the real code) the REAL SignalBuffer under a
               deterministic line-granular scheduler: writer op || reader op, every schedule with <= p pre-emptions;
               each (reader result, final state) must be one of the two serial outcomes.
  k='sched'    one explicit schedule (what `search` returns as the replay of a torn read).
"""
import dis
import itertools
import os
import sys
import threading
import time

import numpy as np
from vlib import listlit

HERE = os.path.dirname(os.path.abspath(__file__))
sys.path.insert(0, os.path.join(os.path.dirname(HERE), 'translate'))
import pylocks2coq  # noqa: E402

PROP = 'C15'
REQUIRES = ['Common.ListX', 'Conc.Lang', 'gen.BufferLockGen']
RULE = ('translator self-check: every method of SignalBuffer (table sets vs bytecode attribute names + reported alias extras; run-time '
        'observed accesses per frame within the table sets; fields seen changing within the computed mutable set; no read hands out '
        'memory shared with the ring buffer, statically (alias analysis of return values) and dynamically (np.shares_memory)). '
        'Schedule exploration of the real class: 11 writer operations (append 1 / 2 / exactly cap / cap+2; invalidate_samples inside / at '
        'the lower bound / at the upper bound (no-op); invalidate(t) float and NumPy-int; resize grow / shrink) x 19 reader operations '
        '(get_range_samples, get_range with None / one-sided / int / NumPy-scalar bounds; get_latest with and without fill incl. fill 0.0 '
        'and ub != 0; get_range_filled overlapping and entirely outside; the four bound queries) x 6 initial states (empty, partly filled, '
        'full, just invalidated, two channels, resized); switch points: every source line and every return of a buffer.py frame; quick: '
        '1/9 of the pairs covering every writer x reader method combination, <= 1 pre-emption, plus 7 writer x writer pairs; thorough: every '
        'pair (every 2nd <= 2 pre-emptions, every 25th <= 3, the rest <= 1), writer x writer on 3 states. Non-trivial: a method that touches a mutable field or calls '
        'another method; an exploration in which a thread was blocked on the lock or both serial outcomes were observed.')
TRUSTED = ['translate/pylocks2coq.py (AST -> lock-structure table; fail-closed: unclassifiable statements become SOpaque, which no '
           'discipline accepts)',
           'coq/Conc/Lang.v `den`: the meaning given to the table (call inlining, statement parts, return/raise/exception edges leave '
           '`with` blocks through a release) as a description of how CPython runs the method at source-line granularity',
           'harness/C15.py (bytecode/run-time cross-check of the table; sys.settrace line scheduler used for the search and the '
           'consistency test)']
ASSUMPTIONS = ['atomicity unit = one source statement part (a statement with n self-method calls is n+1 parts with the callee bodies in '
               'between); CPython switches threads between BYTECODES, and NumPy may release the GIL inside a copy: a data race inside one '
               'statement is outside the model.  The lock is modelled as mutual exclusion with re-entrancy (threading.RLock).',
               'each statement part respects its declared field sets (footprint_ok): parts that mention no mutable shared field neither '
               'change nor depend on the shared store.  '
               'Aliasing through locals is tracked flow-insensitively by the translator (conservative); a read is compared by the value the caller holds when it runs next, and separately by the value at the moment of return (a difference = a returned view).',
               'operation set = the property\'s writers/readers plus every other public method; time_to_index / samples_to_index called '
               'directly are helpers outside the set (they read two mutable fields under no lock)',
               'mutable shared field = any self._x assigned (also through subscripts, method calls on it, or being passed to a foreign '
               'call) in a method other than __init__; the other fields are construction-time constants']

_INFO = None


def translate(repo):
    global _INFO
    info = pylocks2coq.translate(repo, os.path.join(os.path.dirname(HERE), 'coq', 'gen'))
    _INFO = info
    out = {k: v for k, v in info.items() if k != 'table'}
    # strings whose presence in a failed build's output means "the regenerated model broke the obligation"
    out['gen_files'] = ['gen/BufferLockGen.v', 'C15_current_source']
    return out


def _info():
    if _INFO is None:
        import vlib
        translate(vlib.REPO)
    return _INFO


def _slist(xs):
    return listlit(['"%s"' % x for x in xs])


# ----------------------------------------------------------------------------------------------------
# translator self-check
def _buffer_cls():
    from psiaudio.buffer import SignalBuffer
    return SignalBuffer


def _scenario(b, two_d=False):
    """A single-threaded tour through every method (used for run-time observation)."""
    def d(lo, n):
        x = np.arange(lo, lo + n, dtype=float)
        return np.stack([x, x + 1000]) if two_d else x
    calls = [
        lambda: b.append_data(d(1, 3)), lambda: b.get_range(), lambda: b.get_range_samples(),
        lambda: b.get_latest(-2), lambda: b.get_latest(-5, 0, -1.0), lambda: b.get_range_filled(-1, 5, -1.0),
        lambda: b.append_data(d(4, 9)), lambda: b.get_range(b.get_time_lb(), b.get_time_ub()),
        lambda: b.get_samples_lb(), lambda: b.get_samples_ub(), lambda: b.get_time_lb(), lambda: b.get_time_ub(),
        lambda: b.time_to_index(3.0), lambda: b.samples_to_index(3), lambda: b.time_to_samples(2.0),
        lambda: b.append_data(d(13, 2)), lambda: b.invalidate_samples(12), lambda: b.invalidate(10.0),
        lambda: b.invalidate_samples(100), lambda: b.resize(9), lambda: b.append_data(d(11, 2)),
        lambda: b.invalidate_samples(0), lambda: b.get_range_samples(0, 0), lambda: b.get_range_samples(5, 9),
        lambda: b.append_data(np.zeros((3, 3, 3))),
    ]
    return calls


def _observe():
    """-> (per-method own-frame reads/writes/calls seen at run time, set of fields seen changing)"""
    SB = _buffer_cls()
    fname = sys.modules[SB.__module__].__file__
    methods = {n for n, v in vars(SB).items() if callable(v)}
    seen = {}
    off = [False]

    def note(kind, name):
        if off[0]:
            return
        f = sys._getframe(2)
        if f.f_code.co_filename == fname and f.f_code.co_name in methods:
            seen.setdefault(f.f_code.co_name, {'r': set(), 'w': set(), 'c': set()})[kind].add(name)

    class Probe(SB):
        def __getattribute__(self, name):
            if not name.startswith('__'):
                note('c' if name in methods else 'r', name)
            return object.__getattribute__(self, name)

        def __setattr__(self, name, value):
            note('w', name)
            object.__setattr__(self, name, value)

    changed = set()
    for two_d in (False, True):
        b = Probe(1.0, 6, fill_value=-1.0, n_channels=(2 if two_d else None))

        def snap():
            off[0] = True
            s = {k: (v.tobytes(), v.shape) if isinstance(v, np.ndarray) else repr(v) for k, v in vars(b).items()}
            off[0] = False
            return s
        for call in _scenario(b, two_d):
            before = snap()
            try:
                call()
            except (IndexError, ValueError):
                pass
            after = snap()
            changed |= {k for k in set(before) | set(after) if before.get(k) != after.get(k)}
    return seen, changed


def _bytecode_sets(name):
    SB = _buffer_cls()
    fn = vars(SB)[name]
    methods = {n for n, v in vars(SB).items() if callable(v)}
    probe = SB(1.0, 4)
    fields = set(vars(probe))
    loads, stores = set(), set()
    codes = [fn.__code__]
    while codes:
        co = codes.pop()
        codes += [c for c in co.co_consts if hasattr(c, 'co_code')]
        for ins in dis.get_instructions(co):
            if ins.opname in ('LOAD_ATTR', 'LOAD_METHOD', 'LOAD_SUPER_ATTR'):
                loads.add(ins.argval)
            elif ins.opname in ('STORE_ATTR', 'DELETE_ATTR'):
                stores.add(ins.argval)
    fields |= {s for s in stores if s.startswith('_')}
    touched = sorted((loads | stores) & fields)
    return {'touched': touched, 'stores': sorted(stores & fields), 'calls': sorted(loads & methods)}


# ----------------------------------------------------------------------------------------------------
# deterministic line-granular scheduler over the REAL class
class _Lock:
    """Re-entrant lock that cooperates with the controller: a thread that cannot take it is 'blocked' (not enabled)
    and hands control back instead of blocking inside C code."""

    def __init__(self, ctl):
        self.ctl, self.owner, self.depth = ctl, None, 0

    def acquire(self, blocking=True, timeout=-1):
        me = self.ctl.current()
        while self.owner not in (None, me):
            self.ctl.blocked_on_lock += 1
            self.ctl.pause(me, 'blocked')
        self.owner = me
        self.depth += 1
        return True

    def release(self):
        me = self.ctl.current()
        if self.owner != me:
            raise RuntimeError('release of a lock that is not owned')
        self.depth -= 1
        if self.depth == 0:
            self.owner = None

    __enter__ = acquire

    def __exit__(self, *a):
        self.release()
        return False


class _Ctl:
    def __init__(self, fname):
        self.fname = fname
        # binary hand-off signals (raw locks: one release per acquire, strictly alternating)
        self.sem = [threading.Lock(), threading.Lock()]
        self.main = threading.Lock()
        for x in self.sem + [self.main]:
            x.acquire()
        self.status = ['ready', 'ready']
        self.where = ['start', 'start']
        self.tids = {}
        self.blocked_on_lock = 0
        self.depth = [0, 0]
        self.ret_snap = [None, None]
        self.lock = _Lock(self)
        self.trace = []                 # (thread, other thread enabled too, where) per step
        self.quantum = [1, 1]           # steps the thread may take before handing control back (None: until it
                                        # blocks or finishes); consecutive steps of one thread need no hand-off

    def current(self):
        return self.tids[threading.get_ident()]

    def pause(self, me, status):
        if status == 'ready':
            q = self.quantum[me]
            if q is None or q > 1:
                if q is not None:
                    self.quantum[me] = q - 1
                self.trace.append((me, self.enabled(1 - me), self.where[me]))
                return
        self.status[me] = status
        self.main.release()
        self.sem[me].acquire()
        self.status[me] = 'running'

    def tracer(self, me):
        fname = self.fname

        def local(frame, event, arg):
            if event == 'line':
                self.where[me] = '%s:%d' % (frame.f_code.co_name, frame.f_lineno)
                self.pause(me, 'ready')
            elif event == 'return':
                self.depth[me] -= 1
                if self.depth[me] == 0 and arg is not None:
                    # the value of the read AT THE MOMENT the operation returns it (its lock is released); compared
                    # with what the caller holds once it runs again: they differ iff a VIEW of the buffer was returned
                    self.ret_snap[me] = ['ok', _canon(arg)]
                # between the callee's last line (its `with` block already left) and the rest of the caller's
                # statement: the switch point between two PARTS of one statement in the model
                self.where[me] = '%s:ret' % frame.f_code.co_name
                self.pause(me, 'ready')
            return local

        def glob(frame, event, arg):
            if event == 'call' and frame.f_code.co_filename == fname:
                self.depth[me] += 1
                return local
            return None
        return glob

    def enabled(self, t):
        s = self.status[t]
        return s == 'ready' or (s == 'blocked' and self.lock.owner is None)


def _canon(x):
    if isinstance(x, np.ndarray):
        return ['A'] + [('nan' if np.isnan(v) else float(v)) for v in np.asarray(x, dtype=float).ravel()]
    if isinstance(x, (float, np.floating)):
        return 'nan' if np.isnan(x) else float(x)
    if isinstance(x, (int, np.integer)):
        return int(x)
    return repr(x)


def _state(b):
    return {'samples': int(b._samples), 'ilb': int(b._ilb), 'cap': int(b._buffer_samples),
            'buffer': _canon(b._buffer)}


def _data(lo, n, ch):
    x = np.arange(lo, lo + n, dtype=float)
    return x if ch == 1 else np.stack([x + 1000 * r for r in range(ch)])


def _arg(a):
    """argument kinds: ['i64', 5] -> np.int64(5), ['f64', 2.0] -> np.float64(2.0); everything else as is"""
    if isinstance(a, list) and len(a) == 2 and a[0] == 'i64':
        return np.int64(a[1])
    if isinstance(a, list) and len(a) == 2 and a[0] == 'f64':
        return np.float64(a[1])
    return a


def _make(scn):
    SB = _buffer_cls()
    ch = scn.get('ch', 1)
    b = SB(1.0, scn['cap'], fill_value=-1.0, n_channels=(None if ch == 1 else ch))
    pos = 0
    for n in scn['init']:
        b.append_data(_data(pos + 1, n, ch))
        pos += n
    for op in scn.get('post', []):
        _call(b, op, ch)
    return b


def _call(b, op, ch=1):
    name, args = op[0], [_arg(a) for a in op[1:]]
    if name == 'append_data':
        lo, n = args
        return b.append_data(_data(lo, n, ch))
    return getattr(b, name)(*args)


def _do(b, op):
    try:
        return ['ok', _canon(_call(b, op, 1 if b._n_channels is None else b._n_channels))]
    except (IndexError, ValueError) as e:
        return ['exc', type(e).__name__]
    except Exception as e:                         # anything else is itself a symptom of a torn state
        return ['exc!', type(e).__name__, str(e)[:120]]


def _serial(scn):
    outs = []
    for order in ('wr', 'rw'):
        b = _make(scn)
        res = {}
        for t in order:
            res[t] = _do(b, scn[t])
        outs.append({'order': order, 'w': res['w'], 'r': res['r'], 'final': _state(b)})
    return outs


def _run(scn, prefix):
    """One schedule: thread 0 = writer, 1 = reader.  `prefix` forces the thread chosen at the first len(prefix) steps;
    afterwards the current thread keeps running while it is enabled (no further pre-emption).
    -> (outcome, trace) with trace = [(thread, both_enabled, where)]"""
    SB = _buffer_cls()
    ctl = _Ctl(sys.modules[SB.__module__].__file__)
    b = _make(scn)
    b._lock = ctl.lock
    res = [None, None]

    def body(me, op):
        ctl.tids[threading.get_ident()] = me
        ctl.sem[me].acquire()
        ctl.status[me] = 'running'
        sys.settrace(ctl.tracer(me))
        try:
            res[me] = _do(b, op)
        finally:
            sys.settrace(None)
            ctl.status[me] = 'done'
            ctl.main.release()

    th = [threading.Thread(target=body, args=(0, scn['w']), daemon=True),
          threading.Thread(target=body, args=(1, scn['r']), daemon=True)]
    for t in th:
        t.start()
    trace, cur = ctl.trace, None
    deadlock = False
    while True:
        en = [t for t in (0, 1) if ctl.enabled(t)]
        if not en:
            deadlock = any(s != 'done' for s in ctl.status)
            break
        step = len(trace)
        if step < len(prefix) and prefix[step] in en:
            t = prefix[step]
            k = 1
            while step + k < len(prefix) and prefix[step + k] == t:
                k += 1
            q = None if step + k >= len(prefix) else k      # past the prefix the running thread just continues
        elif cur in en:
            t, q = cur, None
        else:
            t, q = en[0], None
        trace.append((t, len(en) == 2, ctl.where[t]))
        cur = t
        ctl.quantum[t] = q
        ctl.sem[t].release()
        ctl.main.acquire()
    if deadlock:
        out = {'deadlock': list(ctl.status)}
    else:
        for t in th:
            t.join(5)
        out = {'w': res[0], 'r': res[1], 'final': _state(b)}
        # the same outcome with each result taken at the moment the operation returned it
        out['at_return'] = [ctl.ret_snap[t] if (ctl.ret_snap[t] is not None and res[t][0] == 'ok') else res[t]
                            for t in (0, 1)]
    out['blocked'] = ctl.blocked_on_lock
    return out, trace


def _judge(out, serial):
    """None if the outcome is one of the serial outcomes, else a message."""
    if 'deadlock' in out:
        return f'deadlock: thread states {out["deadlock"]}'
    for k, s in enumerate(serial):
        if out['r'] == s['r'] and out['w'] == s['w'] and out['final'] == s['final']:
            return None
    return (f'reader got {out["r"]}, writer got {out["w"]}, final state {out["final"]}; serial writer-then-reader gives '
            f'reader {serial[0]["r"]} final {serial[0]["final"]}; serial reader-then-writer gives reader {serial[1]["r"]} '
            f'final {serial[1]["final"]}')


VIEW_KEY = 'read-returns-view-of-buffer'


def _judge_view(out, serial):
    """True iff the outcome is torn ONLY because a returned ndarray view of _buffer was changed in place after the
    operation had returned it (with the values taken at the moment of return the outcome is serial)."""
    if 'deadlock' in out or 'at_return' not in out:
        return False
    alt = dict(out, w=out['at_return'][0], r=out['at_return'][1])
    return _judge(out, serial) is not None and _judge(alt, serial) is None


def _explore(scn, bound, deadline=None, stop_at_first=True):
    """All schedules with <= bound pre-emptions (the first choice is free).  -> dict"""
    serial = _serial(scn)
    stack = [([0], 0), ([1], 0)]
    n, torn, matched, blocked, view = 0, [], set(), 0, []
    while stack:
        if deadline is not None and time.time() > deadline:
            return {'explored': n, 'torn': torn, 'view_torn': view, 'complete': False, 'serial_seen': sorted(matched),
                    'blocked': blocked}
        prefix, used = stack.pop()
        out, trace = _run(scn, prefix)
        n += 1
        blocked += 1 if out.get('blocked') else 0
        msg = _judge(out, serial)
        choices = [t for t, _, _ in trace]
        if msg and _judge_view(out, serial):
            if not view:
                view.append({'schedule': choices, 'trace': _fmt(trace), 'why': msg})
        elif msg:
            torn.append({'schedule': choices, 'trace': _fmt(trace), 'why': msg})
            if stop_at_first:
                return {'explored': n, 'torn': torn, 'view_torn': view, 'complete': False,
                        'serial_seen': sorted(matched), 'blocked': blocked}
        else:
            for k, s in enumerate(serial):
                if out['r'] == s['r'] and out['final'] == s['final']:
                    matched.add(s['order'])
        if used < bound:
            for j in range(len(prefix), len(trace)):
                t, both, _ = trace[j]
                # pre-empt the running thread at step j (only where it would have continued and the other can run)
                if both and j > 0 and trace[j - 1][0] == t:
                    stack.append((choices[:j] + [1 - t], used + 1))
    return {'explored': n, 'torn': torn, 'view_torn': view, 'complete': True, 'serial_seen': sorted(matched),
            'blocked': blocked}


def _fmt(trace):
    out, last = [], None
    for t, _, where in trace:
        name = 'WR'[t]
        if last is not None and last[0] == name:
            last[1].append(where)
        else:
            last = [name, [where]]
            out.append(last)
    return ' | '.join(f'{n}: ' + ' '.join(w) for n, w in out)


# initial states (fs = 1, so seconds == samples): empty; partly filled ring (_ilb > 0); full ring (_ilb = 0, wrapped);
# just invalidated (full, then cut back by one sample: _ilb = 1, NaN hole); two channels; resized (grown, _ilb > 0)
STATES = {
    'empty': {'cap': 4, 'init': []},
    'part': {'cap': 6, 'init': [3]},
    'full': {'cap': 4, 'init': [3, 3]},
    'inval': {'cap': 4, 'init': [3, 3], 'post': [['invalidate_samples', 5]]},
    'multi': {'cap': 4, 'init': [3, 3], 'ch': 2},
    'resized': {'cap': 4, 'init': [3, 3], 'post': [['resize', 7]]},
}
_GEOM = {}


def _geom(st):
    """(lower bound, upper bound, capacity) of a state, measured on the real object"""
    if st not in _GEOM:
        b = _make(STATES[st])
        _GEOM[st] = (int(b.get_samples_lb()), int(b.get_samples_ub()), int(b._buffer_samples))
    return _GEOM[st]


def _writers(st):
    lb, n, cap = _geom(st)
    return [['append_data', n + 1, 1], ['append_data', n + 1, 2], ['append_data', n + 1, cap],
            ['append_data', n + 1, cap + 2],
            ['invalidate_samples', max(n - 1, 0)], ['invalidate_samples', lb], ['invalidate_samples', n],
            ['invalidate', float(max(n - 2, 0))], ['invalidate', ['i64', max(n - 1, 0)]],
            ['resize', cap + 3], ['resize', max(cap - 1, 1)]]


def _readers(st):
    lb, n, cap = _geom(st)
    return [['get_range_samples'], ['get_range_samples', n - 2, n], ['get_range_samples', lb, None],
            ['get_range_samples', None, ['i64', n - 1]],
            ['get_range'], ['get_range', float(n - 2), float(n)], ['get_range', None, float(n)],
            ['get_range', float(lb), None], ['get_range', n - 2, ['f64', float(n)]],
            ['get_latest', -2.0], ['get_latest', -3.0, 0, -7.0], ['get_latest', -3.0, -1.0], ['get_latest', -2, 0, 0.0],
            ['get_range_filled', float(n - 3), float(n + 1), -7.0], ['get_range_filled', n + 1, n + 3, 0.0],
            ['get_samples_lb'], ['get_samples_ub'], ['get_time_lb'], ['get_time_ub']]


def _scn(st, w, r):
    return dict(STATES[st], w=w, r=r, state=st)


def _pairs():
    """(index triple, scenario) for every state x writer x reader"""
    for si, st in enumerate(STATES):
        for wi, w in enumerate(_writers(st)):
            for ri, r in enumerate(_readers(st)):
                yield (si, wi, ri), _scn(st, w, r)


def _ww_pairs():
    """writer x writer (the final state must equal one of the two serial orders)"""
    for st in ('full', 'part', 'multi'):
        ws = _writers(st)
        for a, b in ((1, 4), (1, 9), (7, 9), (3, 5), (4, 10), (9, 9), (9, 10)):
            yield _scn(st, ws[a], ws[b])


# ----------------------------------------------------------------------------------------------------
def cases(tier, rng):
    info = _info()
    for name in info['methods']:
        yield {'k': 'method', 'name': name}
    yield {'k': 'mutable'}
    yield {'k': 'retalias'}
    if tier == 'quick':
        # a covering selection (1/9 of all pairs): every state, every writer and every reader variant (argument
        # kinds included) several times, and every writer METHOD x reader METHOD combination at least once
        sel, combos = [], set()
        for (si, wi, ri), scn in _pairs():
            if (2 * wi + 3 * ri + si) % 9 == 0:
                sel.append(scn)
                combos.add((scn['w'][0], scn['r'][0]))
        for (si, wi, ri), scn in _pairs():
            if scn['state'] == 'full' and (scn['w'][0], scn['r'][0]) not in combos:
                sel.append(scn)
                combos.add((scn['w'][0], scn['r'][0]))
        for scn in sel:
            yield dict(scn, k='explore', bound=1)
    else:
        for (si, wi, ri), scn in _pairs():
            i = (si * 11 + wi) * 19 + ri
            yield dict(scn, k='explore', bound=(3 if i % 25 == 0 else 2 if i % 2 == 0 else 1))
    for scn in _ww_pairs():
        if tier != 'quick' or scn['state'] == 'full':
            yield dict(scn, k='explore', bound=(1 if tier == 'quick' else 2))


_OBS = None


def impl(case):
    global _OBS
    k = case['k']
    if k == 'method':
        name = case['name']
        SB = _buffer_cls()
        if name not in vars(SB):
            return {'missing': True}
        if _OBS is None:
            _OBS = _observe()
        seen = _OBS[0].get(name, {'r': set(), 'w': set(), 'c': set()})
        bc = _bytecode_sets(name)
        return {'bytecode': bc, 'observed': {'r': sorted(seen['r']), 'w': sorted(seen['w']), 'c': sorted(seen['c'])}}
    if k == 'mutable':
        if _OBS is None:
            _OBS = _observe()
        return {'changed': sorted(_OBS[1])}
    if k == 'retalias':
        # static: operations whose return value may reference a mutable field; dynamic: reads that really hand out
        # memory shared with the buffer
        info = _info()
        probe = _make(STATES['full'])
        scalars = (int, float, complex, str, bytes, bool, type(None), tuple, frozenset, np.generic)
        # only fields that hold an object that can be changed in place matter (an int handed out is a snapshot)
        mut = {f for f in info['mutable_fields'] if not isinstance(vars(probe).get(f), scalars)}
        static = {m: sorted(set(f) & mut) for m, f in info['returns_alias'].items()
                  if set(f) & mut and not m.startswith('_')}
        dyn = []
        for st in STATES:
            for r in _readers(st):
                b = _make(STATES[st])
                try:
                    v = _call(b, r, STATES[st].get('ch', 1))
                except (IndexError, ValueError):
                    continue
                if isinstance(v, np.ndarray) and v.size and np.shares_memory(v, b._buffer):
                    dyn.append([st, r])
        return {'static': static, 'dynamic': dyn[:5], 'n_dynamic': len(dyn)}
    if k == 'explore':
        r = _explore(case, case['bound'])
        r['torn'] = r['torn'][:1]
        r['view_torn'] = r.get('view_torn', [])[:1]
        return r
    if k == 'sched':
        out, trace = _run(case, case['schedule'])
        return {'outcome': out, 'trace': _fmt(trace), 'serial': _serial(case)}
    raise KeyError(k)


def term(case, res):
    k = case['k']
    if k == 'method':
        if res.get('missing'):
            return 'false'
        bc, ob = res['bytecode'], res['observed']
        n = '"%s"' % case['name']
        extra = _info()['alias_extra'].get(case['name'], [])
        return (f'check_method2 generated_methods {n} {_slist(bc["touched"])} {_slist(extra)} {_slist(bc["stores"])} '
                f'{_slist(bc["calls"])}'
                f' && check_observed generated_methods {n} {_slist(ob["r"])} {_slist(ob["w"])} {_slist(ob["c"])}')
    if k == 'mutable':
        return f'subset {_slist(res["changed"])} (mutable_fields generated_methods)'
    return 'true'


def oracle(case, res):
    k = case['k']
    if k == 'retalias':
        if res['n_dynamic']:
            return (f'{res["n_dynamic"]} reads return an ndarray that shares memory with the ring buffer (first: '
                    f'{res["dynamic"][0]}): the caller reads the buffer with no lock held after the operation returned')
        if res['static']:
            return (f'the value returned by {sorted(res["static"])} may reference the mutable field(s) '
                    f'{sorted({f for v in res["static"].values() for f in v})} (translator alias analysis): the caller would read them '
                    f'with no lock held')
        return None
    if k == 'explore':
        if res['torn']:
            t = res['torn'][0]
            return f'torn outcome under schedule {t["trace"]}: {t["why"]}'
        if res.get('view_torn'):
            t = res['view_torn'][0]
            return (f'the read returned a VIEW of the buffer, changed in place by the writer after the read had released the '
                    f'lock and before the caller received the value; schedule {t["trace"]}: {t["why"]}')
        return None
    if k == 'sched':
        m = _judge(res['outcome'], res['serial'])
        if m and _judge_view(res['outcome'], res['serial']):
            return (f'the read returned a VIEW of the buffer, changed in place by the writer after the read had released the '
                    f'lock and before the caller received the value; schedule {res["trace"]}: {m}')
        return m and f'torn outcome under schedule {res["trace"]}: {m}'
    return None


def nontrivial(case, res):
    k = case['k']
    if k == 'method':
        return bool(not res.get('missing') and (res['bytecode']['touched'] or res['bytecode']['calls']))
    if k == 'mutable':
        return bool(res['changed'])
    if k == 'retalias':
        return True
    if k == 'explore':
        return res['explored'] > 2 and (res['blocked'] > 0 or len(res['serial_seen']) == 2)
    return True


def key(case, res):
    """known-finding key: the outcome is torn only through a returned view (see VIEW_KEY)"""
    k = case.get('k')
    if k == 'explore' and res is not None and not res['torn'] and res.get('view_torn'):
        return VIEW_KEY
    if k == 'retalias' and res is not None and (res['n_dynamic'] or res['static']):
        return VIEW_KEY
    if k == 'sched':
        if res is None:
            res = impl(case)
        if _judge_view(res['outcome'], res['serial']):
            return VIEW_KEY
    return None


def distribution(cases, results):
    ex = [(c, r) for c, r in zip(cases, results) if c['k'] == 'explore']
    return {'methods_checked': sum(1 for c in cases if c['k'] == 'method'),
            'explorations': len(ex),
            'schedules_run': sum(r['explored'] for _, r in ex),
            'schedules_with_a_thread_blocked_on_the_lock': sum(r['blocked'] for _, r in ex),
            'explorations_seeing_both_serial_orders': sum(1 for _, r in ex if len(r['serial_seen']) == 2),
            'by_bound': {str(b): sum(1 for c, _ in ex if c['bound'] == b) for b in sorted({c['bound'] for c, _ in ex})}}


def _failing_ops():
    """operations whose program tree violates the lock discipline, as computed in Coq on the regenerated table"""
    import re
    import vlib
    try:
        out = vlib.coq_eval(PROP, REQUIRES, 'failing_ops generated_methods', timeout=120)
    except Exception:
        return []
    m = re.search(r'=\s*\[(.*?)\]\s*:\s*list string', out)
    return re.findall(r'"([^"]+)"', m.group(1)) if m else []


def _extra_writers(failing):
    """public methods the property does not list (e.g. newly added ones) that can be called without arguments"""
    import inspect
    SB = _buffer_cls()
    known = {'append_data', 'invalidate', 'invalidate_samples', 'resize', 'get_latest', 'get_range', 'get_range_filled',
             'get_range_samples', 'get_samples_lb', 'get_samples_ub', 'get_time_lb', 'get_time_ub'}
    out = []
    for name in failing:
        fn = vars(SB).get(name)
        if name in known or fn is None:
            continue
        try:
            ps = list(inspect.signature(fn).parameters.values())[1:]
        except (TypeError, ValueError):
            continue
        if all(p.default is not inspect.Parameter.empty or p.kind in (p.VAR_POSITIONAL, p.VAR_KEYWORD) for p in ps):
            out.append([name])
    return out


def search(tier, rng):
    """Called when the regenerated obligation or the translator self-check broke: look for a torn read in the real code.
    Pairs that involve an operation Coq reports as undisciplined are tried first; cheapest pre-emption bound first."""
    budget = 30 if tier == 'quick' else 600
    t0 = time.time()
    found = []
    failing = _failing_ops()
    pairs = [scn for _, scn in _pairs()]
    for w in _extra_writers(failing):
        for st in STATES:
            for r in _readers(st):
                pairs.append(_scn(st, w, r))
    pairs += list(_ww_pairs())
    pairs.sort(key=lambda p: -((p['w'][0] in failing) + (p['r'][0] in failing)))
    for bound in ((1, 2) if tier == 'quick' else (1, 2, 3)):
        for scn in pairs:
            if time.time() - t0 > budget or len(found) >= 3:
                return found
            if any(f[0]['w'] == scn['w'] and f[0]['r'] == scn['r'] for f in found):
                continue
            r = _explore(scn, bound, deadline=t0 + budget)
            if r['torn']:
                t = r['torn'][0]
                case = dict(scn, k='sched', schedule=t['schedule'])
                found.append((case, f'torn outcome under schedule {t["trace"]}: {t["why"]}'))
        if found:
            return found
    return found        # torn-through-a-returned-view outcomes are reported by the explore cases themselves
