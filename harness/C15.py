"""C15 - SignalBuffer operations are atomic under concurrent use.

Proof side: coq/Conc/{Sched,Serial,Lang,Tie,Current}.v, coq/Props/C15.v, table coq/gen/BufferLockGen.v regenerated
from $PSIAUDIO_REPO/psiaudio/buffer.py by translate/pylocks2coq.py on every run (`translate`).

Cases:
  k='method'   translator self-check, one per method: the table's own field/call sets vs (a) the names the
               COMPILER put into the method's bytecode (LOAD_ATTR/STORE_ATTR) and (b) what an instrumented
               instance observed inside that method's own frame while a scenario ran.
  k='mutable'  fields whose value/contents changed while the scenario ran are in the table's computed mutable set.
  k='explore'  (consistency test of the theorem's conclusion on the real code) the REAL SignalBuffer under a
               deterministic line-granular scheduler: writer op || reader op, every schedule with <= p pre-emptions;
               each (reader result, final state) must be one of the two serial outcomes.
  k='sched'    one explicit schedule (what `search` returns as the replay of a torn read).
"""
import dis
import itertools
import os
import sys
import threading
import time

import numpy as np
from vlib import listlit

HERE = os.path.dirname(os.path.abspath(__file__))
sys.path.insert(0, os.path.join(os.path.dirname(HERE), 'translate'))
import pylocks2coq  # noqa: E402

PROP = 'C15'
REQUIRES = ['Common.ListX', 'Conc.Lang', 'gen.BufferLockGen']
RULE = ('translator self-check: every method of SignalBuffer (table sets == bytecode attribute names; run-time observed '
        'accesses per frame within the table sets; fields seen changing within the computed mutable set). Schedule exploration of '
        'the real class (5 writer x 11 reader operations on two initial states; quick: every third pair, <= 1 pre-emption; thorough: <= 2 '
        'pre-emptions and every 11th pair <= 3): all line-granular schedules of the two threads. '
        'Non-trivial: a method that touches a mutable field or calls another method; an exploration in which the reader was '
        'blocked on the lock or observed both serial outcomes.')
TRUSTED = ['translate/pylocks2coq.py (AST -> lock-structure table; fail-closed: unclassifiable statements become SOpaque, which no '
           'discipline accepts)',
           'coq/Conc/Lang.v `den`: the meaning given to the table (call inlining, statement parts, return/raise/exception edges leave '
           '`with` blocks through a release) as a description of how CPython runs the method at source-line granularity',
           'harness/C15.py (bytecode/run-time cross-check of the table; sys.settrace line scheduler used for the search and the '
           'consistency test)']
ASSUMPTIONS = ['atomicity unit = one source statement part (a statement with n self-method calls is n+1 parts with the callee bodies in '
               'between); CPython switches threads between BYTECODES, and NumPy may release the GIL inside a copy: a data race inside one '
               'statement is outside the model.  The lock is modelled as mutual exclusion with re-entrancy (threading.RLock).',
               'each statement part respects its declared field sets (footprint_ok): parts that mention no mutable shared field neither '
               'change nor depend on the shared store.  Aliasing through locals (e.g. the ndarray VIEW that get_range_samples returns, '
               'which a later append shifts in place) is not tracked: a read is compared by the value it has when it returns.',
               'operation set = the property\'s writers/readers plus every other public method; time_to_index / samples_to_index called '
               'directly are helpers outside the set (they read two mutable fields under no lock)',
               'mutable shared field = any self._x assigned (also through subscripts, method calls on it, or being passed to a foreign '
               'call) in a method other than __init__; the other fields are construction-time constants']

_INFO = None


def translate(repo):
    global _INFO
    info = pylocks2coq.translate(repo, os.path.join(os.path.dirname(HERE), 'coq', 'gen'))
    _INFO = info
    out = {k: v for k, v in info.items() if k != 'table'}
    # strings whose presence in a failed build's output means "the regenerated model broke the obligation"
    out['gen_files'] = ['gen/BufferLockGen.v', 'C15_current_source']
    return out


def _info():
    if _INFO is None:
        import vlib
        translate(vlib.REPO)
    return _INFO


def _slist(xs):
    return listlit(['"%s"' % x for x in xs])


# ----------------------------------------------------------------------------------------------------
# translator self-check
def _buffer_cls():
    from psiaudio.buffer import SignalBuffer
    return SignalBuffer


def _scenario(b, two_d=False):
    """A single-threaded tour through every method (used for run-time observation)."""
    def d(lo, n):
        x = np.arange(lo, lo + n, dtype=float)
        return np.stack([x, x + 1000]) if two_d else x
    calls = [
        lambda: b.append_data(d(1, 3)), lambda: b.get_range(), lambda: b.get_range_samples(),
        lambda: b.get_latest(-2), lambda: b.get_latest(-5, 0, -1.0), lambda: b.get_range_filled(-1, 5, -1.0),
        lambda: b.append_data(d(4, 9)), lambda: b.get_range(b.get_time_lb(), b.get_time_ub()),
        lambda: b.get_samples_lb(), lambda: b.get_samples_ub(), lambda: b.get_time_lb(), lambda: b.get_time_ub(),
        lambda: b.time_to_index(3.0), lambda: b.samples_to_index(3), lambda: b.time_to_samples(2.0),
        lambda: b.append_data(d(13, 2)), lambda: b.invalidate_samples(12), lambda: b.invalidate(10.0),
        lambda: b.invalidate_samples(100), lambda: b.resize(9), lambda: b.append_data(d(11, 2)),
        lambda: b.invalidate_samples(0), lambda: b.get_range_samples(0, 0), lambda: b.get_range_samples(5, 9),
        lambda: b.append_data(np.zeros((3, 3, 3))),
    ]
    return calls


def _observe():
    """-> (per-method own-frame reads/writes/calls seen at run time, set of fields seen changing)"""
    SB = _buffer_cls()
    fname = sys.modules[SB.__module__].__file__
    methods = {n for n, v in vars(SB).items() if callable(v)}
    seen = {}
    off = [False]

    def note(kind, name):
        if off[0]:
            return
        f = sys._getframe(2)
        if f.f_code.co_filename == fname and f.f_code.co_name in methods:
            seen.setdefault(f.f_code.co_name, {'r': set(), 'w': set(), 'c': set()})[kind].add(name)

    class Probe(SB):
        def __getattribute__(self, name):
            if not name.startswith('__'):
                note('c' if name in methods else 'r', name)
            return object.__getattribute__(self, name)

        def __setattr__(self, name, value):
            note('w', name)
            object.__setattr__(self, name, value)

    changed = set()
    for two_d in (False, True):
        b = Probe(1.0, 6, fill_value=-1.0, n_channels=(2 if two_d else None))

        def snap():
            off[0] = True
            s = {k: (v.tobytes(), v.shape) if isinstance(v, np.ndarray) else repr(v) for k, v in vars(b).items()}
            off[0] = False
            return s
        for call in _scenario(b, two_d):
            before = snap()
            try:
                call()
            except (IndexError, ValueError):
                pass
            after = snap()
            changed |= {k for k in set(before) | set(after) if before.get(k) != after.get(k)}
    return seen, changed


def _bytecode_sets(name):
    SB = _buffer_cls()
    fn = vars(SB)[name]
    methods = {n for n, v in vars(SB).items() if callable(v)}
    probe = SB(1.0, 4)
    fields = set(vars(probe))
    loads, stores = set(), set()
    codes = [fn.__code__]
    while codes:
        co = codes.pop()
        codes += [c for c in co.co_consts if hasattr(c, 'co_code')]
        for ins in dis.get_instructions(co):
            if ins.opname in ('LOAD_ATTR', 'LOAD_METHOD', 'LOAD_SUPER_ATTR'):
                loads.add(ins.argval)
            elif ins.opname in ('STORE_ATTR', 'DELETE_ATTR'):
                stores.add(ins.argval)
    fields |= {s for s in stores if s.startswith('_')}
    touched = sorted((loads | stores) & fields)
    return {'touched': touched, 'stores': sorted(stores & fields), 'calls': sorted(loads & methods)}


# ----------------------------------------------------------------------------------------------------
# deterministic line-granular scheduler over the REAL class
class _Lock:
    """Re-entrant lock that cooperates with the controller: a thread that cannot take it is 'blocked' (not enabled)
    and hands control back instead of blocking inside C code."""

    def __init__(self, ctl):
        self.ctl, self.owner, self.depth = ctl, None, 0

    def acquire(self, blocking=True, timeout=-1):
        me = self.ctl.current()
        while self.owner not in (None, me):
            self.ctl.blocked_on_lock += 1
            self.ctl.pause(me, 'blocked')
        self.owner = me
        self.depth += 1
        return True

    def release(self):
        me = self.ctl.current()
        if self.owner != me:
            raise RuntimeError('release of a lock that is not owned')
        self.depth -= 1
        if self.depth == 0:
            self.owner = None

    __enter__ = acquire

    def __exit__(self, *a):
        self.release()
        return False


class _Ctl:
    def __init__(self, fname):
        self.fname = fname
        self.sem = [threading.Semaphore(0), threading.Semaphore(0)]
        self.main = threading.Semaphore(0)
        self.status = ['ready', 'ready']
        self.where = ['start', 'start']
        self.tids = {}
        self.blocked_on_lock = 0
        self.lock = _Lock(self)

    def current(self):
        return self.tids[threading.get_ident()]

    def pause(self, me, status):
        self.status[me] = status
        self.main.release()
        self.sem[me].acquire()
        self.status[me] = 'running'

    def tracer(self, me):
        fname = self.fname

        def local(frame, event, arg):
            if event == 'line':
                self.where[me] = '%s:%d' % (frame.f_code.co_name, frame.f_lineno)
                self.pause(me, 'ready')
            return local

        def glob(frame, event, arg):
            if event == 'call' and frame.f_code.co_filename == fname:
                return local
            return None
        return glob

    def enabled(self, t):
        s = self.status[t]
        return s == 'ready' or (s == 'blocked' and self.lock.owner is None)


def _canon(x):
    if isinstance(x, np.ndarray):
        return ['A'] + [('nan' if np.isnan(v) else float(v)) for v in np.asarray(x, dtype=float).ravel()]
    if isinstance(x, (float, np.floating)):
        return 'nan' if np.isnan(x) else float(x)
    if isinstance(x, (int, np.integer)):
        return int(x)
    return repr(x)


def _state(b):
    return {'samples': int(b._samples), 'ilb': int(b._ilb), 'cap': int(b._buffer_samples),
            'buffer': _canon(b._buffer)}


def _make(scn):
    SB = _buffer_cls()
    b = SB(1.0, scn['cap'], fill_value=-1.0)
    pos = 0
    for n in scn['init']:
        b.append_data(np.arange(pos + 1, pos + n + 1, dtype=float))
        pos += n
    return b


def _call(b, op):
    name, args = op[0], op[1:]
    if name == 'append_data':
        lo, n = args
        return b.append_data(np.arange(lo, lo + n, dtype=float))
    return getattr(b, name)(*args)


def _do(b, op):
    try:
        return ['ok', _canon(_call(b, op))]
    except (IndexError, ValueError) as e:
        return ['exc', type(e).__name__]
    except Exception as e:                         # anything else is itself a symptom of a torn state
        return ['exc!', type(e).__name__, str(e)[:120]]


def _serial(scn):
    outs = []
    for order in ('wr', 'rw'):
        b = _make(scn)
        res = {}
        for t in order:
            res[t] = _do(b, scn[t])
        outs.append({'order': order, 'w': res['w'], 'r': res['r'], 'final': _state(b)})
    return outs


def _run(scn, prefix):
    """One schedule: thread 0 = writer, 1 = reader.  `prefix` forces the thread chosen at the first len(prefix) steps;
    afterwards the current thread keeps running while it is enabled (no further pre-emption).
    -> (outcome, trace) with trace = [(thread, both_enabled, where)]"""
    SB = _buffer_cls()
    ctl = _Ctl(sys.modules[SB.__module__].__file__)
    b = _make(scn)
    b._lock = ctl.lock
    res = [None, None]

    def body(me, op):
        ctl.tids[threading.get_ident()] = me
        ctl.sem[me].acquire()
        ctl.status[me] = 'running'
        sys.settrace(ctl.tracer(me))
        try:
            res[me] = _do(b, op)
        finally:
            sys.settrace(None)
            ctl.status[me] = 'done'
            ctl.main.release()

    th = [threading.Thread(target=body, args=(0, scn['w']), daemon=True),
          threading.Thread(target=body, args=(1, scn['r']), daemon=True)]
    for t in th:
        t.start()
    trace, cur, step = [], None, 0
    deadlock = False
    while True:
        en = [t for t in (0, 1) if ctl.enabled(t)]
        if not en:
            deadlock = any(s != 'done' for s in ctl.status)
            break
        if step < len(prefix) and prefix[step] in en:
            t = prefix[step]
        elif cur in en:
            t = cur
        else:
            t = en[0]
        trace.append((t, len(en) == 2, ctl.where[t]))
        cur = t
        step += 1
        ctl.sem[t].release()
        ctl.main.acquire()
    if deadlock:
        out = {'deadlock': list(ctl.status)}
    else:
        for t in th:
            t.join(5)
        out = {'w': res[0], 'r': res[1], 'final': _state(b)}
    out['blocked'] = ctl.blocked_on_lock
    return out, trace


def _judge(out, serial):
    """None if the outcome is one of the serial outcomes, else a message."""
    if 'deadlock' in out:
        return f'deadlock: thread states {out["deadlock"]}'
    for k, s in enumerate(serial):
        if out['r'] == s['r'] and out['w'] == s['w'] and out['final'] == s['final']:
            return None
    return (f'reader got {out["r"]}, writer got {out["w"]}, final state {out["final"]}; serial writer-then-reader gives '
            f'reader {serial[0]["r"]} final {serial[0]["final"]}; serial reader-then-writer gives reader {serial[1]["r"]} '
            f'final {serial[1]["final"]}')


def _explore(scn, bound, deadline=None, stop_at_first=True):
    """All schedules with <= bound pre-emptions (the first choice is free).  -> dict"""
    serial = _serial(scn)
    stack = [([0], 0), ([1], 0)]
    n, torn, matched, blocked = 0, [], set(), 0
    while stack:
        if deadline is not None and time.time() > deadline:
            return {'explored': n, 'torn': torn, 'complete': False, 'serial_seen': sorted(matched), 'blocked': blocked}
        prefix, used = stack.pop()
        out, trace = _run(scn, prefix)
        n += 1
        blocked += 1 if out.get('blocked') else 0
        msg = _judge(out, serial)
        choices = [t for t, _, _ in trace]
        if msg:
            torn.append({'schedule': choices, 'trace': _fmt(trace), 'why': msg})
            if stop_at_first:
                return {'explored': n, 'torn': torn, 'complete': False, 'serial_seen': sorted(matched), 'blocked': blocked}
        else:
            for k, s in enumerate(serial):
                if out['r'] == s['r'] and out['final'] == s['final']:
                    matched.add(s['order'])
        if used < bound:
            for j in range(len(prefix), len(trace)):
                t, both, _ = trace[j]
                # pre-empt the running thread at step j (only where it would have continued and the other can run)
                if both and j > 0 and trace[j - 1][0] == t:
                    stack.append((choices[:j] + [1 - t], used + 1))
    return {'explored': n, 'torn': torn, 'complete': True, 'serial_seen': sorted(matched), 'blocked': blocked}


def _fmt(trace):
    out, last = [], None
    for t, _, where in trace:
        name = 'WR'[t]
        if last is not None and last[0] == name:
            last[1].append(where)
        else:
            last = [name, [where]]
            out.append(last)
    return ' | '.join(f'{n}: ' + ' '.join(w) for n, w in out)


# two initial states: full ring (cap 4 after 6 samples, _ilb = 0) and partly filled ring (cap 6 after 3, _ilb = 3)
STATES = {'full': {'cap': 4, 'init': [3, 3]}, 'part': {'cap': 6, 'init': [3]}}


def _writers(st):
    n = sum(STATES[st]['init'])
    return [['append_data', n + 1, 2], ['append_data', n + 1, STATES[st]['cap'] + 2], ['invalidate_samples', n - 1],
            ['invalidate', float(n - 2)], ['resize', STATES[st]['cap'] + 3]]


def _readers(st):
    n = sum(STATES[st]['init'])
    return [['get_range_samples'], ['get_range_samples', n - 2, n], ['get_range'], ['get_range', float(n - 2), float(n)],
            ['get_latest', -2.0], ['get_latest', -3.0, 0, -7.0], ['get_range_filled', float(n - 3), float(n + 1), -7.0],
            ['get_samples_lb'], ['get_samples_ub'], ['get_time_lb'], ['get_time_ub']]


def _pairs():
    for st in STATES:
        for w in _writers(st):
            for r in _readers(st):
                yield {'cap': STATES[st]['cap'], 'init': STATES[st]['init'], 'w': w, 'r': r}


# ----------------------------------------------------------------------------------------------------
def cases(tier, rng):
    info = _info()
    for name in info['methods']:
        yield {'k': 'method', 'name': name}
    yield {'k': 'mutable'}
    if tier == 'quick':
        for i, scn in enumerate(_pairs()):
            if i % 3 == 0:
                yield dict(scn, k='explore', bound=1)
    else:
        for i, scn in enumerate(_pairs()):
            yield dict(scn, k='explore', bound=(3 if i % 11 == 0 else 2))


_OBS = None


def impl(case):
    global _OBS
    k = case['k']
    if k == 'method':
        name = case['name']
        SB = _buffer_cls()
        if name not in vars(SB):
            return {'missing': True}
        if _OBS is None:
            _OBS = _observe()
        seen = _OBS[0].get(name, {'r': set(), 'w': set(), 'c': set()})
        bc = _bytecode_sets(name)
        return {'bytecode': bc, 'observed': {'r': sorted(seen['r']), 'w': sorted(seen['w']), 'c': sorted(seen['c'])}}
    if k == 'mutable':
        if _OBS is None:
            _OBS = _observe()
        return {'changed': sorted(_OBS[1])}
    if k == 'explore':
        r = _explore(case, case['bound'])
        r['torn'] = r['torn'][:1]
        return r
    if k == 'sched':
        out, trace = _run(case, case['schedule'])
        return {'outcome': out, 'trace': _fmt(trace), 'serial': _serial(case)}
    raise KeyError(k)


def term(case, res):
    k = case['k']
    if k == 'method':
        if res.get('missing'):
            return 'false'
        bc, ob = res['bytecode'], res['observed']
        n = '"%s"' % case['name']
        return (f'check_method generated_methods {n} {_slist(bc["touched"])} {_slist(bc["stores"])} {_slist(bc["calls"])}'
                f' && check_observed generated_methods {n} {_slist(ob["r"])} {_slist(ob["w"])} {_slist(ob["c"])}')
    if k == 'mutable':
        return f'subset {_slist(res["changed"])} (mutable_fields generated_methods)'
    return 'true'


def oracle(case, res):
    k = case['k']
    if k == 'explore':
        if res['torn']:
            t = res['torn'][0]
            return f'torn outcome under schedule {t["trace"]}: {t["why"]}'
        return None
    if k == 'sched':
        return _judge(res['outcome'], res['serial']) and \
            f'torn outcome under schedule {res["trace"]}: {_judge(res["outcome"], res["serial"])}'
    return None


def nontrivial(case, res):
    k = case['k']
    if k == 'method':
        return bool(not res.get('missing') and (res['bytecode']['touched'] or res['bytecode']['calls']))
    if k == 'mutable':
        return bool(res['changed'])
    if k == 'explore':
        return res['explored'] > 2 and (res['blocked'] > 0 or len(res['serial_seen']) == 2)
    return True


def key(case, res):
    return None


def distribution(cases, results):
    ex = [(c, r) for c, r in zip(cases, results) if c['k'] == 'explore']
    return {'methods_checked': sum(1 for c in cases if c['k'] == 'method'),
            'explorations': len(ex),
            'schedules_run': sum(r['explored'] for _, r in ex),
            'schedules_with_a_thread_blocked_on_the_lock': sum(r['blocked'] for _, r in ex),
            'explorations_seeing_both_serial_orders': sum(1 for _, r in ex if len(r['serial_seen']) == 2),
            'by_bound': {str(b): sum(1 for c, _ in ex if c['bound'] == b) for b in sorted({c['bound'] for c, _ in ex})}}


def _failing_ops():
    """operations whose program tree violates the lock discipline, as computed in Coq on the regenerated table"""
    import re
    import vlib
    try:
        out = vlib.coq_eval(PROP, REQUIRES, 'failing_ops generated_methods', timeout=120)
    except Exception:
        return []
    m = re.search(r'=\s*\[(.*?)\]\s*:\s*list string', out)
    return re.findall(r'"([^"]+)"', m.group(1)) if m else []


def _extra_writers(failing):
    """public methods the property does not list (e.g. newly added ones) that can be called without arguments"""
    import inspect
    SB = _buffer_cls()
    known = {'append_data', 'invalidate', 'invalidate_samples', 'resize', 'get_latest', 'get_range', 'get_range_filled',
             'get_range_samples', 'get_samples_lb', 'get_samples_ub', 'get_time_lb', 'get_time_ub'}
    out = []
    for name in failing:
        fn = vars(SB).get(name)
        if name in known or fn is None:
            continue
        try:
            ps = list(inspect.signature(fn).parameters.values())[1:]
        except (TypeError, ValueError):
            continue
        if all(p.default is not inspect.Parameter.empty or p.kind in (p.VAR_POSITIONAL, p.VAR_KEYWORD) for p in ps):
            out.append([name])
    return out


def search(tier, rng):
    """Called when the regenerated obligation or the translator self-check broke: look for a torn read in the real code.
    Pairs that involve an operation Coq reports as undisciplined are tried first; cheapest pre-emption bound first."""
    budget = 30 if tier == 'quick' else 600
    t0 = time.time()
    found = []
    failing = _failing_ops()
    pairs = list(_pairs())
    for w in _extra_writers(failing):
        for st in STATES:
            for r in _readers(st):
                pairs.append({'cap': STATES[st]['cap'], 'init': STATES[st]['init'], 'w': w, 'r': r})
    pairs.sort(key=lambda p: -((p['w'][0] in failing) + (p['r'][0] in failing)))
    for bound in ((1, 2) if tier == 'quick' else (1, 2, 3)):
        for scn in pairs:
            if time.time() - t0 > budget or len(found) >= 3:
                return found
            if any(f[0]['w'] == scn['w'] and f[0]['r'] == scn['r'] for f in found):
                continue
            r = _explore(scn, bound, deadline=t0 + budget)
            if r['torn']:
                t = r['torn'][0]
                case = dict(scn, k='sched', schedule=t['schedule'])
                found.append((case, f'torn outcome under schedule {t["trace"]}: {t["why"]}'))
        if found:
            return found
    return found
