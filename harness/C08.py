"""C08 - stimuli have the requested calibrated level; level and polarity scale exactly.

Theorems (coq/Props/C08.v, proofs coq/Level/Proofs.v) are about the definitions of coq/gen/StimExprGen.v, REGENERATED here from
$PSIAUDIO_REPO/psiaudio/stim.py by translate/pyexpr2coq_ext.py (table translate/c08_spec.py), on top of coq/gen/CalibGen.v
(property C07's generated file, regenerated first from the same tree).  This harness ties the rest: the generated per-sample
expressions evaluated in binary64 against the samples the real functions return, and judges the property on the
implementation alone: two-run relations (level + d dB, polarity flip) for EVERY stimulus function / factory through flat,
interpolated and point calibrations, tone RMS over whole cycles, and the documented level of the other stimuli."""
import math
import os
import tempfile

import numpy as np

import vlib
from vlib import zlit, listlit, blit
from translate import pyexpr2coq, pyexpr2coq_ext, c08_spec, c16c08_common

PROP = 'C08'
REQUIRES = ['Level.Model']
RULE = ('Every stimulus function / factory of psiaudio.stim with a level (tone, ToneFactory, ramped_tone, sam_tone, SAMToneFactory, '
        'chirp, ChirpFactory, ClickFactory, bandlimited_click (rms / peak), BandlimitedClickFactory, broadband_noise, '
        'BroadbandNoiseFactory, bandlimited_noise, BandlimitedNoiseFactory (first chunk after construction and after reset(), '
        'discard_initial_samples False / True, non-default roll-off and attenuations), bandlimited_fir_noise (equalized or not, '
        'windows, max_correction), shaped_noise (windows), notch_noise (two Q), load_wav '
        '/ WavFileFactory (int16 and float32 files, pe / rms / no normalisation, resampled), SquareWaveFactory, and envelope / '
        'gate / SAM-envelope / repeat transforms around a carrier), each run at (L, +), (L + d, +), (L + 20, +) and (L, -) through '
        'FlatCalibration, InterpCalibration, PointCalibration (where the stimulus can be generated with it) and without '
        'calibration; levels -40..140 dB, d in -30..30 dB, rates 25 k / 100 k / 195312.5; audiogram weighting on and off; whole-cycle '
        'tones of 8..400 samples at every kind of calibration for the RMS law, SAM tones on the bin grid for the component law; the '
        'same with frequencies passed as Python ints / integer arrays (np.arange(fl, fh + 1)) through flat calibrations with a '
        'fractional sensitivity (from_mv_pa(1.85), from_spl(80.5, 0.1)); levels / polarities / rates handed over as Python int, float, '
        'np.float64, np.float32, np.int8 / np.int64 (level 0 and seed 0 included); seconds-based twins with off-grid durations against '
        'their sample-based twins; sideband phases, equalize on / off; max_correction inf / None / 0 / finite; audiogram weighting mouse '
        '/ nan / None; returned arrays overwritten by the caller between runs; requests that must be refused (depth != 1, equalize '
        'without calibration, unknown level unit / normalisation, neither or both of samples and duration).  '
        'Non-trivial: every case.  Distinct = distinct case dictionaries.')
TRUSTED = ['translate/pyexpr2coq.py + pyexpr2coq_ext.py + translate/c08_spec.py + translate/c07_spec.py (fail-closed AST translator; '
           'self-tested on every run by an independent interpreter of the emitted text against the real code)',
           'harness/C08.py (generators, tolerances, evaluation of the generated expressions in binary64)',
           'IEEE binary64: (-1.0) * x == -x exactly, so a final multiplicative sign negates every sample exactly',
           'numpy RandomState.uniform(low, high) = low + (high - low) * random_sample(); scipy lfilter is linear in its input for a '
           'zero initial state; scipy firwin2 is linear in its gains (exercised by the two-run relations, not proved)']
ASSUMPTIONS = ['PARTIAL: the LEVEL of the noise factories (output distribution of MT19937 through the IIR / FIR designs), of chirps, '
               'band-limited clicks and wav playback has no executable Gallina model; it is judged numerically only, within the '
               'tolerance the uncollected tests / docstrings state: 1 dB for >= 0.2 s of broadband, IIR band-limited and shaped noise '
               '(notched noise: the level is that of its broadband carrier, what the notch removes is not judged); 0.5 dB for '
               'chirps; band-limited click: RMS over one second within 0.5 dB (level_unit rms; the window cuts a sliver off), '
               'peak-to-peak = level (peak); wav: RMS (rms) or maximum (pe) = get_sf(1 kHz, level) in float32',
               'level +d dB is compared to round-off of the arithmetic the stimulus uses: 1e-12 of the peak for binary64 '
               'expressions and FIR filters, 5e-6 for wav playback (float32); for the IIR band-limited noise 20 x the round-off of its own '
               'band-pass realisation, MEASURED per case against an extended-precision run of the same recurrence (the 8th-12th order '
               'transfer-function-form elliptic filters amplify binary64 round-off to 1e-8 .. 1e-3 of the peak, at every level)',
               'the level of BandlimitedFIRNoiseFactory is not judged: its output RMS is level + 10 log10(bandwidth / (fs / 2)), '
               'and the property text names the broadband and IIR band-limited noises only',
               'polarity is judged for the stimuli that take a polarity argument; chirp, bandlimited_click, load_wav, ramped_tone '
               'and SquareWaveFactory have none',
               'ClickFactory asks the calibration for 0 Hz and BroadbandNoiseFactory for the mean over 0..fs: table calibrations '
               'used with them cover those frequencies (others answer NaN / raise, which C07 allows)',
               'the laws are proved over the real numbers; binary64 agreement is observed to 1e-9 relative']

GEN = 'gen/StimExprGen.v'
_DEFS = None
TMP = None


# ====================================================================================================================
# translator tie
def translate(repo):
    """Regenerate coq/gen/CalibGen.v (through property C07's own translate) and coq/gen/StimExprGen.v from the tree under test."""
    global _DEFS
    from harness import C07
    info07 = C07.translate(repo)
    calib = None
    if not info07.get('gap'):
        calib = pyexpr2coq.parse_defs(open(os.path.join(vlib.COQ, 'gen/CalibGen.v')).read())
    head = ('(* GENERATED on every run by harness/C08.py translate() with translate/pyexpr2coq_ext.py from\n'
            f'   {repo}/psiaudio/stim.py - do not edit.  sens = calibration.get_sens(frequency of the component);\n'
            '   msf = calibration.get_mean_sf(...); i = np.arange(samples); u = uniform deviate; w = filtered waveform. *)\n')
    info, defs = c16c08_common.generate(repo, c08_spec, vlib.COQ, head, extra_defs=calib or {})
    info['source'] = [os.path.join(repo, 'psiaudio/stim.py'), os.path.join(repo, 'psiaudio/calibration.py')]
    info['calib'] = {'gap': info07.get('gap'), 'gen_files': info07.get('gen_files')}
    if info07.get('gap') and not info.get('gap'):
        info['gap'] = 'CalibGen: ' + str(info07['gap'])
    _DEFS = defs if calib is not None else None
    rc, out = vlib.coq_build('Level/Model.vo')
    if rc != 0:
        raise vlib.MachineryError('Level/Model.v does not build:\n' + out[-3000:])
    return info


def _gen(name, *args):
    if _DEFS is None:
        return None
    with np.errstate(all='ignore'):
        return pyexpr2coq_ext.evaluate(_DEFS, name, list(args), np)


# ====================================================================================================================
# helpers
def dy(x):
    n, d = float(x).as_integer_ratio()
    return f'(dy {zlit(n)} {zlit(-(d.bit_length() - 1))})'


def _mkcal(spec):
    from psiaudio import calibration as C
    if spec is None:
        return None
    if spec['kind'] == 'flat':
        return C.FlatCalibration(spec['s'], fixed_gain=spec.get('g', 0.0))
    if spec['kind'] == 'flat_mv_pa':          # non-integer sensitivity in dB, as a microphone sheet gives it
        return C.FlatCalibration.from_mv_pa(spec['mv_pa'])
    if spec['kind'] == 'flat_spl':
        return C.FlatCalibration.from_spl(spec['spl'], vrms=spec['vrms'])
    cls = C.InterpCalibration if spec['kind'] == 'interp' else C.PointCalibration
    return cls(np.array(spec['freqs'], dtype=float), np.array(spec['sens'], dtype=float), fixed_gain=spec.get('g', 0.0))


def _tmpdir():
    global TMP
    if TMP is None:
        TMP = os.path.join(vlib.WORK, 'C08wav')
        os.makedirs(TMP, exist_ok=True)
    return TMP


def _wavfile(kind, rate):
    """a tiny wav file (400 samples) written once per run"""
    from scipy.io import wavfile
    path = os.path.join(_tmpdir(), f'{kind}_{int(rate)}.wav')
    if not os.path.exists(path):
        n = np.arange(400)
        x = 0.3 * np.sin(n * 0.2) + 0.1 * np.sin(n * 0.031 + 1.0)
        if kind == 'i16':
            wavfile.write(path, int(rate), (x * 20000).astype(np.int16))
        else:
            wavfile.write(path, int(rate), x.astype(np.float32))
    return path


GAINS = {0: 0, 1980.0: 0, 2000.0: -80, 4000.0: -80, 4040.4: 0}


def _as_kind(x, kind):
    """the same number handed over as another legal kind of argument"""
    if kind in ('int', 'npint') and float(x) != int(x):
        kind = 'py'
    return {'int': int, 'npint': np.int64, 'np64': np.float64, 'np32': np.float32, 'py': float}[kind](x)


def _weighting(P):
    w = P.get('weighting')
    return float('nan') if w == 'nan' else w            # np.nan and None both mean "no weighting"


def _mc(P):
    mc = P.get('mc', 'inf')
    return np.inf if mc == 'inf' else None if mc == 'none' else mc


_FREQ_KEYS = ('f', 'fl', 'fh', 'f0', 'f1', 'flb', 'fub', 'fc', 'fm')


def _build(case, level, pol, cal_obj=None):
    """one realisation of the stimulus of the case; returns a 1-D float array"""
    from psiaudio import stim
    t, fs, P = case['type'], case['fs'], case.get('par', {})
    K = case.get('kinds', {})
    if K.get('freq') in ('int', 'npint'):
        # whole-number frequencies handed over as Python / NumPy integers (fl=2000 rather than 2000.0)
        conv = int if K['freq'] == 'int' else np.int64
        P = {k: (conv(v) if k in _FREQ_KEYS and isinstance(v, float) and v == int(v) else v) for k, v in P.items()}
    level = _as_kind(level, K.get('level', 'py'))
    if pol is not None:
        pol = {'int': int, 'float': float, 'npint': np.int8}[K.get('pol', 'int')](pol)
    if K.get('fs') == 'int' and fs == int(fs):
        fs = int(fs)
    cal = _mkcal(case['cal']) if cal_obj is None else cal_obj
    kw = {} if pol is None else {'polarity': pol}
    if t == 'tone':
        return stim.tone(fs, P['f'], level, P['phase'], calibration=cal, samples=P['n'], offset=P.get('offset', 0), **kw)
    if t == 'tone_duration':
        # seconds-based twin, also with a duration that is not a whole number of samples (rounds to n)
        return stim.tone(fs, P['f'], level, P['phase'], calibration=cal, duration=(P['n'] + P.get('frac', 0.0)) / fs, **kw)
    if t == 'ToneFactory':
        f = stim.ToneFactory(fs, P['f'], level, P['phase'], calibration=cal, **kw)
        return np.concatenate([f.next(P['n'] // 3), f.next(P['n'] - P['n'] // 3)])
    if t == 'ramped_tone':
        return stim.ramped_tone(fs, P['f'], level, P['n'] / fs, rise_time=P['n'] / fs / 4, calibration=cal)
    if t == 'sam_tone':
        n_kw = {'duration': (P['n'] + P.get('frac', 0.0)) / fs} if P.get('use_duration') else {'samples': P['n']}
        return stim.sam_tone(fs, P['fc'], P['fm'], level, phase=P['phase'], phase_lb=P.get('phase_lb', 0), phase_ub=P.get('phase_ub', 0),
                             calibration=cal, eq_power=P['eq_power'], equalize=P['equalize'], **n_kw, **kw)
    if t == 'SAMToneFactory':
        f = stim.SAMToneFactory(fs, P['fc'], P['fm'], level, phase=P['phase'], phase_lb=P.get('phase_lb', 0),
                                phase_ub=P.get('phase_ub', 0), calibration=cal, eq_power=P['eq_power'],
                                equalize=P['equalize'], **kw)
        return np.concatenate([f.next(P['n'] // 2), f.next(P['n'] - P['n'] // 2)])
    if t == 'chirp':
        return stim.chirp(fs, P['f0'], P['f1'], P['dur'], level, calibration=cal, window=P['window'], equalize=P['equalize'],
                          max_correction=_mc(P), audiogram_weighting=_weighting(P))
    if t == 'ChirpFactory':
        return stim.ChirpFactory(fs, P['f0'], P['f1'], P['dur'], level, cal, window=P['window'], equalize=P['equalize'],
                                 max_correction=_mc(P), audiogram_weighting=_weighting(P)).next(int(fs * P['dur']))
    if t == 'click':
        return stim.ClickFactory(fs, P['dur'], level, pol, cal).waveform
    if t == 'bandlimited_click':
        return stim.bandlimited_click(fs, P['flb'], P['fub'], P['window'], level, level_unit=P['unit'], calibration=cal,
                                      equalize=P['equalize'], max_correction=_mc(P), audiogram_weighting=_weighting(P))
    if t == 'BandlimitedClickFactory':
        return stim.BandlimitedClickFactory(fs, P['flb'], P['fub'], P['window'], level, calibration=cal,
                                            equalize=P['equalize'], max_correction=_mc(P),
                                            audiogram_weighting=_weighting(P)).waveform
    if t == 'broadband_noise':
        return stim.broadband_noise(fs, level, P['dur'], seed=P['seed'], calibration=cal, **kw)
    if t == 'BroadbandNoiseFactory':
        f = stim.BroadbandNoiseFactory(fs, level, seed=P['seed'], calibration=cal, **kw)
        n = int(round(P['dur'] * fs))
        return np.concatenate([f.next(n // 4), f.next(n - n // 4)])
    if t == 'bandlimited_noise':
        return stim.bandlimited_noise(fs, level, P['fl'], P['fh'], P['dur'], seed=P['seed'], calibration=cal, **kw)
    if t == 'BandlimitedNoiseFactory':
        # the FIRST chunk after construction and the first chunk after reset(), with every constructor option given
        f = stim.BandlimitedNoiseFactory(fs, P['seed'], level, P['fl'], P['fh'], P['rolloff'], P['pass_att'], P['stop_att'],
                                         calibration=cal, discard_initial_samples=P['discard'], **kw)
        first = f.next(P['n'])
        f.next(13)
        f.reset()
        return np.concatenate([first, f.next(P['n'])])
    if t == 'bandlimited_fir_noise':
        f = stim.BandlimitedFIRNoiseFactory(fs, P['fl'], P['fh'], level, ntaps=P['ntaps'], seed=P['seed'], calibration=cal,
                                            equalize=P['equalize'], audiogram_weighting=P.get('weighting'),
                                            window=P.get('window', 'hann'),
                                            max_correction=np.inf if P.get('max_correction') is None else P['max_correction'], **kw)
        return f.next(int(round(P['dur'] * fs)))
    if t == 'bandlimited_fir_noise_fn':
        # the function twin of the FIR factory (its own defaults: equalize=True, seed=1)
        return stim.bandlimited_fir_noise(fs, level, P['fl'], P['fh'], P['dur'], ntaps=P['ntaps'], seed=P['seed'], calibration=cal,
                                          equalize=P['equalize'], window=P.get('window', 'hann'), **kw)
    if t == 'ShapedNoiseFactory':
        gains = dict(GAINS)
        gains[fs / 2] = 0
        f = stim.ShapedNoiseFactory(fs, level, gains, ntaps=P['ntaps'], window=P.get('window', 'hann'), seed=P['seed'],
                                    calibration=cal, **kw)
        n = int(round(P['dur'] * fs))
        first = f.next(n // 2)
        f.reset()
        return np.concatenate([first, f.next(n - n // 2)])
    if t == 'shaped_noise':
        gains = dict(GAINS)
        gains[fs / 2] = 0
        return stim.shaped_noise(fs, level, gains, P['dur'], ntaps=P['ntaps'], seed=P['seed'], calibration=cal,
                                 window=P.get('window', 'hann'), **kw)
    if t == 'notch_noise':
        return stim.notch_noise(fs, P['f'], P['q'], level, P['dur'], seed=P['seed'], calibration=cal, **kw)
    if t == 'wav':
        return np.asarray(stim.load_wav(P['out_fs'], _wavfile(P['file'], P['file_fs']), level, cal, P['norm']))
    if t == 'WavFileFactory':
        return np.asarray(stim.WavFileFactory(P['out_fs'], _wavfile(P['file'], P['file_fs']), level, cal, P['norm']).waveform)
    if t == 'SquareWaveFactory':
        return stim.SquareWaveFactory(fs, level, P['f'], P['duty']).next(P['n'])
    if t == 'cos2_tone':
        c = stim.ToneFactory(fs, P['f'], level, P['phase'], calibration=cal, **kw)
        return stim.Cos2EnvelopeFactory(fs, P['n'] / fs, P['n'] / fs / 5, c).next(P['n'] + 7)
    if t == 'gate_noise':
        c = stim.BroadbandNoiseFactory(fs, level, seed=P['seed'], calibration=cal, **kw)
        return stim.GateFactory(fs, 3 / fs, P['n'] / fs, c).next(P['n'] + 9)
    if t == 'sam_env_noise':
        c = stim.BroadbandNoiseFactory(fs, level, seed=P['seed'], calibration=cal, **kw)
        return stim.SAMEnvelopeFactory(fs, 1.0, P['fm'], 0.0, 1, c).next(P['n'])
    if t == 'repeat_click':
        c = stim.ClickFactory(fs, 4 / fs, level, pol, cal)
        return stim.RepeatFactory(fs, 3, 1, fs / 40, 2 / fs, c).next(160)
    raise KeyError(t)


HAS_POLARITY = {'BandlimitedNoiseFactory', 'bandlimited_fir_noise_fn', 'ShapedNoiseFactory', 'tone', 'tone_duration', 'ToneFactory', 'sam_tone', 'SAMToneFactory', 'click', 'broadband_noise',
                'BroadbandNoiseFactory', 'bandlimited_noise', 'bandlimited_fir_noise', 'shaped_noise', 'notch_noise', 'cos2_tone',
                'gate_noise', 'sam_env_noise', 'repeat_click'}
# round-off of the arithmetic each stimulus uses, relative to the peak
LEVEL_TOL = {'wav': 5e-6, 'WavFileFactory': 5e-6}


def _try(f):
    from psiaudio.calibration import CalibrationError
    try:
        return f()
    except (ValueError, TypeError, AttributeError, CalibrationError, IndexError, NotImplementedError) as e:
        return {'err': type(e).__name__, 'msg': str(e)[:150]}


def _iserr(x):
    return isinstance(x, dict) and 'err' in x


def _pick(n):
    """indices of the samples handed to the Coq checks"""
    return sorted({0, 1, n // 3, n // 2, n - 2, n - 1} & set(range(n)))


# ====================================================================================================================
# implementation side
def _impl_stim(case):
    L, d = case['L'], case['d']
    pol = 1 if case['type'] in HAS_POLARITY else None
    nocal = case['cal'] is None

    def scribble(a):
        """the caller overwrites what it was handed (when it is allowed to): later realisations must not notice"""
        if isinstance(a, np.ndarray) and a.flags.writeable:
            a[...] = 12345.678
    def take(level, polarity):
        raw = _build(case, level, polarity)
        out = np.array(raw, dtype=float)            # a private copy
        scribble(raw)
        return out

    def run():
        y1 = take(L, pol)
        # without calibration the level is an amplitude: the relation is homogeneity (level * c)
        y2 = take(L * 10 ** (d / 20) if nocal else L + d, pol)
        y4 = take(L * 10 if nocal else L + 20, pol)
        res = {'n': [int(len(y1)), int(len(y2)), int(len(y4))], 'peak': float(np.max(np.abs(y1))) if len(y1) else 0.0,
               'finite': bool(np.all(np.isfinite(y1)) and np.all(np.isfinite(y2)))}
        if len(y1) == len(y2) == len(y4) and len(y1):
            g = 10 ** (d / 20)
            res['dev_d'] = float(np.max(np.abs(y2 - g * y1)))
            res['dev_20'] = float(np.max(np.abs(y4 - 10 * y1)))
            idx = _pick(len(y1))
            res['idx'] = idx
            res['y1'] = [float(y1[i]) for i in idx]
            res['y4'] = [float(y4[i]) for i in idx]
        if pol is not None:
            y3 = take(L, -1)
            res['n_neg'] = int(len(y3))
            res['neg_exact'] = bool(len(y3) == len(y1) and np.array_equal(y3, -y1))
            res['zeros_kept'] = bool(len(y3) == len(y1) and np.array_equal(y3 == 0, y1 == 0))
            if len(y3) == len(y1) and len(y1):
                res['y3'] = [float(y3[i]) for i in res.get('idx', _pick(len(y1)))]
        P = case.get('par', {})
        if case['type'] == 'tone_duration' or (case['type'] == 'sam_tone' and P.get('use_duration')):
            # the seconds-based call is the sample-based call with samples = round(duration * fs)
            twin = dict(case, type='tone' if case['type'] == 'tone_duration' else 'sam_tone',
                        par=dict(P, use_duration=False, offset=0))
            res['twin_equal'] = bool(np.array_equal(y1, np.asarray(_build(twin, L, pol), dtype=float)))
        if case.get('regain') is not None and case['cal'] and case['cal']['kind'] in ('flat', 'interp', 'point'):
            # ONE calibration object, used, then given another fixed gain (set_fixed_gain or plain assignment), used
            # again: the result is that of a fresh calibration built with that gain (nothing about the earlier use
            # may be remembered by the calibration or by anything keyed on it)
            g = case['regain']
            shared = _mkcal(case['cal'])
            _build(case, L, pol, cal_obj=shared)
            if case.get('regain_assign'):
                shared.fixed_gain = g
            else:
                shared.set_fixed_gain(g)
            a1 = np.array(_build(case, L, pol, cal_obj=shared), dtype=float)
            a2 = np.array(_build(case, L, pol, cal_obj=_mkcal(dict(case['cal'], g=g))), dtype=float)
            res['regain_ok'] = bool(a1.shape == a2.shape and np.array_equal(a1, a2))
            if not res['regain_ok'] and a1.shape == a2.shape and np.any(a2):
                res['regain_db'] = float(20 * np.log10(max(np.sqrt(np.mean(a1 ** 2)), 1e-300) / np.sqrt(np.mean(a2 ** 2))))
        res['level'] = _measure(case, y1)
        res['crest'] = float(np.max(np.abs(y1)) / np.sqrt(np.mean(y1 ** 2))) if len(y1) and np.any(y1) else None
        if case['type'] in ('bandlimited_noise', 'BandlimitedNoiseFactory'):
            res['kappa'] = _iir_roundoff(case, L, y1)
        return res
    return _try(run)


def _iir_roundoff(case, level, y):
    """Round-off of the band-pass realisation itself: the same generator stream through the same coefficients and initial
    state in extended precision (np.longdouble), compared with what the factory returned, relative to the peak.  The
    transfer-function-form elliptic filters amplify binary64 round-off by up to 1e13 (order 12: 1e-3 of the peak)."""
    from scipy import signal
    from psiaudio import stim
    fs, P = case['fs'], case['par']
    f = stim.BandlimitedNoiseFactory(fs, P['seed'], level, P['fl'], P['fh'], P.get('rolloff', 1), P.get('pass_att', 1),
                                     P.get('stop_att', 80), calibration=_mkcal(case['cal']))
    if case['type'] == 'BandlimitedNoiseFactory':
        # the round-off of this band-pass is measured on a factory built with the DEFAULT start-up (first second discarded),
        # not on the output under test: it must not absorb what a start-up option does to that output
        y = f.next(P['n'])
        f = stim.BandlimitedNoiseFactory(fs, P['seed'], level, P['fl'], P['fh'], P['rolloff'], P['pass_att'], P['stop_att'],
                                         calibration=_mkcal(case['cal']))
    st = np.random.RandomState(P['seed'])
    ld = np.longdouble
    x0 = st.uniform(low=f.low, high=f.high, size=int(np.ceil(fs)))
    x1 = st.uniform(low=f.low, high=f.high, size=len(y))
    b, a = np.asarray(f.b).astype(ld), np.asarray(f.a).astype(ld)
    _, zi = signal.lfilter(b, a, x0.astype(ld), zi=np.asarray(f.initial_bp_zi).astype(ld))
    w, _ = signal.lfilter(b, a, x1.astype(ld), zi=zi)
    return float(np.max(np.abs(w - y)) / np.max(np.abs(y)))


def _level_tol(case, res):
    """round-off of the arithmetic the stimulus uses, relative to the peak"""
    tol = LEVEL_TOL.get(case['type'], 1e-12)
    if case['type'] in ('bandlimited_noise', 'BandlimitedNoiseFactory'):
        tol = max(1e-12, 20 * res.get('kappa', 0.0))
    if case.get('kinds', {}).get('level') == 'np32':
        tol = max(tol, 5e-6)                         # the scale factor of a float32 level is computed in float32
    return tol


def _measure(case, y):
    """what the documented level definition of the stimulus reads on the realisation y (dB through the same calibration)"""
    from psiaudio import util
    t, fs, P = case['type'], case['fs'], case.get('par', {})
    cal = _mkcal(case['cal'])
    if cal is None or not len(y):
        return None
    L = case['L']
    if t == 'ShapedNoiseFactory':
        return None
    if t in ('broadband_noise', 'BroadbandNoiseFactory'):
        return {'what': 'rms', 'got': float(util.rms(y)), 'want': float(cal.get_mean_sf(0, fs, L)), 'tol_db': 1.0}
    if t == 'bandlimited_noise':
        return {'what': 'rms', 'got': float(util.rms(y)), 'want': float(cal.get_mean_sf(P['fl'], P['fh'], L)), 'tol_db': 1.0}
    if t == 'shaped_noise':
        return {'what': 'rms', 'got': float(util.rms(y)), 'want': float(cal.get_mean_sf(0, fs / 2, L)), 'tol_db': 1.0}
    if t in ('chirp', 'ChirpFactory') and not P['equalize'] and P.get('weighting') in (None, 'nan'):
        return {'what': 'rms', 'got': float(util.rms(y)), 'want': float(cal.get_mean_sf(P['f0'], P['f1'], L)), 'tol_db': 0.5}
    if t in ('bandlimited_click', 'BandlimitedClickFactory') and P.get('weighting') in (None, 'nan') and P.get('mc', 'inf') in ('inf', 'none'):
        n1 = int(round(fs))
        if P.get('unit', 'rms') == 'peak':
            # peak unit: the peak-to-peak amplitude is the scale factor of the level (papr normalisation)
            if P['equalize']:
                return None
            freq = np.fft.rfftfreq(n1, d=1 / fs)
            mask = (freq >= P['flb']) & (freq < P['fub'])
            band = float(np.mean(cal.get_sf(freq[mask], util.band_to_spectrum_level(L, mask.sum())))) * math.sqrt(mask.sum())
            return {'what': 'peak-to-peak', 'got': float(np.ptp(y)), 'want': band, 'tol_db': 1e-6}
        # rms unit: the spectrum of the one-second frame holds get_sf(f, spectrum level) in each of the m bins of the band,
        # so its RMS over that second is the root of the summed squares; the window keeps all but a sliver of it
        freq = np.fft.rfftfreq(n1, d=1 / fs)
        mask = (freq >= P['flb']) & (freq < P['fub'])
        sf = cal.get_sf(freq[mask], util.band_to_spectrum_level(L, mask.sum()))
        if not P['equalize']:
            sf = np.full(mask.sum(), np.mean(sf))
        full = np.zeros(n1)
        full[:len(y)] = y
        return {'what': 'rms over 1 s', 'got': float(util.rms(full)), 'want': float(np.sqrt(np.sum(sf ** 2))), 'tol_db': 0.5}
    if t == 'click':
        return {'what': 'every sample', 'got': float(np.max(np.abs(np.abs(y) - cal.get_sf(0, L)))) + float(cal.get_sf(0, L)),
                'want': float(cal.get_sf(0, L)), 'tol_db': 1e-9}
    if t in ('wav', 'WavFileFactory') and P['norm'] in ('rms', 'pe') and P['out_fs'] == P['file_fs']:
        got = float(util.rms(y)) if P['norm'] == 'rms' else float(np.max(y))
        return {'what': P['norm'], 'got': got, 'want': float(cal.get_sf(1e3, L)), 'tol_db': 1e-4}
    return None


def _impl_rms(case):
    """whole-cycle tone / SAM tone on the bin grid: RMS and the read-back level"""
    from psiaudio import stim, util
    cal = _mkcal(case['cal'])
    fs, N, L, pol = case['fs'], case['N'], case['L'], case['pol']
    K = case.get('kinds', {})
    Lf = L
    L = _as_kind(L, K.get('level', 'py'))
    pol = {'int': int, 'float': float, 'npint': np.int8}[K.get('pol', 'int')](pol)
    ints = bool(case.get('ints'))     # frequencies handed over as Python ints (integer-dtype frequency arrays inside)

    def fr(x):
        if not ints:
            return x
        assert x == int(x), x
        return int(x)
    extra = {}
    if ints:
        # get_sf over an integer frequency array (np.arange(fl, fh + 1) as the FIR noise factory builds it) against
        # scalar float requests, and the equalized FIR taps for integer against float band edges
        fl, fh = case['band']
        extra['arr'] = [float(v) for v in cal.get_sf(np.arange(int(fl), int(fh) + 1), L)]
        extra['arr_scalar'] = [float(cal.get_sf(float(f), L)) for f in range(int(fl), int(fh) + 1)]
        wl, wh = int(fl), int(fl) + 3000          # a band wide enough for 201 taps to resolve
        ti = stim.BandlimitedFIRNoiseFactory(fs, wl, wh, L, ntaps=201, seed=1, calibration=cal, equalize=True).taps
        tf = stim.BandlimitedFIRNoiseFactory(fs, float(wl), float(wh), L, ntaps=201, seed=1, calibration=cal, equalize=True).taps
        extra['fir_peak'] = float(np.max(np.abs(tf)))
        extra['fir_dev'] = float(np.max(np.abs(ti - tf)) / max(extra['fir_peak'], 1e-300))
    if case['kind'] == 'tone_rms':
        f = case['k'] * fs / N
        if case.get('factory'):
            y = stim.ToneFactory(fs, fr(f), L, case['phase'], pol, calibration=cal).next(N)
        else:
            y = stim.tone(fs, fr(f), L, case['phase'], pol, cal, samples=N, offset=case['offset'])
        r = float(util.rms(y))
        return dict(extra, y=[float(v) for v in y[:8]], rms=r, sf=float(cal.get_sf(f, Lf)), db=float(cal.get_db(f, r)),
                    csd_bin=float(np.abs(util.csd(y, detrend=None)[case['k']])), n=int(len(y)))
    fc, fm = case['kc'] * fs / N, case['km'] * fs / N
    if case.get('factory'):
        y = stim.SAMToneFactory(fs, fr(fc), fr(fm), L, phase=case['phase'], phase_lb=case.get('phase_lb', 0),
                                phase_ub=case.get('phase_ub', 0), polarity=pol, calibration=cal, eq_power=case['eq_power'],
                                equalize=case.get('equalize', True)).next(N)
    else:
        y = stim.sam_tone(fs, fr(fc), fr(fm), L, phase=case['phase'], phase_lb=case.get('phase_lb', 0),
                          phase_ub=case.get('phase_ub', 0), polarity=pol, calibration=cal, samples=N,
                          offset=case['offset'], eq_power=case['eq_power'], equalize=case.get('equalize', True))
    c = np.abs(util.csd(y, detrend=None))
    # without equalization the carrier's scale factor serves the three components
    freqs = [fc - fm, fc, fc + fm] if case.get('equalize', True) else [fc, fc, fc]
    # the expected scale factors are asked for one float frequency at a time
    return dict(extra, y=[float(v) for v in y[:8]], rms=float(util.rms(y)), sf=[float(cal.get_sf(float(f), Lf)) for f in freqs],
                comp=[float(c[case['kc'] - case['km']]), float(c[case['kc']]), float(c[case['kc'] + case['km']])],
                eq=float(stim.sam_eq_power(1)), db=float(cal.get_db(fc, float(util.rms(y)))), n=int(len(y)))


def _df2t(b, a, x, z):
    """Level/Filter.v lfilter: transposed direct form II recurrence, coded independently of scipy"""
    b, a, z = list(b), list(a), list(z)
    ys = []
    for x0 in x:
        y = (b[0] if b else 0.0) * x0 + (z[0] if z else 0.0)
        nz = []
        for i in range(len(z)):
            bi = b[i + 1] if i + 1 < len(b) else 0.0
            ai = a[i + 1] if i + 1 < len(a) else 0.0
            zi = z[i + 1] if i + 1 < len(z) else 0.0
            nz.append(bi * x0 - ai * y + zi)
        z = nz
        ys.append(y)
    return np.array(ys), np.array(z)


def _impl_filter(case):
    from scipy import signal
    from psiaudio import stim
    if case['what'] == 'lfilter':
        b, a, x, z = (np.array(case[k], dtype=float) for k in ('b', 'a', 'x', 'z'))
        y, zf = signal.lfilter(b, a, x, zi=z)
        y2, _ = signal.lfilter(b, a, case['c'] * x, zi=case['c'] * z)
        return {'y': [float(v) for v in y], 'zf': [float(v) for v in zf], 'y_scaled': [float(v) for v in y2]}
    # the notch factory on a broadband carrier: first chunks
    fs = case['fs']
    car = stim.BroadbandNoiseFactory(fs, case['level'], seed=case['seed'], polarity=case['pol'])
    f = stim.NotchFilterFactory(fs, case['f'], case['q'], car)
    out = np.concatenate([f.next(case['n'] // 2), f.next(case['n'] - case['n'] // 2)])
    carrier = stim.BroadbandNoiseFactory(fs, case['level'], seed=case['seed'], polarity=case['pol']).next(case['n'])
    return {'y': [float(v) for v in out], 'carrier': [float(v) for v in carrier], 'b': [float(v) for v in f.b],
            'a': [float(v) for v in f.a]}


REJECTS = {
    'sam_depth_half': lambda stim, cal: stim.sam_tone(100000.0, 8000.0, 100.0, 60.0, depth=0.5, calibration=cal, samples=50),
    'sam_depth_zero': lambda stim, cal: stim.sam_tone(100000.0, 8000.0, 100.0, 60.0, depth=0, calibration=cal, samples=50),
    'sam_depth_two': lambda stim, cal: stim.SAMToneFactory(100000.0, 8000.0, 100.0, 60.0, depth=2, calibration=cal).next(50),
    'chirp_equalize_nocal': lambda stim, cal: stim.chirp(100000.0, 2000.0, 8000.0, 0.001, 1.0, calibration=None, equalize=True),
    'click_equalize_nocal': lambda stim, cal: stim.bandlimited_click(100000.0, 2000.0, 8000.0, 0.002, 1.0, equalize=True),
    'click_unit_unknown': lambda stim, cal: stim.bandlimited_click(100000.0, 2000.0, 8000.0, 0.002, 60.0, level_unit='average',
                                                                  calibration=cal),
    'broadband_equalize': lambda stim, cal: stim.BroadbandNoiseFactory(100000.0, 60.0, equalize=True, calibration=cal).next(5),
    'tone_no_length': lambda stim, cal: stim.tone(100000.0, 1000.0, 60.0, calibration=cal),
    'tone_two_lengths': lambda stim, cal: stim.tone(100000.0, 1000.0, 60.0, calibration=cal, samples=10, duration=0.0001),
    'sam_two_lengths': lambda stim, cal: stim.sam_tone(100000.0, 8000.0, 100.0, 60.0, calibration=cal, samples=10, duration=0.0001),
    'wav_normalization_unknown': lambda stim, cal: stim.load_wav(100000.0, _wavfile('i16', 100000.0), 60.0, cal, 'peak'),
}
ACCEPTS = {     # the neighbours of the rejected values that must be served
    'sam_depth_one_float': lambda stim, cal: stim.sam_tone(100000.0, 8000.0, 100.0, 60.0, depth=1.0, calibration=cal, samples=50),
    'sam_depth_one_int': lambda stim, cal: stim.sam_tone(100000.0, 8000.0, 100.0, 60.0, depth=1, calibration=cal, samples=50),
}


def _impl_reject(case):
    from psiaudio import stim
    cal = _mkcal(case['cal'])
    fn = REJECTS.get(case['what']) or ACCEPTS[case['what']]
    try:
        out = fn(stim, cal)
        return {'exc': None, 'n': int(len(out)), 'finite': bool(np.all(np.isfinite(out)))}
    except Exception as e:               # which exception is part of what is observed
        return {'exc': type(e).__name__, 'msg': str(e)[:100]}


# ----------------------------------------------------------------------------------------------------------------
# memoised paths (stim.fast_cache): sweeps in ONE process over arguments that are equal as dictionary keys (1, 1.0, True /
# 0, 0.0, False), that merely share a hash (-1, -2, -1.0, -2.0), that come positionally or by keyword, and over distinct
# calibration objects; every answer is judged for itself
SWEEP = [-1, -2, -1.0, -2.0, 1, 1.0, True, 0, 0.0, False, 2, -2, -1, 60, 60.5]


def _impl_cache(case):
    from psiaudio import stim, util
    from psiaudio.calibration import FlatCalibration
    w = case['what']
    levels = [SWEEP[i] for i in case['order']]
    if w in ('wav', 'wavfactory'):
        fs = case['file_fs']
        path = _wavfile(case['file'], fs)
        raw = np.asarray(stim.load_wav(fs, path), dtype=float)        # no calibration: the file itself, range -1 .. 1
        cals = [FlatCalibration(case['s']), FlatCalibration(case['s']), FlatCalibration(case['s'] + 10.0)]
        steps = []
        for ci, cal in enumerate(cals):
            for j, L in enumerate(levels if ci != 1 else levels[::-1]):
                if w == 'wavfactory':
                    y = stim.WavFileFactory(fs, path, L, cal, case['norm']).waveform
                elif j % 2:
                    y = stim.load_wav(fs, path, level=L, calibration=cal, normalization=case['norm'])     # keyword twin
                else:
                    y = stim.load_wav(fs, path, L, cal, case['norm'])
                y = np.asarray(y, dtype=float)
                got = {'rms': float(util.rms(y)), 'pe': float(np.max(y)), None: float(util.rms(y) / util.rms(raw))}[case['norm']]
                steps.append({'L': float(L), 'kind': type(L).__name__, 'cal': ci, 'got': got, 'want': float(cal.get_sf(1e3, float(L))),
                              'n': int(len(y))})
        return {'steps': steps, 'n_raw': int(len(raw))}
    if w == 'samenv':
        fs, n, fm = case['fs'], case['n'], case['fm']
        ref = np.asarray(stim.sam_envelope(-2, n + 6, fs, 1.0, fm, 0, False), dtype=float)
        steps = []
        for o in case['offsets']:
            for depth, eq in ((1, False), (1.0, 0), (True, 0.0)):
                e = np.asarray(stim.sam_envelope(o, n, fs, depth, fm, 0, eq), dtype=float)
                steps.append({'o': o, 'depth': repr(depth), 'eq': repr(eq), 'n': int(len(e)),
                              'dev': float(np.max(np.abs(e - ref[o + 2:o + 2 + n]))) if len(e) == n else None})
        # the envelope around a carrier at each level of the sweep
        cal = FlatCalibration(case['s'])
        outs = []
        for L in levels:
            c = stim.ToneFactory(fs, 2000.0, L, 0.3, calibration=cal)
            outs.append(np.asarray(stim.SAMEnvelopeFactory(fs, 1.0, fm, 0.0, 1, c).next(n), dtype=float))
        base = outs[0] / cal.get_sf(2000.0, float(levels[0]))
        return {'steps': steps, 'level_dev': [float(np.max(np.abs(o / cal.get_sf(2000.0, float(L)) - base))) for o, L in zip(outs, levels)],
                'peak': float(np.max(np.abs(base)))}
    if w == 'cos2env':
        fs, n = case['fs'], case['n']
        a = np.asarray(stim.cos2envelope(fs, 0.004, rise_time=0.001, start_time=0.002, samples=n), dtype=float)
        b = np.asarray(stim.cos2envelope(fs, 0.004, rise_time=0.002, start_time=0.001, samples=n), dtype=float)
        a2 = np.asarray(stim.cos2envelope(fs, 0.004, 0.001, 0, 0.002, n), dtype=float)
        b2 = np.asarray(stim.cos2envelope(fs, 0.004, 0.002, 0, 0.001, n), dtype=float)
        c1 = np.asarray(stim.cos2envelope(fs, 0.004, 0.001, samples=n, offset=1), dtype=float)
        c0 = np.asarray(stim.cos2envelope(fs, 0.004, 0.001, samples=n + 1, offset=False), dtype=float)
        cal = FlatCalibration(case['s'])
        outs = []
        for L in levels:
            c = stim.ToneFactory(fs, 2000.0, L, 0.3, calibration=cal)
            outs.append(np.asarray(stim.Cos2EnvelopeFactory(fs, 0.004, 0.001, c).next(n), dtype=float))
        base = outs[0] / cal.get_sf(2000.0, float(levels[0]))
        return {'kw_equal_pos': bool(np.array_equal(a, a2) and np.array_equal(b, b2)), 'swapped_differ': bool(not np.array_equal(a, b)),
                'rise_a': int(np.argmax(a >= 1.0) - np.argmax(a > 0) + 1), 'start_a': int(np.argmax(a > 0)),
                'rise_b': int(np.argmax(b >= 1.0) - np.argmax(b > 0) + 1), 'start_b': int(np.argmax(b > 0)),
                'offset_shift': bool(np.array_equal(c1, c0[1:])),
                'level_dev': [float(np.max(np.abs(o / cal.get_sf(2000.0, float(L)) - base))) for o, L in zip(outs, levels)],
                'peak': float(np.max(np.abs(base)))}
    if w == 'blnoise':
        fs, n = 100000.0, case['n']
        cal = FlatCalibration(case['s'])
        outs = []
        for j, L in enumerate(levels):
            pa = [1, 1.0, True][j % 3]
            f = stim.BandlimitedNoiseFactory(fs, case['seed'], L, 4000.0, 8000.0, 1, pa, [80, 80.0][j % 2], calibration=cal)
            outs.append(np.asarray(f.next(n), dtype=float) / cal.get_mean_sf(4000.0, 8000.0, float(L)))
        return {'level_dev': [float(np.max(np.abs(o - outs[0]))) for o in outs], 'peak': float(np.max(np.abs(outs[0])))}
    raise KeyError(w)


def _oracle_cache(case, res):
    w = case['what']
    tag = f"memoised path {w} ({ {k: v for k, v in case.items() if k not in ('kind', 'what', 'order')} })"
    if w in ('wav', 'wavfactory'):
        for i, st in enumerate(res['steps']):
            if st['n'] != res['n_raw']:
                return f'{tag}: request {i} (level {st["L"]} given as {st["kind"]}) returned {st["n"]} samples, the file has {res["n_raw"]}'
            if not abs(st['got'] - st['want']) <= 2e-5 * st['want']:
                prev = res['steps'][i - 1] if i else None
                return (f'{tag}: request {i} in this process - level {st["L"]} dB given as {st["kind"]}, calibration object {st["cal"]} - '
                        f'has {case["norm"]} value {st["got"]}, get_sf(1 kHz, level) = {st["want"]} '
                        f'({20 * math.log10(st["got"] / st["want"]):+.3f} dB)'
                        + (f'; the request before it was level {prev["L"]} ({prev["kind"]})' if prev else ''))
        return None
    if w == 'samenv':
        for st in res['steps']:
            if st['dev'] is None or not st['dev'] <= 1e-12:
                return (f'{tag}: sam_envelope(offset={st["o"]}, depth={st["depth"]}, equalize={st["eq"]}) is not the fragment at that '
                        f'offset of the envelope (deviation {st["dev"]})')
    if w == 'cos2env':
        if not res['kw_equal_pos']:
            return f'{tag}: cos2envelope called with keywords differs from the same call with positional arguments'
        if not res['swapped_differ'] or res['start_a'] <= res['start_b'] or res['rise_a'] >= res['rise_b']:
            return (f'{tag}: cos2envelope(rise_time=1 ms, start_time=2 ms) and (rise_time=2 ms, start_time=1 ms) must differ: starts '
                    f'{res["start_a"]} / {res["start_b"]}, rises {res["rise_a"]} / {res["rise_b"]} samples')
        if not res['offset_shift']:
            return f'{tag}: cos2envelope(offset=1) is not cos2envelope(offset=False) shifted by one sample'
    tol = 1e-4 if w == 'blnoise' else 1e-12
    for i, d in enumerate(res['level_dev']):
        if not d <= tol * res['peak']:
            return (f'{tag}: request {i} of the level sweep {[SWEEP[j] for j in case["order"]]} (level {SWEEP[case["order"][i]]!r}) is not '
                    f'the first one scaled by the ratio of the scale factors: deviation {d} for a peak of {res["peak"]}')
    return None


def impl(case):
    import warnings
    if case['kind'] == 'cache':
        with warnings.catch_warnings():
            warnings.simplefilter('ignore')
            return _impl_cache(case)
    if case['kind'] == 'filter':
        return _impl_filter(case)
    if case['kind'] == 'reject':
        with warnings.catch_warnings():
            warnings.simplefilter('ignore')
            return _impl_reject(case)
    with warnings.catch_warnings():
        warnings.simplefilter('ignore')
        if case['kind'] == 'stim':
            return _impl_stim(case)
        return _impl_rms(case)


# ====================================================================================================================
# model side: the generated expressions evaluated in binary64 against the samples the implementation returned
def _sens_at(case, f):
    return float(_mkcal(case['cal']).get_sens(f))


def _glue(case, res):
    if _DEFS is None or _iserr(res):
        return []
    bad = []
    k = case['kind']
    if k == 'tone_rms':
        fs, N = case['fs'], case['N']
        f = case['k'] * fs / N
        i = np.arange(len(res['y']), dtype=float)
        m = _gen('tone_sample', _sens_at(case, f), case['L'], float(case['pol']), i, float(case['offset']), fs, f, case['phase'])
        if not np.all(np.abs(m - np.array(res['y'])) <= 1e-11 * max(res['sf'], 1e-300)):
            bad.append('tone samples differ from the generated tone_sample')
        if not abs(_gen('cal_get_sf', _sens_at(case, f), case['L'], 0.0) - res['sf']) <= 1e-12 * res['sf']:
            bad.append('get_sf differs from the generated cal_get_sf')
    elif k == 'sam_rms':
        fs, N = case['fs'], case['N']
        fc, fm = case['kc'] * fs / N, case['km'] * fs / N
        i = np.arange(len(res['y']), dtype=float)
        suffix = '' if case['eq_power'] else '_noeq'
        tot = 0
        eqz = case.get('equalize', True)
        for name, f, ph in (('sam_lb_sample', fc - fm, float(case.get('phase_lb', 0))), ('sam_c_sample', fc, case['phase']),
                            ('sam_ub_sample', fc + fm, float(case.get('phase_ub', 0)))):
            tot = tot + _gen(name + suffix, _sens_at(case, f if eqz else fc), case['L'], float(case['pol']), i, float(case['offset']), fs, fc, fm,
                             1.0, ph)
        if not np.all(np.abs(tot - np.array(res['y'])) <= 1e-11 * max(res['sf'])):
            bad.append('sam_tone samples differ from the sum of the three generated components')
    elif k == 'filter' and case['what'] == 'lfilter':
        y, zf = _df2t(case['b'], case['a'], case['x'], case['z'])
        sc = max(1.0, float(np.max(np.abs(y))))
        if not (np.all(np.abs(y - np.array(res['y'])) <= 1e-10 * sc) and np.all(np.abs(zf - np.array(res['zf'])) <= 1e-10 * sc)):
            bad.append('scipy lfilter differs from the recurrence of Level/Filter.v')
    elif k == 'filter':
        y, _ = _df2t(res['b'], res['a'], res['carrier'], [0.0] * (len(res['a']) - 1))
        if not np.all(np.abs(y - np.array(res['y'])) <= 1e-10 * max(np.max(np.abs(y)), 1e-300)):
            bad.append('NotchFilterFactory output differs from the recurrence of Level/Filter.v started at rest on its carrier')
    elif k == 'stim' and case['type'] in ('click',) and 'y1' in res:
        cal = _mkcal(case['cal'])
        m = _gen('click_sample', float(cal.get_sens(0)), case['L'], 1.0)
        ctol = 1e-6 if case.get('kinds', {}).get('level') == 'np32' else 1e-12
        if not all(abs(v - m) <= ctol * abs(m) for v in res['y1']):
            bad.append('click samples differ from the generated click_sample')
    elif k == 'stim' and case['type'] == 'BroadbandNoiseFactory' and case['cal'] is not None and 'y1' in res:
        # the factory's own bounds against the generated ones
        from psiaudio import stim
        cal = _mkcal(case['cal'])
        f = stim.BroadbandNoiseFactory(case['fs'], case['L'], seed=1, calibration=cal)
        msf = float(cal.get_mean_sf(0, case['fs'], case['L']))
        if not (abs(f.low - _gen('bb_low', msf)) <= 1e-12 * abs(f.low) and abs(f.high - _gen('bb_high', msf)) <= 1e-12 * abs(f.high)):
            bad.append('BroadbandNoiseFactory bounds differ from the generated bb_low / bb_high')
    return bad


def term(case, res):
    glue = _glue(case, res)
    if not _iserr(res):
        res['glue'] = glue[:5]
    parts = [blit(not glue)]
    if case['kind'] == 'stim' and not _iserr(res) and 'y1' in res:
        tolinv = int(1 / _level_tol(case, res))
        pairs = listlit([f'({dy(a)}, {dy(b)})' for a, b in zip(res['y1'], res['y4'])])
        parts.append(f"check_times10 {zlit(tolinv)} {dy(res['peak'])} {pairs}")
        parts.append(f"check_len {zlit(res['n'][0])} {zlit(res['n'][1])}")
        if 'y3' in res:
            neg = listlit([f'({dy(a)}, {dy(b)})' for a, b in zip(res['y1'], res['y3'])])
            parts.append(f'check_negated {neg}')
    return ' && '.join(f'({p})' for p in parts)


# ====================================================================================================================
# the property, judged on the implementation's answers only
def _oracle_stim(case, res):
    t = case['type']
    tag = f"{t} (fs {case['fs']}, {case['cal']['kind'] if case['cal'] else 'no'} calibration, level {case['L']}, {case.get('par')})"
    if _iserr(res):
        return f'{tag}: raised {res["err"]}: {res["msg"]}'
    if not res['finite']:
        return f'{tag}: samples are not finite'
    if res['peak'] == 0.0 and res['n'][0] > 0:
        return f'{tag}: every one of the {res["n"][0]} samples is exactly zero (a stimulus at a finite level is not silence)'
    if res.get('regain_ok') is False:
        return (f'{tag}: after the fixed gain of an already used calibration was set to {case["regain"]} dB the stimulus differs '
                f'from the one through a fresh calibration with that gain (level off by {res.get("regain_db")} dB)')
    if len(set(res['n'])) != 1 or res['n'][0] == 0:
        return f'{tag}: the number of samples changes with the level: {res["n"]}'
    tol = _level_tol(case, res)
    d = case['d']
    if not res['dev_d'] <= tol * 10 ** (d / 20) * res['peak']:
        return (f'{tag}: level {"x" if case["cal"] is None else "+"} {d} dB does not multiply every sample by 10^({d}/20): '
                f'largest deviation {res["dev_d"]} for a peak of {res["peak"]}')
    if not res['dev_20'] <= tol * 10 * res['peak']:
        return f'{tag}: level + 20 dB does not multiply every sample by 10: largest deviation {res["dev_20"]} for a peak of {res["peak"]}'
    if t in HAS_POLARITY:
        if res['n_neg'] != res['n'][0]:
            return f'{tag}: inverting the polarity changes the number of samples: {res["n"][0]} -> {res["n_neg"]}'
        if not res['neg_exact']:
            return f'{tag}: inverting the polarity does not negate every sample exactly'
    P = case.get('par', {})
    if res.get('twin_equal') is False:
        return f'{tag}: the duration-based call differs from the sample-based call with samples = round(duration * fs) = {P["n"]}'
    if t in ('chirp', 'ChirpFactory') and P.get('equalize') and P.get('mc') == 0 and P.get('window') == 'boxcar' \
            and P.get('weighting') in (None, 'nan') and case['cal'] and case['cal']['kind'] == 'interp':
        # max_correction = 0 dB clips every per-frequency scale factor to their mean: the equalized sweep has a flat envelope
        if res['crest'] is None or not abs(res['crest'] - math.sqrt(2)) <= 0.02:
            return (f'{tag}: with max_correction=0 the equalized chirp must have a flat envelope (crest factor sqrt 2), '
                    f'it has {res["crest"]}')
    lv = res['level']
    if lv is not None:
        err_db = abs(20 * math.log10(lv['got'] / lv['want'])) if lv['got'] > 0 and lv['want'] > 0 else float('inf')
        tol_db = max(lv['tol_db'], 1e-4) if case.get('kinds', {}).get('level') == 'np32' else lv['tol_db']
        if not err_db <= tol_db:
            return (f'{tag}: documented level definition ({lv["what"]}) reads {lv["got"]} V, the calibration asks for {lv["want"]} V: '
                    f'{err_db:.3f} dB apart (tolerance {lv["tol_db"]} dB)')
    return None


def _oracle_rms(case, res):
    L = case['L']
    if case.get('ints'):
        fl, fh = case['band']
        for f, a, b in zip(range(int(fl), int(fh) + 1), res['arr'], res['arr_scalar']):
            if not abs(a - b) <= 1e-12 * b:
                return (f'{case["cal"]} level {L}: get_sf over the integer frequency array np.arange({int(fl)}, {int(fh) + 1}) gives '
                        f'{a} at {f} Hz, the scalar request get_sf({float(f)}, {L}) gives {b} ({20 * math.log10(a / b):+.3f} dB)')
        if not (res['fir_peak'] > 0 and res['fir_dev'] <= 1e-12):
            return (f'{case["cal"]} level {L}: equalized FIR noise taps for integer band edges {int(fl)}, {int(fl) + 3000} differ from '
                    f'those for the same edges as floats by {res["fir_dev"]} of the largest tap')
    if case['kind'] == 'tone_rms':
        tag = f"tone of {case['k']} cycles in {case['N']} samples (fs {case['fs']}, {case['cal']['kind']} calibration, level {L}, polarity {case['pol']})"
        if res['n'] != case['N']:
            return f'{tag}: {res["n"]} samples'
        if not abs(res['rms'] - res['sf']) <= 1e-9 * res['sf']:
            return f'{tag}: RMS {res["rms"]} but get_sf = {res["sf"]}'
        if not abs(res['db'] - L) <= 1e-9 * max(1.0, abs(L)):
            return f'{tag}: measured back through the calibration reads {res["db"]} dB'
        if not abs(res['csd_bin'] - res['sf']) <= 1e-9 * res['sf']:
            return f'{tag}: its spectrum bin reads {res["csd_bin"]} but get_sf = {res["sf"]}'
        return None
    tag = f"SAM tone fc bin {case['kc']} fm bin {case['km']} in {case['N']} samples ({case['cal']['kind']} calibration, level {L}, eq_power {case['eq_power']})"
    eq = res['eq'] if case['eq_power'] else 1.0
    for j, w in enumerate((0.25, 0.5, 0.25)):
        want = res['sf'][j] * w / eq
        if not abs(res['comp'][j] - want) <= 1e-9 * want:
            return f'{tag}: component {j} has RMS {res["comp"][j]}, expected get_sf * {w} / {eq} = {want}'
    tot = math.sqrt(sum((s * w / eq) ** 2 for s, w in zip(res['sf'], (0.25, 0.5, 0.25))))
    if not abs(res['rms'] - tot) <= 1e-9 * tot:
        return f'{tag}: total RMS {res["rms"]}, the component powers add to {tot}'
    if case['eq_power'] and case['cal']['kind'].startswith('flat') and not abs(res['db'] - L) <= 1e-9 * max(1.0, abs(L)):
        return f'{tag}: equal-power SAM tone through a flat calibration reads back {res["db"]} dB'
    return None


def _oracle_filter(case, res):
    if case['what'] == 'lfilter':
        y, y2, c = np.array(res['y']), np.array(res['y_scaled']), case['c']
        if not np.all(np.abs(y2 - c * y) <= 1e-10 * max(1.0, abs(c)) * max(1.0, float(np.max(np.abs(y))))):
            return f'lfilter of the scaled input and state is not the scaled output (order {len(case["a"]) - 1}, factor {c})'
        return None
    return None


def _oracle_reject(case, res):
    if case['what'] in REJECTS:
        if res['exc'] != 'ValueError':
            return (f'{case["what"]}: a request the stimulus cannot honour at the requested level must be refused with ValueError; '
                    f'got {res}')
        return None
    if res['exc'] is not None or not res['finite'] or res['n'] != 50:
        return f'{case["what"]}: a legal request was not served: {res}'
    return None


def oracle(case, res):
    if case['kind'] == 'cache':
        return _oracle_cache(case, res)
    if case['kind'] == 'filter':
        return _oracle_filter(case, res)
    if case['kind'] == 'reject':
        return _oracle_reject(case, res)
    return _oracle_stim(case, res) if case['kind'] == 'stim' else _oracle_rms(case, res)


def nontrivial(case, res):
    return True


def key(case, res):
    return None


def distribution(cases, results):
    d = {'kinds': {}, 'types': {}, 'calibrations': {}, 'with_polarity': 0, 'level_judged': 0, 'weighting': 0}
    for c, r in zip(cases, results):
        d['kinds'][c['kind']] = d['kinds'].get(c['kind'], 0) + 1
        for kk, vv in (c.get('kinds') or {}).items():
            d.setdefault('arg_kinds', {}).setdefault(kk, {}).setdefault(vv, 0)
            d['arg_kinds'][kk][vv] += 1
        ck = c['cal']['kind'] if c.get('cal') else 'none'
        if c['kind'] == 'filter':
            ck = 'n/a'
        d['calibrations'][ck] = d['calibrations'].get(ck, 0) + 1
        if c['kind'] == 'stim':
            d['types'][c['type']] = d['types'].get(c['type'], 0) + 1
            d['with_polarity'] += c['type'] in HAS_POLARITY
            d['level_judged'] += bool(isinstance(r, dict) and r.get('level'))
            d['weighting'] += bool(c.get('par', {}).get('weighting'))
    return d


# ====================================================================================================================
# generators
RATES = [25000.0, 100000.0, 195312.5]


def _level(rng):
    return rng.choice([float(rng.randint(-40, 140)), rng.uniform(-40, 140), 60.0, 94.0, -10.0, 120.0, 0.0])


def _delta(rng):
    return rng.choice([float(rng.randint(-30, 30)) or 6.0, rng.uniform(-30, 30), 6.0, -3.5, 13.7])


def _flat(rng):
    return {'kind': 'flat', 's': rng.choice([float(rng.randint(60, 120)), rng.uniform(60, 120)]),
            'g': rng.choice([0.0, 0.0, float(rng.randint(-20, 20)), rng.uniform(-20, 20)])}


def _interp(rng, fmax, step=None):
    """table from 0 Hz to fmax inclusive (so that 0 Hz and the mean over 0..fs are calibrated)"""
    n = rng.randint(5, 12)
    freqs = sorted({0.0, float(fmax)} | {float(round(rng.uniform(0, fmax))) for _ in range(n)})
    return {'kind': 'interp', 'freqs': freqs, 'sens': [rng.uniform(70, 110) for _ in freqs],
            'g': rng.choice([0.0, float(rng.randint(-10, 10))])}


def _point(rng, freqs):
    fr = sorted(set(float(f) for f in freqs))
    return {'kind': 'point', 'freqs': fr, 'sens': [rng.uniform(70, 110) for _ in fr], 'g': rng.choice([0.0, 3.0])}


def _cal_for(rng, which, fs, points):
    if which == 'flat':
        return _flat(rng)
    if which == 'interp':
        return _interp(rng, fs)
    if which == 'point':
        return _point(rng, points)
    return None


def _seed(rng):
    return rng.choice([0, rng.randint(1, 99), rng.randint(1, 99)])       # 0 is a legal (falsy) seed


def _kinds(rng, which, t):
    """how the numbers are handed over: Python float / int, NumPy scalars; the level relation is the same for all"""
    lv = rng.choice(['py', 'py', 'int', 'np64', 'np32']) if which is not None else rng.choice(['py', 'np64'])
    return {'level': lv, 'pol': rng.choice(['int', 'float', 'npint']), 'fs': rng.choice(['float', 'int']),
            'freq': rng.choice(['float', 'float', 'int', 'npint'])}


def _stim_case(rng, t, which, fs=None):
    fs = fs or rng.choice(RATES)
    n = rng.choice([37, 64, 200, 501])
    P = {}
    points = [0.0, 1000.0]
    if t in ('tone', 'tone_duration', 'ToneFactory', 'ramped_tone', 'cos2_tone'):
        P = {'f': rng.choice([1000.0, 2000.0, float(rng.randint(100, int(fs / 2) - 100))]), 'phase': rng.uniform(-3, 3), 'n': n,
             'offset': rng.choice([0, 17, -5]), 'frac': rng.choice([0.0, 0.3, -0.3])}
        points = [P['f']]
    elif t in ('sam_tone', 'SAMToneFactory'):
        fc = float(rng.randint(2000, int(fs / 2) - 2000))
        fm = float(rng.choice([40, 110, 1000]))
        P = {'fc': fc, 'fm': fm, 'phase': rng.uniform(-3, 3), 'n': n, 'eq_power': rng.random() < 0.7,
             'equalize': rng.random() < 0.7 or which is None, 'phase_lb': rng.choice([0, rng.uniform(-3, 3)]),
             'phase_ub': rng.choice([0, rng.uniform(-3, 3)]), 'use_duration': t == 'sam_tone' and rng.random() < 0.35,
             'frac': rng.choice([0.0, 0.3, -0.3])}
        points = [fc - fm, fc, fc + fm]
    elif t in ('chirp', 'ChirpFactory'):
        f0 = float(rng.randint(500, 4000))
        f1 = f0 + float(rng.choice([10, 3000, 6000]))
        if which == 'point':
            f1 = f0 + 6.0
        P = {'f0': f0, 'f1': f1, 'dur': rng.choice([0.002, 0.01]), 'window': rng.choice(['boxcar', 'hann']),
             'equalize': which in ('interp', 'flat') and rng.random() < 0.4}
        if which is not None and rng.random() < 0.4:
            P['weighting'] = rng.choice(['mouse', 'nan'])
        if P['equalize']:
            P['mc'] = rng.choice(['inf', 'none', 0, 1.0, 6.0])
        points = list(np.arange(f0, f1))
    elif t == 'click':
        P = {'dur': rng.choice([0.0001, 0.00029, 0.001])}
        points = [0.0]
    elif t in ('bandlimited_click', 'BandlimitedClickFactory'):
        P = {'flb': float(rng.choice([2000, 4000])), 'fub': float(rng.choice([8000, 10000])), 'window': rng.choice([0.002, 0.01]),
             'unit': rng.choice(['rms', 'peak']) if t == 'bandlimited_click' else 'rms', 'equalize': which == 'interp' and rng.random() < 0.4}
        if which is not None and rng.random() < 0.4:
            P['weighting'] = rng.choice(['mouse', 'nan'])
        if P['equalize']:
            P['mc'] = rng.choice(['inf', 'none', 0, 3.0])
    elif t in ('broadband_noise', 'BroadbandNoiseFactory', 'gate_noise', 'sam_env_noise'):
        P = {'dur': 0.2 if t == 'broadband_noise' else 0.01, 'seed': _seed(rng), 'n': n, 'fm': 1000.0}
    elif t == 'bandlimited_noise':
        fs = 100000.0
        P = {'fl': rng.choice([1000.0, 2000.0, 4000.0]), 'fh': rng.choice([6000.0, 8000.0]), 'dur': 0.2, 'seed': _seed(rng)}
    elif t == 'BandlimitedNoiseFactory':
        fs = 100000.0
        fl, fh = rng.choice([(2000.0, 8000.0), (4000.0, 8000.0), (4000.0, 6000.0)])
        P = {'fl': fl, 'fh': fh, 'n': rng.choice([64, 300]), 'seed': _seed(rng), 'discard': rng.random() < 0.5,
             'rolloff': rng.choice([1, 2]), 'pass_att': rng.choice([1, 3]), 'stop_att': rng.choice([80, 60])}
    elif t == 'bandlimited_fir_noise':
        P = {'fl': 2000.0, 'fh': rng.choice([4000.0, 8000.0]), 'dur': 0.005, 'ntaps': rng.choice([201, 101]), 'seed': _seed(rng),
             'equalize': rng.random() < 0.5, 'window': rng.choice(['hann', 'hamming', 'blackman']),
             'max_correction': rng.choice([None, 6.0, 20.0])}         # None: the default np.inf
        if which is not None and rng.random() < 0.3:
            P['weighting'] = 'mouse'
    elif t == 'bandlimited_fir_noise_fn':
        P = {'fl': 2000.0, 'fh': rng.choice([4000.0, 8000.0]), 'dur': 0.004, 'ntaps': 201, 'seed': _seed(rng),
             'equalize': rng.random() < 0.6, 'window': rng.choice(['hann', 'hamming'])}
    elif t == 'ShapedNoiseFactory':
        P = {'dur': 0.004, 'ntaps': 201, 'seed': _seed(rng), 'window': rng.choice(['hann', 'blackman'])}
    elif t == 'shaped_noise':
        P = {'dur': 0.2, 'ntaps': 1001, 'seed': _seed(rng), 'window': rng.choice(['hann', 'hamming'])}
    elif t == 'notch_noise':
        P = {'f': rng.choice([4000.0, 8000.0]), 'q': rng.choice([1.33, 5.0]), 'dur': 0.2, 'seed': _seed(rng)}
    elif t in ('wav', 'WavFileFactory'):
        file_fs = rng.choice([25000.0, 100000.0])
        P = {'file': rng.choice(['i16', 'f32']), 'file_fs': file_fs, 'out_fs': rng.choice([file_fs, file_fs, file_fs / 2]),
             'norm': rng.choice(['pe', 'rms', None]) if t == 'wav' else rng.choice(['pe', 'rms'])}
        points = [1000.0]
    elif t == 'SquareWaveFactory':
        P = {'f': 1000.0, 'duty': 0.3, 'n': n}
    elif t == 'repeat_click':
        points = [0.0]
    cal = _cal_for(rng, which, fs, points)
    L = _level(rng)
    if which is None:
        L = float(10 ** rng.uniform(-3, 1))          # without calibration the level is a linear amplitude
    d = _delta(rng)
    K = _kinds(rng, which, t)
    if K['level'] == 'int':
        L, d = float(rng.choice([0, 0, rng.randint(-40, 140)])), float(rng.choice([-7, 6, 13]))
    elif K['level'] == 'np32':
        L, d = rng.randint(-80, 280) / 2, rng.choice([-6.5, 6.0, 13.5])
    c = {'kind': 'stim', 'type': t, 'fs': fs, 'cal': cal, 'L': L, 'd': d, 'par': P, 'kinds': K}
    if cal and cal['kind'] in ('flat', 'interp', 'point') and rng.random() < 0.5:
        c['regain'] = rng.choice([-20.0, 6.0, 3.5, 0.0, 12.0])
        c['regain_assign'] = rng.random() < 0.4
    return c


# which calibrations each stimulus can be generated with (None = no calibration argument / level as amplitude)
PLAN = {
    'tone': ['flat', 'interp', 'point', None], 'tone_duration': ['flat', 'point'], 'ToneFactory': ['flat', 'interp', 'point', None],
    'ramped_tone': ['flat', 'interp', 'point'], 'sam_tone': ['flat', 'interp', 'point', None],
    'SAMToneFactory': ['flat', 'interp', 'point'], 'chirp': ['flat', 'interp', 'point', None], 'ChirpFactory': ['flat', 'interp'],
    'click': ['flat', 'interp', 'point'], 'bandlimited_click': ['flat', 'interp', None], 'BandlimitedClickFactory': ['flat', 'interp'],
    'broadband_noise': ['flat', 'interp', None], 'BroadbandNoiseFactory': ['flat', 'interp', None],
    'bandlimited_noise': ['flat', 'interp', None], 'BandlimitedNoiseFactory': ['flat', 'interp', None],
    'bandlimited_fir_noise': ['flat', 'interp'], 'bandlimited_fir_noise_fn': ['flat', 'interp'], 'shaped_noise': ['flat', 'interp', None],
    'ShapedNoiseFactory': ['flat', 'interp', None],
    'notch_noise': ['flat', 'interp', None], 'wav': ['flat', 'interp', 'point'], 'WavFileFactory': ['flat', 'point'],
    'SquareWaveFactory': [None], 'cos2_tone': ['flat', 'point'], 'gate_noise': ['flat', 'interp'], 'sam_env_noise': ['flat'],
    'repeat_click': ['flat', 'point'],
}
SLOW = {'bandlimited_noise', 'shaped_noise', 'broadband_noise', 'notch_noise'}


def _rms_case(rng, kind, which):
    fs = rng.choice(RATES)
    N = rng.choice([8, 9, 16, 25, 64, 100, 257, 400, rng.randint(8, 400)])
    case = {'kind': kind, 'fs': fs, 'N': N, 'L': _level(rng), 'pol': rng.choice([1, -1]), 'phase': rng.uniform(-3, 3),
            'offset': rng.choice([0, 0, 5, 123, -7]),
            'kinds': {'level': rng.choice(['py', 'py', 'int', 'np64']), 'pol': rng.choice(['int', 'float', 'npint'])}}
    if case['kinds']['level'] == 'int':
        case['L'] = float(rng.choice([0, rng.randint(-40, 140)]))
    if rng.random() < 0.3:
        case.update(factory=True, offset=0)             # the factory twins start at sample 0
    if kind == 'tone_rms':
        case['k'] = rng.randint(1, (N - 1) // 2)
        pts = [case['k'] * fs / N]
    else:
        N = max(N, 16)
        case['N'] = N
        km = rng.randint(1, max(1, (N - 2) // 8))
        kc = rng.randint(km + 1, max(km + 1, (N - 1) // 2 - km))
        if 2 * (kc + km) >= N:
            kc, km = 3, 1
        case.update(kc=kc, km=km, eq_power=rng.random() < 0.7, equalize=rng.random() < 0.7,
                    phase_lb=rng.choice([0, rng.uniform(-3, 3)]), phase_ub=rng.choice([0, rng.uniform(-3, 3)]))
        fc_, fm_ = kc * fs / N, km * fs / N
        pts = [fc_ + fm_ * -1, fc_ + fm_ * 0, fc_ + fm_ * 1]
    if which == 'flat':
        case['cal'] = _flat(rng)
    elif which == 'interp':
        case['cal'] = _interp(rng, fs / 2)
    else:
        case['cal'] = _point(rng, pts + [fs / 7])
    return case


NONINT_CALS = [{'kind': 'flat_mv_pa', 'mv_pa': 1.85}, {'kind': 'flat_spl', 'spl': 80.5, 'vrms': 0.1},
               {'kind': 'flat', 's': 93.37, 'g': 0.0}, {'kind': 'flat', 's': 100.0, 'g': 2.25}]


def _int_case(rng, kind):
    """frequencies on an integer grid, passed as Python ints, through flat calibrations whose sensitivity is not a whole dB"""
    fs, N = rng.choice([(100000.0, 1000), (100000.0, 500), (100000.0, 2000), (25000.0, 250), (25000.0, 500)])
    case = {'kind': kind, 'fs': fs, 'N': N, 'L': _level(rng), 'pol': rng.choice([1, -1]), 'phase': rng.uniform(-3, 3),
            'offset': 0, 'ints': True, 'factory': rng.random() < 0.5, 'cal': dict(rng.choice(NONINT_CALS))}
    fl = rng.choice([500, 2000, 3999])
    case['band'] = [fl, fl + rng.randint(1, 8)]
    if kind == 'tone_rms':
        case['k'] = rng.randint(1, (N - 1) // 2)
    else:
        km = rng.randint(1, N // 16)
        kc = rng.randint(km + 1, (N - 1) // 2 - km)
        case.update(kc=kc, km=km, eq_power=rng.random() < 0.7)
    if case['cal']['kind'] == 'flat' and rng.random() < 0.5:
        case['cal']['s'] = float(rng.randint(60, 120)) + rng.choice([0.37, 0.5, 0.81])
    return case


def corpus():
    return [
        # FlatCalibration.get_sens on an integer-dtype frequency array must not truncate a fractional sensitivity
        {'kind': 'sam_rms', 'fs': 100000.0, 'N': 1000, 'kc': 80, 'km': 1, 'L': 80.0, 'pol': 1, 'phase': 0.3, 'offset': 0,
         'eq_power': True, 'ints': True, 'factory': False, 'band': [2000, 2004], 'cal': {'kind': 'flat_mv_pa', 'mv_pa': 1.85}},
        {'kind': 'sam_rms', 'fs': 100000.0, 'N': 1000, 'kc': 80, 'km': 1, 'L': 80.0, 'pol': -1, 'phase': 0.3, 'offset': 0,
         'eq_power': False, 'ints': True, 'factory': True, 'band': [2000, 2004], 'cal': {'kind': 'flat_spl', 'spl': 80.5, 'vrms': 0.1}},
        {'kind': 'tone_rms', 'fs': 100000.0, 'N': 1000, 'k': 80, 'L': 80.0, 'pol': 1, 'phase': 0.3, 'offset': 0,
         'ints': True, 'factory': False, 'band': [3999, 4003], 'cal': {'kind': 'flat_mv_pa', 'mv_pa': 1.85}},
        {'kind': 'stim', 'type': 'notch_noise', 'fs': 100000.0, 'cal': {'kind': 'flat', 's': 95.0, 'g': 0.0}, 'L': 60.0, 'd': 13.7,
         'par': {'f': 4000.0, 'q': 1.33, 'dur': 0.2, 'seed': 3}},
        {'kind': 'stim', 'type': 'bandlimited_click', 'fs': 100000.0, 'cal': {'kind': 'flat', 's': 95.0, 'g': 0.0}, 'L': 60.0, 'd': 6.0,
         'par': {'flb': 2000.0, 'fub': 8000.0, 'window': 0.002, 'unit': 'peak', 'equalize': False}},
        {'kind': 'stim', 'type': 'chirp', 'fs': 100000.0, 'cal': {'kind': 'flat', 's': 95.0, 'g': 0.0}, 'L': 60.0, 'd': 6.0,
         'par': {'f0': 2000.0, 'f1': 8000.0, 'dur': 0.002, 'window': 'hann', 'equalize': False, 'weighting': 'mouse'}},
        {'kind': 'tone_rms', 'fs': 100000.0, 'N': 100, 'k': 1, 'L': 80.0, 'pol': -1, 'phase': 0.3, 'offset': 0,
         'cal': {'kind': 'flat', 's': 100.0, 'g': 10.0}},
        {'kind': 'sam_rms', 'fs': 100000.0, 'N': 400, 'kc': 40, 'km': 4, 'L': 80.0, 'pol': 1, 'phase': 0.3, 'offset': 0, 'eq_power': True,
         'cal': {'kind': 'flat', 's': 100.0, 'g': 0.0}},
    ]


def cases(tier, rng):
    quick = tier == 'quick'
    for t, whiches in PLAN.items():
        for which in whiches:
            reps = (1 if t in SLOW else 3) if quick else (6 if t in SLOW else 30)
            for _ in range(reps):
                yield _stim_case(rng, t, which)
    # memoised paths, each swept in one process
    for norm in ('rms', 'pe', None):
        for what in ('wav', 'wavfactory'):
            if what == 'wavfactory' and norm is None:
                continue
            order = list(range(len(SWEEP)))
            if rng.random() < 0.5:
                order = order[:4][::-1] + order[4:]
            yield {'kind': 'cache', 'what': what, 'norm': norm, 'file': rng.choice(['i16', 'f32']), 'file_fs': rng.choice([25000.0, 100000.0]),
                   's': rng.choice([90.0, 93.37]), 'order': order}
    yield {'kind': 'cache', 'what': 'samenv', 'fs': 100000.0, 'n': 12, 'fm': 10000.0, 'offsets': [-1, -2, 0, 1, 2, -1], 's': 93.37,
           'order': list(range(len(SWEEP)))}
    yield {'kind': 'cache', 'what': 'cos2env', 'fs': 100000.0, 'n': 420, 's': 90.0, 'order': list(range(len(SWEEP)))}
    yield {'kind': 'cache', 'what': 'blnoise', 'n': 64, 's': 93.37, 'seed': rng.choice([0, 7]), 'order': list(range(len(SWEEP)))}
    for what in list(REJECTS) + list(ACCEPTS):
        yield {'kind': 'reject', 'what': what, 'cal': {'kind': 'flat', 's': 93.37, 'g': 0.0}}
    # every kind of level / polarity / rate argument, the falsy seed, the seconds-based twins with off-grid durations and the
    # boundary values of max_correction, whatever the draws above chose
    for lv in ('int', 'np64', 'np32'):
        for pk in ('float', 'npint'):
            for t in ('tone', 'sam_tone', 'click', 'BroadbandNoiseFactory'):
                c = _stim_case(rng, t, 'flat', fs=100000.0)
                c['kinds'] = {'level': lv, 'pol': pk, 'fs': 'int'}
                c['L'], c['d'] = {'int': (0.0, 6.0), 'np64': (0.0, 13.7), 'np32': (60.5, 6.5)}[lv]
                if 'seed' in c['par']:
                    c['par']['seed'] = 0
                yield c
    for t in ('tone_duration', 'sam_tone'):
        for frac in (0.3, -0.3):
            c = _stim_case(rng, t, 'interp')
            c['par'].update(frac=frac, use_duration=True)
            yield c
    for t in ('chirp', 'ChirpFactory'):
        for mc in (0, 'none', 1.0):
            c = _stim_case(rng, t, 'interp', fs=100000.0)
            c['par'].update(equalize=True, mc=mc, window='boxcar', dur=0.01, weighting=None, f1=c['par']['f0'] + 6000.0)
            yield c
    for t in ('broadband_noise', 'bandlimited_fir_noise', 'bandlimited_fir_noise_fn', 'ShapedNoiseFactory', 'notch_noise'):
        c = _stim_case(rng, t, 'flat')
        c['par']['seed'] = 0
        yield c
    # both values of the start-up option of the IIR noise factory, whatever the draws above chose
    for discard in (False, True):
        for which in ('flat', None):
            c = _stim_case(rng, 'BandlimitedNoiseFactory', which)
            c['par']['discard'] = discard
            yield c
    for which in ('flat', 'interp', 'point'):
        for _ in range(60 if quick else 1500):
            yield _rms_case(rng, 'tone_rms', which)
        for _ in range(25 if quick else 600):
            yield _rms_case(rng, 'sam_rms', which)
    for _ in range(60 if quick else 600):
        yield _filter_case(rng)
    for _ in range(30 if quick else 400):
        yield _int_case(rng, 'sam_rms')
    for _ in range(15 if quick else 200):
        yield _int_case(rng, 'tone_rms')


def _filter_case(rng):
    if rng.random() < 0.6:
        order = rng.randint(0, 6)
        # poles well inside the unit circle keep the recurrence well conditioned
        a = np.poly([rng.uniform(-0.7, 0.7) for _ in range(order)]) if order else np.array([1.0])
        nb = rng.randint(1, order + 1)
        z = [rng.uniform(-1, 1) for _ in range(max(len(a), nb) - 1)]
        return {'kind': 'filter', 'what': 'lfilter', 'b': [rng.uniform(-1, 1) for _ in range(nb)], 'a': [float(v) for v in a],
                'x': [rng.uniform(-1, 1) for _ in range(rng.randint(1, 12))], 'z': z,
                'c': rng.choice([-1.0, 2.0, 10 ** (rng.uniform(-30, 30) / 20)])}
    return {'kind': 'filter', 'what': 'notch', 'fs': rng.choice(RATES), 'f': rng.choice([2000.0, 4000.0, 8000.0]),
            'q': rng.choice([1.33, 5.0]), 'level': float(10 ** rng.uniform(-3, 1)), 'seed': _seed(rng),
            'pol': rng.choice([1, -1]), 'n': rng.randint(4, 40)}


def search(tier, rng):
    """Called by the driver when a theorem about the regenerated definitions (or the correspondence) broke: look for a
    concrete input on which the IMPLEMENTATION violates the property."""
    found = []
    fast = [t for t in PLAN if t not in SLOW]
    for i in range(240 if tier == 'quick' else 2400):
        if i % 3 == 0:
            case = _rms_case(rng, rng.choice(['tone_rms', 'sam_rms']), rng.choice(['flat', 'interp', 'point'])) if i % 2 else \
                _int_case(rng, rng.choice(['tone_rms', 'sam_rms']))
        else:
            t = fast[i % len(fast)]
            case = _stim_case(rng, t, rng.choice(PLAN[t]))
        try:
            res = impl(case)
            msg = oracle(case, res)
        except Exception as e:          # behaviour the property does not allow
            msg = f'unexpected {type(e).__name__}: {e}'
        if msg:
            found.append((case, msg))
            if len(found) >= 3:
                break
    return found
