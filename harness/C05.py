"""C05 - epoch extraction returns exactly the requested samples, once, for any chunking.
Model: coq/Extract/Model.v (capture_epoch / extract_epochs); theorems: coq/Props/C05.v."""
import itertools
import numpy as np
from vlib import zlit, zlist, blit, listlit, optlit

PROP = 'C05'
UNEQUAL = 'epochs of different lengths complete at the same send'
KNOWN_KEY = 'unequal-durations-complete-in-one-send'
REQUIRES = ['Extract.Model', 'Extract.Spec']
RULE = ('drives the real extract_epochs coroutine send by send. (1) one request: every start lo in [-1, total] x length n in '
        '{0,1,2,4,5,9} x arrival call x look-back B in {0,3,4,9} over fixed chunkings (equal, ragged with empty and 1-sample chunks); '
        '(2) two requests (overlapping, back-to-back, nested, identical span, sharing a chunk) x arrival calls x one removal at every '
        'call; (3) seeded random schedules: up to 7 requests, random chunking, arrival anywhere from long before to beyond the '
        'look-back edge, removals before/at/after completion and of unknown keys, source_complete Event set/cleared per call '
        '(the caller touches its Event only on a change; is_set() after every send must equal what the caller did; fixed '
        'schedules with an Event passed unset, idle sends, later requests, Event set at send k = every send / never), '
        'fs in {1000.0, 195312.5}, prestim/poststim in {0, k/fs, (k+0.3)/fs}, epoch_size fixed or per-request duration, '
        '(3b) off-grid request times t0 = (k+f)/fs, f in {.4,.27,-.35,.1,-.2,..} x off-grid prestim (k+{.6,.3,.85,.15,.45})/fs x '
        'off-grid poststim and epoch_size, enumerated (non-tie combinations only) and seeded random, judged against '
        '[round((t0-prestim)*fs), +round((size+poststim+prestim)*fs)), '
        'duplicate (t0,key); 1-D and 2-channel, plain ndarray and PipelineData input. (4) fixed cases for the missed-start branch, '
        'stacking of empty/missed epochs, duplicates, unequal durations. (5) API-surface sweep: fs as float/int/np.float64 (1, 1000, '
        '44100, 48000, 195312.5), epoch_size None/float/np/0/0.0, buffer_size omitted/off-grid (B+-.4 with the request at and one '
        'before the look-back edge), empty_queue_cb None/lambda/falsy callable, removed_queue None/deque, prestim/poststim omitted/'
        'negative/off-grid, source_complete omitted/Event; info dicts with/without key, metadata, duration (duration present but '
        'epoch_size given), keys 0/""/False/tuple/huge int, t0 int/np.float64, a request 1e9 samples ahead; chunk dtype '
        'float64/float32/int16/int32, 1/2/3 channels, channel labels str/None/falsy+tuple, chunk metadata empty, PipelineData s0 '
        'offset -7/100, read-only chunks; always: the caller overwrites every request dict after the send that consumed it and every '
        'delivered block after receiving it, chunks must stay untouched, delivered dtype/ndim/labels/fs checked. (6) capture_epoch '
        'stand-alone: 8 send splittings (contiguous, late start, gap, overlap, empty) x start 0..9 x length {0,1,3,5}, plain and '
        'PipelineData, info with/without metadata, float epoch_s0, NumPy epoch_samples, fs None. Non-trivial: some epoch spans a chunk boundary, is '
        'captured from the look-back buffer, or a removal names a request of the schedule. Distinct = distinct case dicts.')
TRUSTED = ['harness/C05.py (schedule generators; computing lo = round((t0 - prestim)*fs), n = round((size + poststim + prestim)*fs), '
           'B = round(buffer_size*fs) with the float expressions of pipeline.py 743/816-818; mapping (t0, key) pairs to integers; '
           'canonicalisation of delivered arrays to integer rows; channel 1 is compared with channel 0 + 1000 in Python)',
           'Python generator semantics (send/StopIteration), dict insertion order, deque FIFO order',
           'np.concatenate / PipelineData.__getitem__ / concat as modelled by list append, py_slice and Model.stack_ok']
ASSUMPTIONS = ['PipelineData chunks carry s0 = number of samples sent before them (a continuous stream from sample 0); the extractor '
               'itself indexes by its own sample counter tlb, not by the chunk s0, while the delivered epoch s0 comes from the chunk s0',
               'buffer_size >= 0; n >= 0; all chunks of a stream carry the same metadata; the caller does not write into a chunk '
               'after sending it (pending captures and the look-back buffer hold views of it, by design)',
               'for PipelineData streams that do not start at sample 0 the delivered block s0 is compared after subtracting the offset',
               'theorem preconditions: distinct (t0,key) per schedule (duplicates raise ValueError by design), epochs that become '
               'complete at the same send equally long (they are stacked into one array; always true with epoch_size given; '
               'violated inputs are the known finding ' + KNOWN_KEY + '), each request visible within the look-back '
               '(lo >= start of the oldest buffered chunk at its arrival call; implied by lo >= max(0, samples_before_call - B)), '
               'no removal notice processed in an earlier call than its request',
               'auto_send=True (marked "not tested" in the source) is out of scope']
OFFS = 1000       # channel 1 = channel 0 + OFFS
CHUNK_MD = {'src': 'x'}


# --------------------------------------------------------------------------------------------
def _val(case, i):
    return (i + 1) if case.get('vals', 'idx') == 'idx' else ((i * 7 + 3) % 10)


def _fs(case):
    """the sampling rate object handed to the code: float, int or NumPy scalar"""
    t = case.get('fstype', 'float')
    return int(case['fs']) if t == 'int' else (np.float64(case['fs']) if t == 'np' else case['fs'])


def _key(k):
    """JSON has no tuples: a list stands for a tuple-valued key"""
    return tuple(_key(x) for x in k) if isinstance(k, list) else k


def _t0(case, q):
    """request time exactly as put into the info dict: float (default), int or NumPy scalar"""
    t0 = q[0] / _fs(case)
    kind = (q[3] if len(q) > 3 else {}).get('t0type', 'float')
    if kind == 'int':
        assert t0 == int(t0)
        return int(t0)
    return np.float64(t0) if kind == 'np' else t0


def _times(case):
    """prestim/poststim in seconds, exactly as they are handed to extract_epochs"""
    fs = _fs(case)

    def tv(spec):
        kind, k = spec[0], spec[1]
        if kind == 'zero':
            return 0
        if kind == 'grid':
            return k / fs
        if kind == 'frac':
            return (k + spec[2]) / fs  # off-grid by an arbitrary fraction of a sample
        return (k + 0.3) / fs          # off-grid, not a rounding tie
    return tv(case['pre']), tv(case['post'])


def _epoch_size(case):
    """the epoch_size argument: None, float, int or NumPy scalar"""
    if case['size'] is None:
        return None
    t = case.get('sizetype', 'float')
    if t == 'int':
        assert case['size'] == 0
        return 0
    v = case['size'] / _fs(case)
    return np.float64(v) if t == 'np' else v


def _has_dur(case, q):
    return q[2] is not None and (case['size'] is None or case.get('withdur', False))


def _effective(case, mode='code'):
    """Everything the integer model needs, computed with the code's own float expressions; epoch_size=0 (any falsy
    number) is a size, only None selects the per-request `duration` (repaired in 12e29f4)."""
    fs = _fs(case)
    pre, post = _times(case)
    B = 0 if case.get('bdef') else round((case['B'] / fs) * fs)
    keyids = {}

    def kid(t0, key):
        return keyids.setdefault((t0, _key(key)), len(keyids))
    feeds = []
    rid = 0
    use_dur = case['size'] is None
    for f in case['feeds']:
        reqs = []
        for q in f['reqs']:
            t0 = _t0(case, q)
            if use_dur:
                size = (q[2] / fs) if _has_dur(case, q) else None      # None: the code raises KeyError('duration')
            else:
                size = _epoch_size(case)
            n = 0 if size is None else round((size + post + pre) * fs)
            lo = round((t0 - pre) * fs)
            nomd = (q[3] if len(q) > 3 else {}).get('nomd', False)
            reqs.append({'key': kid(t0, q[1]), 'lo': int(lo), 'n': int(n), 'rid': -1 if nomd else rid})
            rid += 1
        # removals are looked up after the requests of the same call so that ids follow first appearance
        rems = [kid(r[0] / fs, r[1]) for r in f['rems']]
        feeds.append({'n': f['n'], 'reqs': reqs, 'rems': rems, 'cpl': bool(f['cpl']) if case['sc'] else True})
    return int(B), feeds, keyids


def _labels(case, nch):
    t = case.get('chlabels', 'str')
    if t == 'none':
        return None
    if t == 'mixed':
        return [0, '', ('a', 1)][:nch]      # falsy, empty and tuple-valued labels
    return ['a', 'b', 'c'][:nch]


def _impl_capture(case):
    """capture_epoch used stand-alone"""
    import logging
    from psiaudio.pipeline import capture_epoch, PipelineData
    logging.getLogger('psiaudio.pipeline').setLevel(logging.ERROR)
    annot = case['kind'][0] == 'P'
    dt = np.dtype(case.get('dtype', 'float64'))
    out = []
    info = {} if case.get('nomd') else {'metadata': {'rid': 7}, 'x': 1}
    s0 = float(case['lo']) if case.get('s0float') else case['lo']
    ns = np.int64(case['n']) if case.get('nnp') else case['n']
    kw = {} if case.get('fsnone') else {'fs': 1000.0}
    cap = capture_epoch(s0, ns, info, out.append, **kw)
    obs, sends, notes, given = [], [], [], []
    for slb, m in case['sends']:
        base = np.array([_val(case, i) for i in range(slb, slb + m)], dtype=dt)
        sends.append([slb, [int(v) for v in base]])
        data = PipelineData(base, fs=1000.0, s0=slb, metadata=dict(CHUNK_MD)) if annot else base
        given.append((data, np.array(data, copy=True)))
        n_out = len(out)
        stopped = False
        try:
            cap.send((slb, data))
        except StopIteration:
            stopped = True
        new = out[n_out:]
        if len(new) > 1 or (bool(new) != stopped):
            notes.append('target calls and StopIteration do not go together')
        if not new:
            obs.append(['none'])
            continue
        arr = new[0]
        if isinstance(arr, PipelineData) and arr.shape == (0,) and 'src' not in arr.metadata:
            obs.append(['miss'])
            if arr.metadata != info.get('metadata', {}) or arr.s0 != case['lo']:
                notes.append(f'missed epoch carries metadata {arr.metadata}, s0 {arr.s0}')
        else:
            obs.append(['data', [int(v) for v in np.asarray(arr)]])
            if arr.dtype != dt:
                notes.append(f'dtype {arr.dtype} delivered for {dt} input')
            if annot:
                want = dict(CHUNK_MD, **info.get('metadata', {}), **{k: v for k, v in info.items() if k != 'metadata'})
                if not isinstance(arr, PipelineData) or arr.metadata != want or arr.s0 != case['lo']:
                    notes.append(f'annotated epoch carries {getattr(arr, "metadata", None)}, s0 {getattr(arr, "s0", None)}')
            # aliasing: the caller may overwrite what it received; that must not reach the chunks it had sent
            np.asarray(arr)[...] = dt.type(77)
            if any(not np.array_equal(np.asarray(g), c) for g, c in given):
                notes.append('the delivered epoch shares memory with a chunk of the caller')
        break
    if info != ({} if case.get('nomd') else {'metadata': {'rid': 7}, 'x': 1}):
        notes.append('capture_epoch modified the info dict of its caller')
    return {'sends': sends, 'obs': obs, 'notes': notes}


def impl(case):
    if case.get('t') == 'cap':
        return _impl_capture(case)
    import logging
    from collections import deque
    from threading import Event
    from psiaudio.pipeline import extract_epochs, PipelineData
    logging.getLogger('psiaudio.pipeline').setLevel(logging.ERROR)

    fs = _fs(case)
    pre, post = _times(case)
    B, eff, _ = _effective(case)
    annot, multi = case['kind'][0] == 'P', case['kind'][1] == '2'
    nch = case.get('nch', 2) if multi else 1
    dt = np.dtype(case.get('dtype', 'float64'))
    s0off = case.get('s0off', 0)
    chunk_md = dict(CHUNK_MD) if case.get('chunk_md', True) else {}
    labels = _labels(case, nch) if multi else None
    q, out, fired = deque(), [], []
    ev = Event() if case['sc'] else None
    kw = {}
    if not case.get('bdef'):
        kw['buffer_size'] = case['B'] / fs
    if case.get('cb', True) == 'falsy':
        class FalsyCallback:                  # a callable whose truth value is False: only None means "no callback"
            def __call__(self):
                fired.append(len(out))

            def __bool__(self):
                return False
        kw['empty_queue_cb'] = FalsyCallback()
    elif case.get('cb', True):
        kw['empty_queue_cb'] = lambda: fired.append(len(out))      # how many batches the target had received by then
    rq = None
    if case.get('rq', True):
        rq = kw['removed_queue'] = deque()
    if pre != 0 or not case.get('predef'):
        kw['prestim_time'] = pre
    if post != 0 or not case.get('predef'):
        kw['poststim_time'] = post
    if ev is not None or not case.get('predef'):
        kw['source_complete'] = ev
    ex = extract_epochs(fs=fs, queue=q, epoch_size=_epoch_size(case), target=out.append, **kw)
    pos, rid, obs, raw, notes = 0, 0, [], [], []
    caller_set = False
    handed, chunks_given = [], []
    if ev is not None and ev.is_set():
        notes.append('source_complete Event passed unset is set after creating the extractor')
    for f, e in zip(case['feeds'], eff):
        for rq_ in f['reqs']:
            opts = rq_[3] if len(rq_) > 3 else {}
            info = {'t0': _t0(case, rq_)}
            if not opts.get('nomd'):
                info['metadata'] = {'rid': rid}
            if rq_[1] is not None:
                info['key'] = _key(rq_[1])
            if _has_dur(case, rq_):
                info['duration'] = rq_[2] / fs
            q.append(info)
            handed.append(info)
            rid += 1
        for r in f['rems']:
            info = {'t0': r[0] / fs}
            if r[1] is not None:
                info['key'] = _key(r[1])
            rq.append(info)
        if ev is not None and bool(f['cpl']) != caller_set:
            # the caller touches its Event only when it changes its mind: an Event passed unset stays
            # untouched until the caller sets it
            (ev.set if f['cpl'] else ev.clear)()
            caller_set = bool(f['cpl'])
        base = np.array([_val(case, i) for i in range(pos, pos + f['n'])], dtype=dt)
        e['chunk'] = [int(v) for v in base]
        data = np.stack([base + dt.type(OFFS * c) for c in range(nch)]) if multi else base
        if annot:
            data = PipelineData(data, fs=fs, s0=pos + s0off, channel=labels, metadata=dict(chunk_md))
        if case.get('ro'):
            data.setflags(write=False)
        chunks_given.append((data, np.array(data, copy=True)))
        n_out, n_fired = len(out), len(fired)
        try:
            ex.send(data)
        except (ValueError, IndexError, UnboundLocalError) as err:
            msg = str(err)
            if isinstance(err, ValueError) and msg.startswith('Duplicate epochs'):
                obs.append(['E', 'dup'])
            elif isinstance(err, IndexError) and 'list index out of range' in msg:
                raise          # prior_samples emptied: not a behaviour of the model
            elif 'read-only' in msg:
                raise          # the extractor wrote into an array of its caller
            else:
                obs.append(['E', 'stack'])
            raw.append(None)
            break
        pos += f['n']
        # aliasing: whatever the caller does to the request dicts it has handed over must not reach the epochs
        for info in handed:
            info['t0'] = -1.0
            info['key'] = 'overwritten-by-caller'
            info['duration'] = 99.0
        handed = []
        if ev is not None and ev.is_set() != caller_set:
            notes.append(f'source_complete.is_set() is {ev.is_set()} after a send although the caller left it '
                         f'{"set" if caller_set else "unset"}')
        new = out[n_out:]
        if len(new) > 1:
            notes.append('target called more than once in one send')
        cb = len(fired) - n_fired
        if cb > 1:
            notes.append('empty_queue_cb called more than once in one send')
        if cb and new and fired[-1] == n_out:
            notes.append('empty_queue_cb fired BEFORE the epochs completed by the same chunk were handed to the target '
                         '(an observer counting deliveries inside the callback sees an unfinished acquisition)')
        rows, ann, mds = [], None, None
        if new:
            arr = new[0]
            a = np.asarray(arr)
            for j in range(a.shape[0]):
                row0 = a[j] if a.ndim == 2 else a[j, 0]
                rows.append([int(v) for v in row0])
                if a.ndim == 3 and a.shape[1] == nch:
                    for c in range(1, nch):
                        if not np.array_equal(a[j, c], a[j, 0] + dt.type(OFFS * c)):
                            notes.append(f'channel {c} of a delivered epoch is not channel 0 of the same samples')
                if not np.array_equal(row0, np.round(row0)):
                    notes.append('non-integer sample delivered')
            if a.ndim != (3 if (multi or isinstance(arr, PipelineData)) else 2):
                notes.append(f'delivered block has {a.ndim} dimensions')
            if isinstance(arr, PipelineData):
                mds = [dict(m) for m in arr.metadata]
                allmissed = all('t0' not in m for m in mds)
                ann = [int(arr.s0) - (0 if (allmissed or not annot) else s0off),
                       [[int(m.get('rid', -1)), 't0' not in m] for m in mds]]
                if multi and annot and a.shape[1] == nch and list(arr.channel) != (labels or [None] * nch):
                    notes.append(f'channel labels {arr.channel}')
                if arr.fs != fs:
                    notes.append('fs of delivered epochs differs')
                if not allmissed and a.dtype != dt:
                    notes.append(f'dtype {a.dtype} delivered for {dt} input')
            elif a.dtype != dt:
                notes.append(f'dtype {a.dtype} delivered for {dt} input')
            # aliasing: the caller may do what it likes with a delivered block
            a[...] = dt.type(77)
        obs.append(['O', rows, ann, bool(cb)])
        raw.append(mds)
    for given, copy in chunks_given:
        if not np.array_equal(np.asarray(given), copy):
            notes.append('a chunk handed to the extractor was modified (by the extractor, or through a delivered block '
                         'that shares its memory)')
            break
    return {'B': B, 'eff': eff[:len(obs)], 'obs': obs, 'mds': raw, 'notes': notes,
            'pre': pre, 'post': post}


# --------------------------------------------------------------------------------------------
def _feedlit(e):
    reqs = listlit([f"mkreq {zlit(r['key'])} {zlit(r['lo'])} {zlit(r['n'])} {zlit(r['rid'])}" for r in e['reqs']])
    return f"mkfeed {zlist(e['chunk'])} {zlist(e['rems'])} {reqs} {blit(e['cpl'])}"


def _obslit(o):
    if o[0] == 'E':
        return 'ObsErr ' + ('EDuplicate' if o[1] == 'dup' else 'EStack')
    rows = listlit([zlist(r) for r in o[1]])
    if o[2] is None:
        ann = 'None'
    else:
        ann = '(Some (%s, %s))' % (zlit(o[2][0]), listlit([f'({zlit(a)}, {blit(b)})' for a, b in o[2][1]]))
    return f'ObsOut {rows} {ann} {blit(o[3])}'


def term(case, res):
    if res['notes']:
        return 'false'
    if case.get('t') == 'cap':
        sends = listlit([f'({zlit(s)}, {zlist(d)})' for s, d in res['sends']])
        got = listlit([{'none': 'CNone', 'miss': 'CMiss'}.get(o[0]) or f'CData {zlist(o[1])}' for o in res['obs']])
        return f"check_capture {zlit(case['lo'])} {zlit(case['n'])} {sends} {got}"
    k = f"(mkkind {blit(case['kind'][0] == 'P')} {blit(case['kind'][1] == '2')})"
    feeds = listlit([_feedlit(e) for e in res['eff']])
    got = listlit([_obslit(o) for o in res['obs']])
    # model == implementation, and (a test of the refinement theorem, not its proof) model == abstract spec
    chk = 'check_run' if case.get('cb', True) else 'check_run_nocb'      # empty_queue_cb=None: never armed
    return f"({chk} {zlit(res['B'])} {k} {feeds} {got}) && (check_spec {zlit(res['B'])} {k} {feeds})"


# --------------------------------------------------------------------------------------------
def _analyse(case, res=None):
    """Schedule facts from the case alone (chunk sizes, requests in samples as the PROPERTY defines them):
    preconditions of the property and the fate of every request.  Mirrors the property text, not the code."""
    B, eff, keyids = _effective(case, 'prop')
    ends, kept, T = [], [], 0
    reqs, seen_keys = [], set()
    pre_ok, why = True, None
    arrival = {}
    for a, e in enumerate(eff):
        kept.append((T, e['n']))
        P = kept[0][0]
        for r in e['reqs']:
            r = dict(r, a=a)
            if r['key'] in seen_keys:
                pre_ok, why = False, 'duplicate (t0,key)'
            seen_keys.add(r['key'])
            arrival[r['key']] = a
            if r['lo'] < P:
                pre_ok, why = False, 'request beyond the look-back'
            if r['n'] < 0:
                pre_ok, why = False, 'negative length'
            reqs.append(r)
        T += e['n']
        ends.append(T)
        while kept and kept[0][0] + kept[0][1] < T - B:
            kept.pop(0)
    for j, e in enumerate(eff):
        for k in e['rems']:
            if k in arrival and arrival[k] > j:
                pre_ok, why = False, 'removal processed before its request was made visible'
    for r in reqs:
        d = next((f for f in range(r['a'], len(eff)) if ends[f] >= r['lo'] + r['n']), None)
        rem = [j for j, e in enumerate(eff) if r['key'] in e['rems'] and j >= r['a']]
        r['d'] = d
        r['removed'] = any(d is None or j <= d for j in rem)
        r['first_rem'] = min(rem) if rem else None
    # epochs that become complete at the same send are stacked into one array: they must be equally long
    # (Spec.lengths_ok).  Recorded separately: see KNOWN_KEY.
    bysend = {}
    for r in reqs:
        if r['d'] is not None and not r['removed']:
            bysend.setdefault(r['d'], set()).add(r['n'])
    if pre_ok and any(len(v) > 1 for v in bysend.values()):
        pre_ok, why = False, UNEQUAL
    return pre_ok, why, reqs, ends


def _oracle_capture(case, res):
    if res['notes']:
        return '; '.join(res['notes'])
    lo, n = case['lo'], case['n']
    sends = case['sends']
    contiguous = all(sends[i][0] + sends[i][1] == sends[i + 1][0] for i in range(len(sends) - 1))
    if not sends or not contiguous or sends[0][0] > lo or n < 0:
        return None
    datas = [o for o in res['obs'] if o[0] != 'none']
    end = sends[-1][0] + sends[-1][1]
    want = [_val(case, i) for i in range(lo, lo + n)] if lo + n <= end else None
    if want is None:
        return None if not datas else f'capture delivered {datas} before its last sample arrived'
    if datas != [['data', want]]:
        return f'stand-alone capture of [{lo},{lo + n}) delivered {datas}, expected once {want}'
    return None


def oracle(case, res):
    if case.get('t') == 'cap':
        return _oracle_capture(case, res)
    if res['notes']:
        return '; '.join(res['notes'])
    pre_ok, why, reqs, ends = _analyse(case, res)
    if why == UNEQUAL:
        # all other preconditions hold; the extractor raises instead of delivering (known finding)
        f = next((i for i, o in enumerate(res['obs']) if o[0] == 'E'), None)
        if f is None:
            return None
        lens = sorted({r['n'] for r in reqs if r['d'] == f and not r['removed']})
        return (f'send #{f} raised: epochs of different lengths {lens} (per-request duration) become complete with the same '
                f'chunk and cannot be stacked; nothing is delivered and the extractor is dead afterwards')
    if not pre_ok:
        return None      # outside the property's preconditions: compared with the model only
    stream = [_val(case, i) for i in range(ends[-1] if ends else 0)]
    annot = case['kind'][0] == 'P'
    _, _, keyids = _effective(case, 'prop')
    bykey = {r['key']: r for r in reqs}
    delivered_rows, count = [], {}
    fire_at = []
    for f, o in enumerate(res['obs']):
        if o[0] == 'E':
            return f'send #{f} raised ({o[1]}) on a schedule that satisfies the preconditions'
        rows, ann, cb = o[1], o[2], o[3]
        if cb:
            fire_at.append(f)
        if annot and rows and ann is None:
            return f'send #{f}: annotated input produced a plain array'
        for j, row in enumerate(rows):
            delivered_rows.append(row)
            if ann is not None:
                md = res['mds'][f][j]
                kid = keyids.get((md.get('t0'), md.get('key'))) if 't0' in md else None
                if kid is None or kid not in bykey:
                    return f'send #{f}: delivered an epoch flagged as missed / not carrying the t0 and key of any request ({md})'
                r = bykey[kid]
                count[kid] = count.get(kid, 0) + 1
                want = stream[r['lo']:r['lo'] + r['n']]
                if row != want:
                    return (f'send #{f}: epoch with t0/key of request {kid} (lo={r["lo"]}, n={r["n"]}) holds {row}, '
                            f'expected stream[{r["lo"]}:{r["lo"] + r["n"]}] = {want}')
                msg = _check_md(case, res, r, md)
                if msg:
                    return f'send #{f}: {msg}'
                if j == 0 and ann[0] != r['lo']:
                    return f'send #{f}: s0 of the delivered block is {ann[0]} past the stream start, first epoch starts at {r["lo"]}'
    # exactly once / never
    want_rows = []
    for r in reqs:
        exp = 0 if (r['removed'] or r['d'] is None) else 1
        if exp:
            want_rows.append(stream[r['lo']:r['lo'] + r['n']])
        if annot:
            got = count.get(r['key'], 0)
            if got != exp:
                return (f'request {r["key"]} (lo={r["lo"]}, n={r["n"]}, visible at send #{r["a"]}, complete at send #{r["d"]}, '
                        f'first removal at send #{r["first_rem"]}) was delivered {got} times, expected {exp}')
    if sorted(delivered_rows) != sorted(want_rows):
        return f'delivered epochs {delivered_rows}, expected exactly (any order) {want_rows}'
    if not case.get('cb', True):
        return None
    # all-done callback: at most once; exactly at the first send where the source is complete and nothing is pending
    _, eff, _ = _effective(case, 'prop')
    first = None
    for f in range(len(res['obs'])):
        arrived = [r for r in reqs if r['a'] <= f]
        resolved = all((r['d'] is not None and r['d'] <= f and not r['removed']) or
                       (r['first_rem'] is not None and r['first_rem'] <= f and r['removed']) for r in arrived)
        if eff[f]['cpl'] and resolved:
            first = f
            break
    if len(fire_at) > 1:
        return f'empty_queue_cb fired {len(fire_at)} times (sends {fire_at})'
    if fire_at != ([] if first is None else [first]):
        return (f'empty_queue_cb fired at sends {fire_at}; the first send with the source complete and nothing pending is '
                f'{first}')
    return None


def _check_md(case, res, r, md):
    fs = _fs(case)
    q, i, idx = None, 0, None
    for f in case['feeds']:
        for x in f['reqs']:
            if _effective_key_match(case, x, r):
                q, idx = x, i
            i += 1
    opts = q[3] if len(q) > 3 else {}
    want = dict(CHUNK_MD) if case.get('chunk_md', True) else {}
    want.update({'t0': _t0(case, q), 'prestim_time': res['pre'], 'poststim_time': res['post']})
    if not opts.get('nomd'):
        want['rid'] = idx
    if q[1] is not None:
        want['key'] = _key(q[1])
    if _has_dur(case, q):
        want['duration'] = q[2] / fs
    want['epoch_size'] = (q[2] / fs) if case['size'] is None else _epoch_size(case)
    if md != want:
        return f'metadata {md} != metadata of its request {want}'
    return None


def _effective_key_match(case, q, r):
    _, _, keyids = _effective(case, 'prop')
    return keyids.get((_t0(case, q), _key(q[1]))) == r['key']


def nontrivial(case, res):
    if case.get('t') == 'cap':
        return len(case['sends']) > 1
    pre_ok, why, reqs, ends = _analyse(case, res)
    starts = [0] + ends[:-1]
    for r in reqs:
        if r['n'] > 0 and any(r['lo'] < e < r['lo'] + r['n'] for e in ends):
            return True
        if r['a'] < len(starts) and r['lo'] < starts[r['a']]:
            return True
        if r['first_rem'] is not None:
            return True
    return False


def key(case, res):
    if case.get('t') == 'cap':
        return None
    try:
        pre_ok, why, reqs, ends = _analyse(case, res)
    except Exception:
        return None
    return KNOWN_KEY if why == UNEQUAL else None


def distribution(cases, results):
    d = {'kind': {}, 'fs': {}, 'precondition': {}, 'errors': {}, 'requests': 0, 'removals': 0, 'lookback_captures': 0,
         'boundary_spanning': 0, 'missed_epochs': 0, 'delivered_epochs': 0, 'cb_fired': 0}
    for c, r in zip(cases, results):
        if not isinstance(r, dict) or 'obs' not in r or c.get('t') == 'cap':
            d['capture_standalone'] = d.get('capture_standalone', 0) + int(c.get('t') == 'cap')
            continue
        for opt in ('fstype', 'dtype', 'nch', 's0off', 'chlabels', 'ro', 'cb', 'rq', 'bdef', 'predef', 'sizetype', 'withdur'):
            if opt in c:
                d.setdefault('options', {}).setdefault(f'{opt}={c[opt]}', 0)
                d['options'][f'{opt}={c[opt]}'] += 1
        d['kind'][c['kind']] = d['kind'].get(c['kind'], 0) + 1
        d['fs'][str(c['fs'])] = d['fs'].get(str(c['fs']), 0) + 1
        pre_ok, why, reqs, ends = _analyse(c, r)
        w = 'satisfied' if pre_ok else why
        d['precondition'][w] = d['precondition'].get(w, 0) + 1
        starts = [0] + ends[:-1]
        d['requests'] += len(reqs)
        d['removals'] += sum(len(f['rems']) for f in c['feeds'])
        d['lookback_captures'] += sum(1 for q in reqs if q['lo'] < starts[q['a']])
        d['boundary_spanning'] += sum(1 for q in reqs if any(q['lo'] < e < q['lo'] + q['n'] for e in ends))
        for o in r['obs']:
            if o[0] == 'E':
                d['errors'][o[1]] = d['errors'].get(o[1], 0) + 1
            else:
                d['delivered_epochs'] += len(o[1])
                d['cb_fired'] += int(o[3])
                if o[2] is not None:
                    d['missed_epochs'] += sum(1 for _, m in o[2][1] if m)
    return d


# --------------------------------------------------------------------------------------------
def _case(kind, fs, B, feeds, size=None, pre=('zero', 0), post=('zero', 0), sc=False, vals='idx', zero_size=False, **opts):
    if size == 0 and not zero_size:
        size = None      # zero-length epochs through per-request `duration` (third entry); epoch_size=0 itself: zero_size=True
    c = {'kind': kind, 'fs': fs, 'B': B, 'size': size, 'pre': list(pre), 'post': list(post), 'sc': sc,
         'vals': vals, 'feeds': feeds}
    c.update(opts)
    return c


def _feeds(chunks, reqs_at=None, rems_at=None, cpl=None):
    reqs_at, rems_at = reqs_at or {}, rems_at or {}
    return [{'n': n, 'reqs': reqs_at.get(i, []), 'rems': rems_at.get(i, []),
             'cpl': True if cpl is None else cpl[i]} for i, n in enumerate(chunks)]


KINDS = ['N1', 'N2', 'P1', 'P2']
CHUNKINGS = [[4, 4, 4, 4], [1, 3, 0, 5, 3, 2], [6, 1, 5, 2], [2, 2, 2, 2, 2, 2, 2]]


def _fixed():
    """off-precondition behaviours the model must reproduce as well (missed start, stacking, duplicates, lengths)"""
    E = [5, 5, 5, 5]
    for kind in KINDS:
        R = lambda lo, n, key=None: [lo, key, n]
        yield _case(kind, 1000.0, 0, _feeds(E, {2: [R(2, 3)]}))                       # missed alone
        yield _case(kind, 1000.0, 0, _feeds(E, {2: [R(2, 3), R(1, 3)]}))              # two missed
        yield _case(kind, 1000.0, 0, _feeds(E, {2: [R(2, 3), R(6, 3)]}))              # missed first + data
        yield _case(kind, 1000.0, 0, _feeds(E, {2: [R(6, 3), R(2, 3)]}))              # data + missed
        yield _case(kind, 1000.0, 0, _feeds(E, {2: [R(2, 0), R(6, 0)]}))              # missed + zero-length
        yield _case(kind, 1000.0, 0, _feeds(E, {2: [R(6, 0), R(2, 0)]}))              # zero-length + missed
        yield _case(kind, 1000.0, 0, _feeds(E, {2: [R(6, 0), R(2, 0), R(7, 0)]}))
        yield _case(kind, 1000.0, 0, _feeds(E, {0: [R(-1, 3)]}))                      # start before the stream
        yield _case(kind, 1000.0, 0, _feeds(E, {0: [R(2, 0)], 1: [R(10, 0)], 2: [R(16, 0)]}))   # zero-length, at chunk edges
        yield _case(kind, 1000.0, 0, _feeds(E, {0: [R(1, 3), R(2, 4)]}))              # unequal lengths in one call
        yield _case(kind, 1000.0, 0, _feeds(E, {0: [R(1, 3), R(8, 4)]}))              # unequal lengths, different calls
        yield _case(kind, 1000.0, 0, _feeds(E, {0: [R(2, 10, 1), R(2, 10, 1)]}))      # duplicate while pending
        yield _case(kind, 1000.0, 0, _feeds(E, {0: [R(2, 10, 1)], 1: [R(2, 2, 1)]}))  # duplicate that completes at once
        yield _case(kind, 1000.0, 0, _feeds(E, {0: [R(2, 10, 1)], 1: [R(2, 12, 1)]}))
        yield _case(kind, 1000.0, 0, _feeds(E, {0: [R(2, 2, 1)], 1: [R(2, 2, 1)]}))   # same key again after delivery
        # removal notice one call before its request: the request is captured (outside the precondition)
        yield _case(kind, 1000.0, 0, _feeds(E, {1: [R(7, 6, 1)]}, {0: [[7, 1]]}))
        # removal twice in one call, removal of an unknown key, removal in the call of arrival
        yield _case(kind, 1000.0, 0, _feeds(E, {0: [R(7, 6, 1)]}, {1: [[7, 1], [7, 1]], 2: [[9, 9]]}))
        yield _case(kind, 1000.0, 0, _feeds(E, {1: [R(7, 6, 1), R(8, 6, 2)]}, {1: [[7, 1], [7, 1]]}))


def _single(tier):
    quick = tier == 'quick'
    for ci, chunks in enumerate(CHUNKINGS):
        total = sum(chunks)
        for B in ([0, 3, 4, 9] if not quick else [0, 4]):
            for n in [0, 1, 2, 4, 5, 9]:
                for lo in range(-1, total + 1):
                    for a in range(len(chunks)):
                        if quick and (lo + n + a + ci) % 2:
                            continue
                        kind = KINDS[(lo + n + a + B) % 4]
                        yield _case(kind, 1000.0, B, _feeds(chunks, {a: [[lo, None, n]]}), size=n)


def _pairs(tier, rng):
    quick = tier == 'quick'
    chunks = [3, 4, 1, 4, 3]
    shapes = [((2, 6), (5, 6)), ((1, 3), (4, 3)), ((2, 9), (4, 2)), ((3, 4), (3, 4)), ((3, 1), (3, 3)), ((0, 7), (7, 7))]
    for (l1, n1), (l2, n2) in shapes:
        for a1 in range(0, 3):
            for a2 in range(a1, 4):
                for rj in range(0, len(chunks)):
                    for which in (0, 1):
                        if quick and (a1 + a2 + rj + which + l1) % 3:
                            continue
                        reqs = {}
                        reqs.setdefault(a1, []).append([l1, 'a', n1])
                        reqs.setdefault(a2, []).append([l2, 'b', n2])
                        rem = [[l1, 'a'], [l2, 'b']][which]
                        kind = KINDS[(a1 + a2 + rj) % 4]
                        yield _case(kind, 1000.0, 7, _feeds(chunks, reqs, {rj: [rem]}),
                                    size=(n1 if n1 == n2 else None))


def _random(tier, rng):
    quick = tier == 'quick'
    for it in range(900 if quick else 12000):
        fs = rng.choice([1000.0, 195312.5])
        kind = rng.choice(KINDS)
        nchunks = rng.randint(1, 8)
        chunks = [rng.choice([0, 1, 2, 3, 4, 5, 6, 8]) for _ in range(nchunks)]
        ends = list(itertools.accumulate(chunks))
        starts = [0] + ends[:-1]
        total = ends[-1]
        B = rng.choice([0, 0, 1, 3, 5, 8, 20])
        pre = rng.choice([('zero', 0), ('grid', rng.randint(0, 3)), ('off', rng.randint(0, 3))])
        post = rng.choice([('zero', 0), ('grid', rng.randint(0, 3)), ('off', rng.randint(0, 2))])
        uniform = rng.random() < 0.85
        size = rng.choice([0, 1, 2, 3, 5, 7, 11]) if uniform else None
        udur = None
        if uniform and (size == 0 or rng.random() < 0.2):
            size, udur = None, size      # epoch_size=None with one common `duration` (epoch_size=0 is falsy in the code)
        wild = rng.random() < 0.15       # allow arrivals beyond the look-back / duplicates / early removals
        reqs_at, rems_at = {}, {}
        nreq = rng.randint(0, 7)
        keys = []
        for qi in range(nreq):
            lo = rng.choice([rng.randint(0, max(0, total)), rng.choice(ends + starts),
                             rng.choice(ends + starts) + rng.choice([-1, 1])])
            lo = max(0 if not wild else -2, lo)
            prek = pre[1] if pre[0] != 'zero' else 0
            t0k = lo + prek          # grid: exact; off-grid pre = (prek + .3)/fs: (t0 - pre)*fs = lo - .3 rounds to lo
            # arrival: any call whose look-back still holds lo (or any call when wild)
            cand = []
            kept, T = [], 0
            for a, n in enumerate(chunks):
                kept.append((T, n))
                if kept[0][0] <= lo or wild:
                    cand.append(a)
                T += n
                while kept and kept[0][0] + kept[0][1] < T - B:
                    kept.pop(0)
            if not cand:
                continue
            # prefer late arrivals (they exercise the replay) half of the time
            a = rng.choice(cand) if rng.random() < 0.5 else cand[-1 if rng.random() < 0.5 else 0]
            key = rng.choice([None, 'k%d' % qi, 'k%d' % qi]) if not (wild and keys and rng.random() < 0.3) else rng.choice(keys)[1]
            dur = rng.choice([0, 1, 2, 3, 5, 7]) if udur is None else udur
            if wild and keys and rng.random() < 0.2:
                t0k = rng.choice(keys)[0]
            reqs_at.setdefault(a, []).append([t0k, key, dur])
            keys.append((t0k, key, a))
            # removal?
            u = rng.random()
            if u < 0.35:
                j = rng.randint(a if not wild else 0, nchunks - 1)
                rems_at.setdefault(j, []).append([t0k, key])
                if rng.random() < 0.15:
                    rems_at.setdefault(rng.randint(j, nchunks - 1), []).append([t0k, key])
        if rng.random() < 0.15:
            rems_at.setdefault(rng.randint(0, nchunks - 1), []).append([rng.randint(0, 30), 'zz'])
        sc = rng.random() < 0.5
        cpl = None
        if sc:
            k0 = rng.randint(0, nchunks)
            cpl = [(i >= k0) if rng.random() < 0.9 else (rng.random() < 0.5) for i in range(nchunks)]
        yield _case(kind, fs, B, _feeds(chunks, reqs_at, rems_at, cpl), size=size, pre=pre, post=post, sc=sc,
                    vals=rng.choice(['idx', 'idx', 'mod']))


def _nontie(x):
    """x (in samples) is safely away from a rounding tie"""
    return abs((x % 1.0) - 0.5) > 0.08


def _lo_n(fs, t0k, pre, post, sizek):
    """start and length exactly as pipeline.py 816-818 computes them (pre/post specs as in the case dict)"""
    c = {'fs': fs, 'pre': list(pre), 'post': list(post)}
    p, q = _times(c)
    return round((t0k / fs - p) * fs), round((sizek / fs + q + p) * fs)


def _offgrid(tier, rng):
    """request times t0 that are NOT multiples of 1/fs, combined with off-grid prestim/poststim/size: the start
    must be round((t0 - prestim)*fs) of the difference, not a difference of separately rounded terms, and the
    length round((size + poststim + prestim)*fs) of the sum."""
    quick = tier == 'quick'
    chunks = [4, 4, 4, 4, 4, 4]
    T0F = [0.4, 0.27, -0.35, 0.1, -0.2]
    PRE = [(0, 0.6), (1, 0.3), (2, 0.85), (0, 0.15), (1, 0.45)]
    POST = [('zero', 0), ('frac', 1, 0.3), ('frac', 0, 0.7)]
    i = 0
    for fs in [1000.0, 195312.5]:
        for ft in T0F:
            for pk, fp in PRE:
                for post in POST:
                    for sizek in [5, 5.4]:
                        pre = ('frac', pk, fp)
                        fq = post[2] if post[0] == 'frac' else 0.0
                        if not (_nontie(ft - fp) and _nontie(sizek + fq + fp)):
                            continue
                        for base in ([4, 7] if quick else [3, 4, 7, 8, 11]):
                            i += 1
                            t0k = base + pk + ft
                            lo, n = _lo_n(fs, t0k, pre, post, sizek)
                            a = 0 if i % 3 else 1           # at send #1 the start may already lie in the look-back
                            B = 4
                            if a == 1 and lo < 0:
                                a = 0
                            feeds = _feeds(chunks, {a: [[t0k, None, sizek]]})
                            yield _case(KINDS[i % 4], fs, B, feeds, size=sizek, pre=pre, post=post)
    # seeded random: several off-grid requests, per-request off-grid durations, removals
    for it in range(250 if quick else 4000):
        fs = rng.choice([1000.0, 195312.5])
        nchunks = rng.randint(2, 7)
        chunks = [rng.choice([1, 2, 3, 4, 5, 6, 8]) for _ in range(nchunks)]
        ends = list(itertools.accumulate(chunks))
        total = ends[-1]
        B = rng.choice([0, 3, 5, 8])
        pre = ('frac', rng.randint(0, 3), rng.choice([0.6, 0.3, 0.85, 0.15, 0.45, 0.72]))
        post = rng.choice([('zero', 0), ('frac', rng.randint(0, 2), rng.choice([0.3, 0.7, 0.55, 0.12]))])
        fq = post[2] if post[0] == 'frac' else 0.0
        sizek = rng.choice([2, 3, 5, 7]) + rng.choice([0, 0.4, 0.27, -0.35])
        if not _nontie(sizek + fq + pre[2]):
            continue
        reqs_at, rems_at = {}, {}
        for qi in range(rng.randint(1, 5)):
            ft = rng.choice(T0F + [0.33, -0.41, 0.0])
            if not _nontie(ft - pre[2]):
                continue
            t0k = rng.randint(0, total) + pre[1] + ft
            lo, n = _lo_n(fs, t0k, pre, post, sizek)
            if lo < 0:
                continue
            cand, kept, T = [], [], 0
            for a, m in enumerate(chunks):
                kept.append((T, m))
                if kept[0][0] <= lo:
                    cand.append(a)
                T += m
                while kept and kept[0][0] + kept[0][1] < T - B:
                    kept.pop(0)
            if not cand:
                continue
            a = rng.choice(cand) if rng.random() < 0.5 else cand[-1]
            key = 'k%d' % qi
            reqs_at.setdefault(a, []).append([t0k, key, sizek])
            if rng.random() < 0.25:
                rems_at.setdefault(rng.randint(a, nchunks - 1), []).append([t0k, key])
        yield _case(rng.choice(KINDS), fs, B, _feeds(chunks, reqs_at, rems_at), size=sizek, pre=pre, post=post,
                    vals=rng.choice(['idx', 'mod']))


def _source_complete(tier):
    """caller-supplied source_complete Event passed UNSET: sends with nothing pending, requests arriving later,
    the caller sets the Event at send #k (k = every send, and never): the callback may not fire before that."""
    chunks = [4, 4, 4, 4, 4, 4, 4]
    n = len(chunks)
    layouts = [
        {},                                                     # never any request
        {2: [[9, 'a', 3]]},                                     # idle sends first, one request later
        {0: [[1, 'a', 3]], 3: [[13, 'b', 3]]},                  # delivered, idle, then another request
        {1: [[5, 'a', 3]], 4: [[14, 'b', 3], [18, 'c', 3]]},    # idle, burst, idle, burst spanning chunks
        {2: [[6, 'a', 3]], 5: [[22, 'b', 3]]},                  # second epoch completes with the last chunk
    ]
    i = 0
    for reqs in layouts:
        for k in list(range(n)) + [None]:
            cpl = [(k is not None and j >= k) for j in range(n)]
            i += 1
            yield _case(KINDS[i % 4], 1000.0, 4, _feeds(chunks, reqs, None, cpl), size=3, sc=True)
        # set, cleared again by the caller, set again
        yield _case(KINDS[i % 4], 1000.0, 4, _feeds(chunks, reqs, None, [False, True, False, False, True, True, True]),
                    size=3, sc=True)
        # with a removal that empties the pending set
        if reqs:
            a = max(reqs)
            r0 = reqs[a][0]
            for k in (0, a, n - 1, None):
                cpl = [(k is not None and j >= k) for j in range(n)]
                yield _case('P1', 1000.0, 4, _feeds(chunks, reqs, {a: [[r0[0], r0[1]]]}, cpl), size=3, sc=True)


def _audit(tier, rng):
    """API-surface sweep: every keyword of extract_epochs with default / non-default / unusual-but-legal kinds, info
    dicts with and without key / metadata / duration, input dtypes, channel counts and labels, stream offsets,
    read-only input, caller-side mutation (always on in impl), look-back given off-grid, epoch_size=0."""
    chunks = [3, 4, 1, 4, 3, 5]
    base_reqs = {0: [[2, 'a', 5]], 2: [[5, 'b', 5]], 3: [[9, 'c', 5]]}
    base_rems = {4: [[9, 'c']]}

    def sched(reqs=None, rems=None, cpl=None, ch=None):
        return _feeds(ch or chunks, base_reqs if reqs is None else reqs, base_rems if rems is None else rems, cpl)
    i = 0
    variants = [
        dict(fstype='int'), dict(fstype='np'), dict(dtype='int16'), dict(dtype='int32'), dict(dtype='float32'),
        dict(nch=1), dict(nch=3), dict(nch=3, chlabels='mixed'), dict(chlabels='none'), dict(chlabels='mixed'),
        dict(s0off=-7), dict(s0off=100), dict(chunk_md=False), dict(ro=True), dict(cb=False), dict(cb='falsy'),
        dict(dtype='int16', ro=True, fstype='np', nch=3), dict(withdur=True), dict(sizetype='np'),
    ]
    for v in variants:
        for kind in KINDS:
            for sc in (False, True):
                cpl = [False, False, True, True, True, True] if sc else None
                yield _case(kind, 1000.0, 4, sched(cpl=cpl), size=5, sc=sc, **v)
    # defaults left to the callee: no buffer_size, no removed_queue, no prestim/poststim/source_complete
    nolook = {0: [[2, 'a', 5]], 2: [[8, 'b', 5]], 3: [[9, 'c', 5]]}
    for kind in KINDS:
        yield _case(kind, 1000.0, 0, sched(nolook, {}), size=5, bdef=True, rq=False, predef=True)
        yield _case(kind, 1000.0, 0, sched(nolook, {}), size=5, bdef=True, rq=False, predef=True, cb=False)
        yield _case(kind, 1000.0, 0, sched(nolook), size=5, bdef=True)
        yield _case(kind, 1000.0, 4, sched(rems={}), size=5, rq=False)
    # request dicts: no metadata, keys of unusual kinds (falsy, tuple, huge), int / NumPy t0, duration present but unused
    keysets = [[0, '', False], [['t', 1], 12345678901234567890, 0.0], [None, 'k', ['a', ['b', 2]]]]
    for ks in keysets:
        for kind in KINDS:
            reqs = {0: [[2, ks[0], 5]], 2: [[5, ks[1], 5]], 3: [[9, ks[2], 5]]}
            yield _case(kind, 1000.0, 4, sched(reqs, {4: [[9, ks[2]]], 1: [[2, ks[0]]]}), size=5)
            yield _case(kind, 1000.0, 4, sched(reqs, {4: [[9, ks[2]]]}), size=None)
    for kind in KINDS:
        reqs = {0: [[0, 'a', 5, {'t0type': 'int'}], [2, 'n', 5, {'nomd': True}]], 2: [[5, 'b', 5, {'t0type': 'np', 'nomd': True}]],
                3: [[9, None, 5, {'nomd': True}]]}
        yield _case(kind, 1000.0, 4, sched(reqs, {}), size=5)
        yield _case(kind, 1000.0, 4, sched(reqs, {4: [[9, None]]}), size=None, fstype='np')
        yield _case(kind, 1000.0, 4, sched({0: [[2, 'a', 3]], 2: [[5, 'b', 7]], 3: [[9, 'c', 1]]}, {}), size=5, withdur=True)
        # same t0, keys 0 and False: one dictionary key for Python, hence a duplicate
        yield _case(kind, 1000.0, 4, sched({0: [[2, 0, 9], [2, False, 9]]}, {}), size=9)
        # a request far in the future stays pending for ever: no callback
        yield _case(kind, 1000.0, 4, sched({0: [[2, 'a', 5]], 1: [[10 ** 9, 10 ** 30, 5]]}, {}), size=5)
        # negative prestim (epoch starts after t0), prestim + poststim cancelling the epoch to zero length
        yield _case(kind, 1000.0, 4, sched(), size=5, pre=('grid', -2))
        yield _case(kind, 1000.0, 4, sched(), size=5, pre=('grid', -2), post=('grid', -3), zero_size=False)
        yield _case(kind, 1000.0, 4, sched(), size=5, pre=('frac', -2, 0.3), post=('frac', 1, 0.4))
    # other rates, incl. fs = 1 given as int
    for fs, ft in [(1.0, 'int'), (1.0, 'float'), (44100.0, 'float'), (48000.0, 'int'), (195312.5, 'np')]:
        for kind in ('N1', 'P2'):
            yield _case(kind, fs, 4, sched(), size=5, fstype=ft)
            yield _case(kind, fs, 4, sched(), size=5, fstype=ft, pre=('off', 1), post=('frac', 0, 0.6))
    # look-back given off the sample grid: round(buffer_size*fs); request exactly at / one before the look-back edge
    for Bk in (3.6, 4.4, 3.4, 4.6, 4, 3):
        for lo in (0, 1, 3, 4, 5):
            for a in (2, 3):
                i += 1
                yield _case(KINDS[i % 4], 1000.0, Bk, _feeds([4, 4, 4, 4, 4], {a: [[lo, None, 6]]}), size=6)
    # epoch_size = 0 (a float, not None): the window is prestim + poststim only
    for st in ('float', 'int', 'np'):
        for kind in ('N1', 'P2'):
            for wd in (False, True):
                reqs = {0: [[4, 'a', 4 if wd else None]], 2: [[9, 'b', 4 if wd else None]]}
                yield _case(kind, 1000.0, 4, sched(reqs, {}), size=0, zero_size=True, sizetype=st, withdur=wd,
                            pre=('grid', 2), post=('grid', 1))
                yield _case(kind, 1000.0, 4, sched(reqs, {}), size=0, zero_size=True, sizetype=st, withdur=wd)


def _capture(tier):
    """capture_epoch driven stand-alone with (slb, data) tuples"""
    splits = [[[0, 4], [4, 4], [8, 4]], [[0, 12]], [[2, 3], [5, 1], [6, 0], [6, 6]], [[0, 1], [1, 1], [2, 10]],
              [[3, 4], [7, 5]], [[0, 4], [6, 6]], [[0, 6], [4, 8]], [[5, 0], [5, 7]]]
    i = 0
    for sp in splits:
        contiguous = all(sp[j][0] + sp[j][1] == sp[j + 1][0] for j in range(len(sp) - 1))
        for lo in range(0, 10):
            for n in (0, 1, 3, 5):
                i += 1
                kind = 'P1' if (contiguous and i % 2) else 'N1'
                opts = [{}, {'nomd': True}, {'s0float': True}, {'nnp': True}, {'fsnone': True}, {'dtype': 'int16'},
                        {'nomd': True, 'fsnone': True, 'dtype': 'int32'}][i % 7]
                c = {'t': 'cap', 'kind': kind, 'lo': lo, 'n': n, 'sends': sp}
                c.update(opts)
                yield c


def cases(tier, rng):
    yield from _fixed()
    yield from _audit(tier, rng)
    yield from _capture(tier)
    yield from _source_complete(tier)
    yield from _single(tier)
    yield from _pairs(tier, rng)
    yield from _random(tier, rng)
    yield from _offgrid(tier, rng)


# replayed on every run while the finding is listed in known_findings.txt
KNOWN_WITNESSES = {
    KNOWN_KEY: _case('N1', 1000.0, 0, _feeds([10], {0: [[1, None, 3], [2, None, 4]]})),
}


# ====================================================================================================================
# translator tie (added; nothing above depends on it): the integer bookkeeping of the coroutine capture_epoch and the
# look-back bookkeeping of extract_epochs are regenerated from the source under test on every run
# (translate/pycapture2coq.py -> coq/gen/CaptureGen.v); coq/Extract/ProofsTie.v proves the generated definitions equal
# to Extract/Model.v (C05_source_* in coq/Props/C05.v).  A source the translator cannot digest, a failing self-test
# against the real coroutines, or a tie theorem that no longer checks is reported by the driver as a broken tie.
GEN = 'gen/CaptureGen.v'
TRUSTED = TRUSTED + [
    'translate/pycapture2coq.py (fail-closed ast translator coroutine -> step function: `slb, data = (yield)` iteration = one '
    'step, `break` = finished, target(...) = the output; pinned and mapped: int(round(e)) = e on integers, data.shape[-1] = '
    'zlen, data[..., a:b] = py_slice, concat(pieces, axis=-1) = List.concat, xs.append = snoc, l[0] / l.pop(0) = head / tail '
    '(None = IndexError); pinned and dropped: `info = info.copy()`, `md = info.pop(\'metadata\', {})` (both the identity '
    'c_rid), the log.warning lines, the `if hasattr(c, \'metadata\')` block (writes the metadata of the piece only); pinned '
    'as text: the @coroutine decorator, the parameter names of capture_epoch, `buffer_samples = round(buffer_size * fs)`, the '
    'four float conversions of a request and the capture_epoch(t0, epoch_samples, info, epochs.append, fs) call; statements '
    'of extract_epochs outside the tlb / prior_samples slice only checked not to write those variables; the Coq printer. '
    'Self-test on every run: the translation interpreted independently and, as Examples in the generated file, the emitted '
    'text itself against the real coroutines on NumPy chunks, send by send, incl. auto_send=True and a negative look-back)',
    'coq/Extract/ProofsTie.v: abs (the pieces kept joined, md = c_rid) as the reading of coroutine states as model captures']
ASSUMPTIONS = ASSUMPTIONS + ['tie theorems: auto_send = False (wf_ce; refuted without), buffer_samples >= 0 for the pruning '
                             'loop (refuted without: IndexError); removal / intake loops of extract_epochs are not translated '
                             '(differential testing only)']


def translate(repo):
    """Regenerate coq/gen/CaptureGen.v from the source under test.  A translator gap or a failed self-test is written as a
    generated file that does not compile, so that the driver reports the tie as broken (fail closed)."""
    import os
    import random
    import vlib
    from translate import pycapture2coq
    info = {'gen_files': [GEN], 'source': [os.path.join(repo, 'psiaudio/pipeline.py')], 'gap': None}
    try:
        text, tinfo = pycapture2coq.translate(repo, random.Random(5))
        info.update(tinfo)
    except Exception as e:                  # Gap, or the real coroutine misbehaving under the self-test
        why = f'{type(e).__name__}: {e}'
        info['gap'] = why
        msg = ''.join(ch if ch.isalnum() or ch in " _.,:;()[]{}=+-*/<>'`" else ' ' for ch in why)
        msg = msg.replace('(*', '( *').replace('*)', '* )')[:400]
        # deliberately ill-typed, so that the build fails and coqc's error message carries the reason
        text = ('(* GENERATED by harness/C05.py translate(): translate/pycapture2coq.py could not digest\n'
                f'   {repo}/psiaudio/pipeline.py *)\nFrom Coq Require Import ZArith String.\n'
                f'Definition translator_gap : Z :=\n  "{msg}"%string.\n')
    with open(os.path.join(vlib.COQ, GEN), 'w') as f:       # always rewritten: always re-checked
        f.write(text)
    # the correspondence files only need the hand-written model; make sure it is built even if the tie breaks
    rc, out = vlib.coq_build('Extract/Spec.vo')
    if rc != 0:
        raise vlib.MachineryError('Extract/Spec.v does not build:\n' + out[-3000:])
    return info


# second batch of the translator tie: the WHOLE loop body of extract_epochs (removal drain, delivery, intake, stacking /
# target, callback condition) is translated too (extract_epochs_drain / _deliver / _replay / _intake / _send) and proved equal
# to Model.feed_step in coq/Extract/ProofsTieSend.v (C05_source_send, C05_source_refines_spec, ...)
TRUSTED = TRUSTED + [
    'translate/pycapture2coq.py, whole send of extract_epochs: `while deque:` = fuelled recursion on its contents, `for .. in '
    'list(D.items())` / `for p in prior_samples` = recursion over the snapshot with the loop variable aliasing D[key], try / '
    'except StopIteration = the continuation of a finished coroutine, co.send(..) = the generated capture_epoch_step with '
    'epochs.append receiving the model item tagged with `key` (ce_item), popleft / remove / dict pop / `in` / D[k] = v = '
    'head+tail / remove_first / del_key / memz, has_key / dict_put with their IndexError / ValueError / KeyError; deques = '
    'their contents at the send, source_complete.is_set() and `empty_queue_cb is not None` = booleans; pinned as text: the '
    'pre-loop initialisation, `key = info[\'t0\'], info.get(\'key\', None)` (= the integer the harness gives the pair), the '
    'info[..] = .. writes and float conversions of a request (= r_lo, r_n computed by the harness with the same expressions), '
    'the two log.debug blocks, the Duplicate ValueError, and the stacking block `if isinstance(epochs[0], PipelineData) .. '
    'target(merged); epochs[:] = []` (= Model.stack_ok kind, found by experiment). Self-test on every run: the translation '
    'interpreted independently against the real extract_epochs over random request / removal / completion schedules, send by '
    'send (exceptions, what target received, callback calls, tlb, prior_samples, order and frame locals of the pending '
    'coroutines; ok, Duplicate and stacking errors must all be reached), and 10 such sends as Examples about the emitted text)',
    'coq/Extract/ProofsTieSend.v: absx (the coroutine dict through abs) as the reading of generated states as model states']
ASSUMPTIONS = ASSUMPTIONS + ['tie theorems for the whole send: wf_xe (dict keys distinct - refuted without -, pending coroutines '
                             'auto_send = False, `epochs` empty between sends) and buffer_samples >= 0']
