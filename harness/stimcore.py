"""Shared machinery of harness/C01.py and harness/C09.py (stimulus generators).

A generator configuration is a nested dict ('t' = class, integer sample counts for times).
`mk` builds the REAL psiaudio factory; `coq_gen` the Coq `gen` term of coq/Stim/Model.v and a
registry that lets `Evaluator` turn the model's symbolic recipes into doubles using the
implementation's own elementary functions one-shot."""
from fractions import Fraction
import numpy as np
from vlib import zlit, listlit


# ---------------------------------------------------------------------------
def t_of(k, fs):
    return k / fs


def eff(k, fs):
    """samples the code derives from the time k/fs with int(round(t*fs))"""
    return int(round((k / fs) * fs))


def _cal(cfg):
    if cfg.get('cal'):
        from psiaudio.calibration import FlatCalibration
        return FlatCalibration.unity()
    return None


def _kw(cfg, names, **fixed):
    """keyword arguments for exactly the options present in cfg (absent option = the constructor's own default)"""
    kw = dict(fixed)
    for key, name in names.items():
        if key in cfg:
            kw[name] = cfg[key]
    if cfg.get('cal'):
        kw['calibration'] = _cal(cfg)
    return kw


def tsec(cfg, key, fs):
    """the seconds value handed to the code for the sample count cfg[key] (k/fs; the int 0 when cfg['int0'] and k == 0)"""
    k = cfg[key]
    if k is None:
        return None
    if k == 0 and cfg.get('int0'):
        return 0
    return t_of(k, fs)


def _tr_sq(e):
    """a pointwise envelope transform with f(0) = 0 and f(1) = 1 exactly"""
    return e * e


def _tr_half(e):
    """a change of units (f(1) = 0.5): only used by oracle-only cases, the model's plateau factor is an exact one"""
    return e * 0.5


def _tr_db(e):
    """an envelope in other units with f(0) != 0 as well"""
    return 2.0 * e + 0.25


TRANSFORMS = {'sq': _tr_sq, 'half': _tr_half, 'db': _tr_db}


def mk(cfg, fs):
    """Build the real factory for cfg."""
    from psiaudio import stim
    t = cfg['t']
    if t == 'tone':
        return stim.ToneFactory(fs, cfg['f'], cfg['level'], **_kw(cfg, {'phase': 'phase', 'pol': 'polarity'}))
    if t == 'samtone':
        return stim.SAMToneFactory(fs, cfg['fc'], cfg['fm'], cfg['level'],
                                   **_kw(cfg, {'phase': 'phase', 'phase_lb': 'phase_lb', 'phase_ub': 'phase_ub',
                                               'pol': 'polarity', 'eq_power': 'eq_power', 'equalize': 'equalize'}))
    if t == 'silence':
        return stim.SilenceFactory(**_kw(cfg, {'fill': 'fill_value'}))
    if t == 'bbnoise':
        return stim.BroadbandNoiseFactory(fs, cfg['level'], **_kw(cfg, {'seed': 'seed', 'pol': 'polarity'}))
    if t == 'blnoise':
        return stim.BandlimitedNoiseFactory(fs, cfg['seed'], cfg['level'], cfg['fl'], cfg['fh'], 1, 1, 80,
                                            **_kw(cfg, {'pol': 'polarity', 'discard': 'discard_initial_samples'}))
    if t == 'firnoise':
        from psiaudio.calibration import FlatCalibration
        return stim.BandlimitedFIRNoiseFactory(fs, cfg['fl'], cfg['fh'], cfg['level'], ntaps=cfg.get('ntaps', 101),
                                               seed=cfg['seed'], calibration=FlatCalibration.unity(),
                                               **_kw(cfg, {'pol': 'polarity', 'window': 'window', 'equalize': 'equalize'}))
    if t == 'shaped':
        return stim.ShapedNoiseFactory(fs, cfg['level'], shaped_gains(fs), ntaps=cfg.get('ntaps', 101), seed=cfg['seed'],
                                       **_kw(cfg, {'pol': 'polarity', 'window': 'window'}))
    if t == 'square':
        return stim.SquareWaveFactory(fs, cfg['level'], cfg['freq'], cfg['duty'])
    if t == 'wavseq':
        f = stim.WavSequenceFactory(fs, wavseq_dir(), **_kw(cfg, {'norm': 'normalization'}))
        # the files are taken in SORTED order (since the repair recorded in known_findings.txt; directory-listing order
        # depends on the file system): the same directory gives the same sequence everywhere
        names = [str(w.filename) for w in f.wav_files]
        if names != sorted(names):
            raise AssertionError(f'WavSequenceFactory takes its files in directory-listing order: {[n.rsplit("/", 1)[-1] for n in names]}')
        return f
    if t == 'fixed':
        if cfg.get('cls') == 'click':
            from psiaudio.calibration import FlatCalibration
            return stim.ClickFactory(fs, cfg['n'] / fs + 0.25 / fs, 2.0, cfg.get('pol', 1), FlatCalibration.unity())
        if cfg.get('cls') == 'chirp':
            from psiaudio.calibration import FlatCalibration
            return stim.ChirpFactory(fs, fs / 20.0, fs / 5.0, cfg['n'] / fs + 0.25 / fs, 1.0, FlatCalibration.unity(),
                                     **_kw(cfg, {'window': 'window'}))
        if cfg.get('cls') == 'wav':
            path = _wav_path(cfg['n'], fs)
            if cfg.get('path'):
                from pathlib import Path
                path = Path(path)
            return stim.WavFileFactory(fs, path, **_kw(cfg, {'norm': 'normalization'}))
        if cfg.get('cls') == 'blclick':
            return stim.BandlimitedClickFactory(fs, fs / 10.0, fs / 4.0, cfg['n'] / fs, 1.0)
        return stim.FixedWaveform(fs, fixed_raw(cfg))
    if t == 'gate':
        return stim.GateFactory(fs, tsec(cfg, 'start', fs), tsec(cfg, 'dur', fs), _used(mk(cfg['in'], fs), cfg))
    if t == 'env':
        rise = tsec(cfg, 'rise', fs)
        kw = {}
        if not (cfg.get('defstart') and cfg['start'] == 0):
            kw['start_time'] = tsec(cfg, 'start', fs)       # 'defstart': the constructor's own default start_time
        if cfg['window'] == 'cos2class':
            return stim.Cos2EnvelopeFactory(fs, tsec(cfg, 'dur', fs), rise, mk(cfg['in'], fs), **kw)
        if cfg.get('transform'):
            kw['transform'] = TRANSFORMS[cfg['transform']]
        return stim.EnvelopeFactory(cfg['window'], fs, tsec(cfg, 'dur', fs), rise, mk(cfg['in'], fs), **kw)
    if t == 'sam':
        return stim.SAMEnvelopeFactory(fs, cfg['depth'], cfg['fm'], cfg['delay'], cfg.get('direction', 1),
                                       mk(cfg['in'], fs), **_kw(cfg, {'onset': 'onset_method'}))
    if t == 'sqenv':
        return stim.SquareWaveEnvelopeFactory(fs, cfg['depth'], cfg['fm'], cfg['duty'], None, mk(cfg['in'], fs),
                                              **_kw(cfg, {'alpha': 'alpha'}))
    if t == 'notch':
        return stim.NotchFilterFactory(fs, cfg['f'], cfg['q'], mk(cfg['in'], fs))
    if t == 'repeat':
        return stim.RepeatFactory(fs, cfg['n'], cfg['skip'], cfg['rate'], cfg['delay'], _used(mk(cfg['in'], fs), cfg))
    raise KeyError(t)


def _used(inner, cfg):
    """'preplay': the input factory handed to a gate / repeat wrapper was in legal use before (a few samples previewed, or
    played to its end to measure a peak); both constructors reset their input, so the stream may not depend on it"""
    k = cfg.get('preplay')
    if k is not None:
        inner.next(k)
    return inner


def shaped_gains(fs):
    return {0: -20, fs / 8: 0, fs / 4: -6, fs / 2: -40}


def wavseq_dir():
    """a directory with three short 16-bit wav files (7, 11 and 5 samples at 1000 Hz) for WavSequenceFactory"""
    import os
    from scipy.io import wavfile
    d = os.path.join(os.path.dirname(os.path.dirname(os.path.abspath(__file__))), 'work', 'wavseq')
    os.makedirs(d, exist_ok=True)
    for i, n in enumerate([7, 11, 5]):
        path = os.path.join(d, f's{i}.wav')
        if not os.path.exists(path):
            wavfile.write(path, 1000, (np.arange(n) * 100 + 1000 * i + 50).astype(np.int16))
    return d


def _wav_path(n, fs):
    """a small 16-bit wav file (written once per (n, rate)) under /verif/work"""
    import os
    from scipy.io import wavfile
    rate = int(round(fs))
    d = os.path.join(os.path.dirname(os.path.dirname(os.path.abspath(__file__))), 'work', 'wav')
    os.makedirs(d, exist_ok=True)
    path = os.path.join(d, f'w{n}_{rate}.wav')
    if not os.path.exists(path):
        data = (np.round(12000 * np.sin(np.arange(n) * 0.7 + 0.3)) + np.arange(n) * 17).astype(np.int16)
        wavfile.write(path, rate, data)
    return path


def fixed_raw(cfg):
    """the array handed to FixedWaveform (dtype / read-only flag as cfg says)"""
    n = cfg['n']
    dt = cfg.get('dtype')
    if dt == 'int16':
        a = (np.arange(n) * 3 - 7).astype(np.int16)
    elif dt == 'float32':
        a = ((np.arange(n, dtype=np.double) + 1.0) * 0.37 - 3.0).astype(np.float32)
    else:
        a = (np.arange(n, dtype=np.double) + 1.0) * 0.37 - 3.0
    if cfg.get('ro'):
        a.setflags(write=False)
    return a


def fixed_array(cfg, fs=None):
    if cfg.get('cls'):
        # the real FixedWaveform subclasses compute their own array once; recipes index into it
        return np.asarray(mk(cfg, fs).waveform, dtype=float)
    return np.asarray(fixed_raw(cfg), dtype=float)


CARRIERS = ('tone', 'samtone', 'silence', 'bbnoise', 'blnoise', 'firnoise', 'shaped', 'wavseq')
FIR = ('firnoise', 'shaped')


def has_fir(cfg):
    return cfg['t'] in FIR or ('in' in cfg and has_fir(cfg['in']))


class Registry:
    def __init__(self, fs):
        self.fs = fs
        self.nodes = {}

    def new(self, info):
        nid = len(self.nodes) + 1
        self.nodes[nid] = info
        return nid


def qlit(fr):
    return f'({fr.numerator} # {fr.denominator})'


def coq_gen(cfg, reg):
    """Coq term of type gen, with the integer parameters the code itself derives."""
    fs = reg.fs
    t = cfg['t']
    if t in CARRIERS:
        return f'(GCar {reg.new({"kind": "car", "cfg": cfg})})'
    if t == 'square':
        cycle = int(round(fs / cfg['freq']))
        on = int(round(cycle * cfg['duty']))
        nid = reg.new({'kind': 'const', 'value': cfg['level']})
        return f'(GSquare {nid} {zlit(cycle)} {zlit(on)})'
    if t == 'fixed':
        wid = reg.new({'kind': 'wave', 'cfg': cfg})
        n = len(fixed_array(cfg, fs)) if cfg.get('cls') else cfg['n']
        return f'(GFixed {wid} {zlit(n)})'
    inner = coq_gen(cfg['in'], reg) if 'in' in cfg else None
    if t == 'gate':
        return f'(GGate {zlit(eff(cfg["start"], fs))} {zlit(eff(cfg["dur"], fs))} {inner})'
    if t == 'env':
        dur = eff(cfg['dur'], fs)
        rise = int(np.floor(dur / 2)) if cfg['rise'] is None else eff(cfg['rise'], fs)
        nid = reg.new({'kind': 'ramp', 'window': cfg['window'], 'rise': rise, 'transform': cfg.get('transform')})
        return f'(GEnv {nid} {zlit(eff(cfg["start"], fs))} {zlit(dur)} {zlit(rise)} {inner})'
    if t == 'sam':
        D = int(cfg['delay'] * fs)
        nid = reg.new({'kind': 'sam', 'cfg': cfg})
        return f'(GSam {nid} {zlit(D)} {inner})'
    if t == 'sqenv':
        fm_samples = fs / cfg['fm']
        duty = int(round(cfg['duty'] * fm_samples))
        nid = reg.new({'kind': 'sqenv', 'cfg': cfg, 'duty': duty})
        return f'(GSqEnv {nid} {qlit(Fraction(fm_samples))} {zlit(duty)} {inner})'
    if t == 'notch':
        fid = reg.new({'kind': 'filt', 'cfg': cfg})
        return f'(GFilt {fid} {inner})'
    if t == 'repeat':
        period = int(round(fs / cfg['rate']))
        sdelay = int(round(fs * cfg['delay']))
        return f'(GRepeat {zlit(cfg["n"])} {zlit(cfg["skip"])} {zlit(period)} {zlit(sdelay)} {inner})'
    raise KeyError(t)


def coq_ops(ops):
    out = []
    for o in ops:
        if o[0] == 'next':
            out.append(f'Next {zlit(o[1])}')
        elif o[0] == 'reset':
            out.append('Reset')
        elif o[0] == 'rest':
            out.append('Rest')
        else:
            out.append('Query')
    return listlit(out)


# ---------------------------------------------------------------------------
def op_flags(o):
    """flags of a next/rest op: ['next', n, 'np64+scr'] -> {'np64', 'scr'}"""
    i = 2 if o[0] == 'next' else 1
    return set(o[i].split('+')) if len(o) > i and o[i] else set()


def typed_count(n, flags):
    """the draw count in the argument kind the flags ask for (NumPy ints; floats only where accepts_float)"""
    if 'np64' in flags:
        return np.int64(n)
    if 'np32' in flags:
        return np.int32(n)
    if 'npu8' in flags and 0 <= n <= 255:
        return np.uint8(n)
    if 'npi8' in flags and 0 <= n <= 127:
        return np.int8(n)
    if 'npi16' in flags and 0 <= n <= 32767:
        return np.int16(n)
    if 'npu64' in flags and n >= 0:
        return np.uint64(n)
    if 'npf' in flags:
        return np.float64(n)
    if 'pyf' in flags:
        return float(n)
    return n


def scribble(a):
    """the caller writes into an array it received (a read-only array refuses: fine)"""
    try:
        a[...] = True if a.dtype == bool else 77
    except (ValueError, TypeError):
        pass


def accepts_float(cfg):
    """stimuli whose own n_samples_remaining() is a NumPy float (FixedWaveform and transforms of one), so that the
    queue / get_samples_remaining() hand them float-typed counts"""
    t = cfg['t']
    if t in ('fixed', 'repeat'):
        return True
    if t in ('sam', 'sqenv', 'notch'):
        return accepts_float(cfg['in'])
    return False


def run_impl(cfg, fs, ops):
    """Drive the real factory.  Every observable becomes a JSON-able value."""
    res = []
    try:
        f = mk(cfg, fs)
    except ValueError as e:
        return [['ctor-raise', 'ValueError']]
    # something else uses NumPy's global generator, and a second noise generator of the same class and seed is drawn
    # from, between every two operations: a stimulus must not depend on either
    ncfg = noise_cfg(cfg)
    other = mk(ncfg, fs) if ncfg else None
    for i, o in enumerate(ops):
        disturb_global_rng(i)
        if other is not None and i % 2 == 1:
            other.next(2)
        if o[0] == 'next':
            fl = op_flags(o)
            try:
                a = f.next(typed_count(o[1], fl))
                res.append(['next', [float(v) for v in np.asarray(a, dtype=float)]])
                if 'scr' in fl:
                    scribble(a)
            except ValueError:
                res.append(['raise', 'ValueError'])
        elif o[0] == 'rest':
            # get_samples_remaining(): the count it passes to next() is whatever n_samples_remaining() returns
            # (a NumPy float for FixedWaveform), so this also exercises non-int draw counts
            try:
                a = f.get_samples_remaining()
                res.append(['next', [float(v) for v in np.asarray(a, dtype=float)]])
                if 'scr' in op_flags(o):
                    scribble(a)
            except ValueError:
                res.append(['raise', 'ValueError'])
        elif o[0] == 'reset':
            try:
                f.reset()
                res.append(['reset'])
            except ValueError:
                res.append(['raise', 'ValueError'])
                break
        else:
            res.append(['query', _q(f.n_samples), _q(f.n_samples_remaining), bool(f.is_complete()), _dur(f)])
    return res


def disturb_global_rng(k):
    np.random.seed(1000 + k)
    np.random.uniform(size=3)


def noise_cfg(cfg):
    """the noise carrier of a configuration, if it has one"""
    if cfg['t'] in ('bbnoise', 'blnoise', 'firnoise', 'shaped'):
        return cfg
    return noise_cfg(cfg['in']) if 'in' in cfg else None


def _dur(f):
    """get_duration() in seconds (None = infinite / not implemented); judged by C09's oracle only"""
    try:
        v = f.get_duration()
    except NotImplementedError:
        return None
    return None if v == np.inf else float(v)


def duration_expected(cfg, fs):
    """get_duration() as the property reads: start + duration / array length over fs / (n + skip) periods"""
    t = cfg['t']
    if t in ('gate', 'env'):
        st = 0 if (t == 'env' and cfg.get('defstart') and cfg['start'] == 0) else tsec(cfg, 'start', fs)
        return float(st + tsec(cfg, 'dur', fs))
    if t == 'fixed':
        return cfg['n'] / fs
    if t == 'repeat':
        return (cfg['n'] + cfg['skip']) / cfg['rate']
    if t in ('sam', 'sqenv', 'notch'):
        return duration_expected(cfg['in'], fs)
    return None


def _q(fn):
    try:
        v = fn()
    except NotImplementedError:
        return None
    if v == np.inf:
        return None
    assert float(v) == int(v)
    return int(v)


# ---------------------------------------------------------------------------
class Evaluator:
    """Turns model recipes into doubles with the implementation's elementary functions, one-shot."""

    def __init__(self, reg, n_max):
        self.reg = reg
        self.fs = reg.fs
        self.n = int(n_max) + 4
        self.cache = {}

    def _arr(self, nid):
        if nid in self.cache:
            return self.cache[nid]
        from psiaudio import stim
        from scipy import signal
        info = self.reg.nodes[nid]
        k = info['kind']
        if k == 'car':
            a = np.asarray(mk(info['cfg'], self.fs).next(self.n), dtype=float)
        elif k == 'filt':
            a = np.asarray(mk(info['cfg'], self.fs).next(self.n), dtype=float)
        elif k == 'wave':
            a = fixed_array(info['cfg'], self.fs)
        elif k == 'ramp':
            m = 2 * info['rise']
            w = info['window']
            a = stim.cos2ramp(m) if w in ('cosine-squared', 'cos2class') else getattr(signal.windows, w)(m)
            if info.get('transform'):
                # pointwise transform with f(0) = 0, f(1) = 1: zeros and the plateau are unchanged, the ramp is f(window)
                a = TRANSFORMS[info['transform']](a)
        elif k == 'sqenv':
            c = info['cfg']
            a = signal.windows.tukey(info['duty'], c.get('alpha', 0)) * c['depth'] + (1 - c['depth'])
        else:
            raise KeyError(k)
        self.cache[nid] = a
        return a

    def _sam(self, nid, idx):
        from psiaudio import stim
        c = self.reg.nodes[nid]['cfg']
        onset = c.get('onset', 'ss_transition')
        depth, fm = c['depth'], c['fm']
        if 'eq_phase' in c:
            eq_phase = c['eq_phase']            # _sam_envelope called directly with explicit values
        elif onset == 'ss_transition':
            eq_phase = stim.sam_eq_phase(c['delay'], depth, c.get('direction', 1))
        else:
            eq_phase = np.pi
        eq_power = c['eq_power'] if 'eq_power' in c else stim.sam_eq_power(depth)
        idx = np.asarray(idx, dtype=np.double)
        t = idx / self.fs
        e = depth / 2.0 * np.cos(2.0 * np.pi * fm * t + eq_phase) + 1.0 - depth / 2.0
        e *= 1.0 / eq_power
        return e

    def factor(self, t, a, b):
        if t == 0:
            return 0.0
        if t == 3:
            return 1.0
        if t in (1, 7, 8, 2, 6):
            arr = self._arr(a)
            if not 0 <= b < len(arr):
                raise IndexError(f'recipe index {b} outside array of node {a} (len {len(arr)})')
            return float(arr[b])
        if t == 4:
            return float(self._sam(a, [b])[0])
        if t == 5:
            info = self.reg.nodes[a]
            if info['kind'] == 'const':
                return float(info['value'])
            return float(1 - info['cfg']['depth'])
        raise KeyError(t)

    def sample(self, factors):
        v = None
        for (t, a, b) in reversed(factors):
            f = self.factor(t, a, b)
            v = f if v is None else f * v
        return v


def decode(mo):
    """Decode the flat integer stream printed by run_ops into per-op results with recipes."""
    pos = 0
    out = []

    def take():
        nonlocal pos
        v = mo[pos]
        pos += 1
        return v

    def opt():
        return take() if take() == 1 else None

    while pos < len(mo):
        code = take()
        if code == 1:
            n = take()
            samples = []
            for _ in range(n):
                k = take()
                samples.append([(take(), take(), take()) for _ in range(k)])
            out.append(['next', samples])
        elif code == 2:
            out.append(['raise'])
        elif code == 3:
            out.append(['reset'])
        elif code == 4:
            ns = opt()
            rem = opt()
            out.append(['query', ns, rem, bool(take())])
        else:
            raise ValueError(f'bad code {code} at {pos}')
    return out


def compare(cfg, fs, reg, ops, res, mo):
    """None if the model's outputs (recipes evaluated one-shot) equal what the implementation returned."""
    try:
        dec = decode(mo)
    except Exception as e:
        return f'cannot decode model output: {e}'
    if res and res[0][0] == 'ctor-raise':
        return None if (dec and dec[0][0] == 'raise') else f'constructor raised but model says {dec[:1]}'
    n_max = sum(o[1] for o in ops if o[0] == 'next') + 400 * sum(1 for o in ops if o[0] == 'rest')
    ev = Evaluator(reg, n_max)
    tol = 1e-12 if has_fir(cfg) else 0.0
    for i, (o, r) in enumerate(zip(ops, res)):
        if i >= len(dec):
            return f'model produced {len(dec)} results, implementation {len(res)}'
        d = dec[i]
        if r[0] == 'raise':
            if d[0] != 'raise':
                return f'op {i} {o}: implementation raised {r[1]}, model returned {d[0]}'
            if o[0] == 'reset':
                break
            continue
        if d[0] != r[0]:
            return f'op {i} {o}: implementation {r[0]}, model {d[0]}'
        if r[0] == 'next':
            got = r[1]
            if len(got) != len(d[1]):
                return f'op {i} {o}: implementation returned {len(got)} samples, model {len(d[1])}'
            try:
                want = [ev.sample(s) for s in d[1]]
            except IndexError as e:
                return f'op {i} {o}: {e}'
            scale = max([abs(x) for x in want] + [1e-300])
            for j, (g, w) in enumerate(zip(got, want)):
                if not (g == w or abs(g - w) <= tol * scale):
                    return (f'op {i} {o}: sample {j} is {g!r}, model recipe {d[1][j]} evaluates to {w!r}')
        elif r[0] == 'query':
            if [d[1], d[2], d[3]] != [r[1], r[2], r[3]]:
                return f'op {i} query: implementation {r[1:]}, model {d[1:]}'
    return None


# ---------------------------------------------------------------------------
# catalogue of generator configurations (sample counts are small so that recipes stay short)
def catalogue(fs, rng, rich=False):
    tone = {'t': 'tone', 'f': fs / 8.0, 'level': 1.5, 'phase': 0.3}
    tone2 = {'t': 'tone', 'f': fs / 11.3, 'level': 0.8, 'pol': -1}
    sil1 = {'t': 'silence', 'fill': 1}
    cars = [tone, tone2, sil1,
            {'t': 'samtone', 'fc': fs / 6.0, 'fm': fs / 40.0, 'level': 1.0},
            {'t': 'bbnoise', 'seed': 7, 'level': 1.0},
            {'t': 'bbnoise', 'seed': 0, 'level': 0.5},
            {'t': 'blnoise', 'seed': 0, 'level': 1.0, 'fl': fs / 10, 'fh': fs / 5},
            {'t': 'blnoise', 'seed': 3, 'level': 1.0, 'fl': fs / 10, 'fh': fs / 5},
            {'t': 'firnoise', 'seed': 5, 'level': 1.0, 'fl': fs / 10, 'fh': fs / 5},
            {'t': 'shaped', 'seed': 9, 'level': 1.0},
            {'t': 'square', 'level': 2.0, 'freq': fs / 7.0, 'duty': 0.4},
            {'t': 'square', 'level': 1.0, 'freq': fs / 10.0, 'duty': 0.5},
            {'t': 'fixed', 'n': 13},
            # the FixedWaveform subclasses that compute their array themselves (n = int(fs*duration))
            {'t': 'fixed', 'n': 9, 'cls': 'click', 'pol': -1},
            {'t': 'fixed', 'n': 24, 'cls': 'chirp', 'window': 'hann'},
            {'t': 'fixed', 'n': 16, 'cls': 'blclick'},
            {'t': 'fixed', 'n': 21, 'cls': 'wav'}]
    out = list(cars)
    out += [
        {'t': 'gate', 'start': 0, 'dur': 9, 'in': tone},
        {'t': 'gate', 'start': 5, 'dur': 11, 'in': tone2},
        {'t': 'gate', 'start': 4, 'dur': 6, 'in': {'t': 'fixed', 'n': 20}},
        {'t': 'gate', 'start': 3, 'dur': 30, 'in': {'t': 'bbnoise', 'seed': 2, 'level': 1.0}},
        {'t': 'env', 'window': 'cosine-squared', 'start': 0, 'dur': 16, 'rise': 4, 'in': tone},
        {'t': 'env', 'window': 'cos2class', 'start': 6, 'dur': 15, 'rise': 5, 'in': tone2},
        {'t': 'env', 'window': 'hann', 'start': 3, 'dur': 12, 'rise': 6, 'in': sil1},
        {'t': 'env', 'window': 'blackman', 'start': 2, 'dur': 13, 'rise': None, 'in': tone},
        {'t': 'env', 'window': 'cosine-squared', 'start': 4, 'dur': 10, 'rise': 0, 'in': sil1},
        {'t': 'env', 'window': 'cosine-squared', 'start': 1, 'dur': 9, 'rise': 5, 'in': tone},   # rise too long
        {'t': 'sam', 'depth': 1.0, 'fm': fs / 16.0, 'delay': 0.0, 'in': tone},
        {'t': 'sam', 'depth': 0.6, 'fm': fs / 10.0, 'delay': 7.4 / fs, 'in': sil1},
        {'t': 'sam', 'depth': 1.0, 'fm': fs / 23.0, 'delay': 12 / fs, 'onset': 'silence_transition',
         'in': {'t': 'bbnoise', 'seed': 4, 'level': 1.0}},
        {'t': 'sqenv', 'depth': 0.8, 'fm': fs / 10.0, 'duty': 0.5, 'in': sil1},
        {'t': 'sqenv', 'depth': 1.0, 'fm': fs / 12.5, 'duty': 0.4, 'alpha': 0.5, 'in': tone},
        {'t': 'sqenv', 'depth': 0.5, 'fm': fs / 7.25, 'duty': 0.3, 'in': sil1},
        {'t': 'notch', 'f': fs / 8.0, 'q': 1.33, 'in': {'t': 'bbnoise', 'seed': 11, 'level': 1.0}},
        {'t': 'repeat', 'n': 3, 'skip': 1, 'rate': fs / 12.0, 'delay': 2 / fs,
         'in': {'t': 'env', 'window': 'cosine-squared', 'start': 0, 'dur': 8, 'rise': 2, 'in': tone}},
        {'t': 'repeat', 'n': 2, 'skip': 0, 'rate': fs / 9.0, 'delay': 0.0, 'in': {'t': 'fixed', 'n': 9}},
        {'t': 'repeat', 'n': 2, 'skip': 0, 'rate': fs / 9.0, 'delay': 1 / fs, 'in': {'t': 'fixed', 'n': 9}},  # too long
        # off-grid times: round(start*fs) + round(dur*fs) != round((start+dur)*fs)
        {'t': 'env', 'window': 'cosine-squared', 'start': 3.3, 'dur': 12.4, 'rise': 2.7, 'in': tone},
        {'t': 'env', 'window': 'hann', 'start': 2.4, 'dur': 9.4, 'rise': 3.3, 'in': sil1},
        {'t': 'env', 'window': 'cos2class', 'start': 5.6, 'dur': 14.6, 'rise': None, 'in': tone2},
        {'t': 'gate', 'start': 2.6, 'dur': 7.7, 'in': tone},
        {'t': 'gate', 'start': 1.4, 'dur': 6.4, 'in': {'t': 'fixed', 'n': 15}},
        # depth-3 compositions
        {'t': 'env', 'window': 'cosine-squared', 'start': 2, 'dur': 20, 'rise': 3,
         'in': {'t': 'sam', 'depth': 1.0, 'fm': fs / 9.0, 'delay': 5 / fs, 'in': tone}},
        {'t': 'gate', 'start': 1, 'dur': 17,
         'in': {'t': 'sqenv', 'depth': 0.7, 'fm': fs / 8.0, 'duty': 0.5,
                'in': {'t': 'notch', 'f': fs / 6.0, 'q': 2.0, 'in': {'t': 'bbnoise', 'seed': 21, 'level': 1.0}}}},
        {'t': 'env', 'window': 'hann', 'start': 0, 'dur': 14, 'rise': 4,
         'in': {'t': 'gate', 'start': 2, 'dur': 9, 'in': {'t': 'fixed', 'n': 30}}},
    ]
    if rich:
        for _ in range(40):
            out.append(random_cfg(fs, rng, depth=rng.randint(1, 3)))
    return out


def random_cfg(fs, rng, depth):
    if depth == 0:
        return rng.choice([
            {'t': 'tone', 'f': fs / rng.uniform(4, 30), 'level': rng.uniform(0.1, 3), 'phase': rng.uniform(0, 6)},
            {'t': 'silence', 'fill': rng.choice([0, 1, 2.5])},
            {'t': 'bbnoise', 'seed': rng.randint(0, 99), 'level': 1.0},
            {'t': 'square', 'level': rng.uniform(0.5, 2), 'freq': fs / rng.uniform(3, 15), 'duty': rng.uniform(0.1, 0.9)},
            {'t': 'fixed', 'n': rng.randint(1, 40)}])
    inner = random_cfg(fs, rng, depth - 1)
    k = rng.random()
    if k < 0.3:
        return {'t': 'gate', 'start': rng.randint(0, 12), 'dur': rng.randint(0, 30), 'in': inner}
    if k < 0.6:
        dur = rng.randint(0, 30)
        rise = rng.choice([None, rng.randint(0, dur // 2)])
        return {'t': 'env', 'window': rng.choice(['cosine-squared', 'hann', 'blackman', 'cos2class']),
                'start': rng.randint(0, 12), 'dur': dur, 'rise': rise, 'in': inner}
    if k < 0.8:
        return {'t': 'sam', 'depth': rng.choice([1.0, 0.5]), 'fm': fs / rng.uniform(5, 40),
                'delay': rng.choice([0.0, rng.randint(0, 20) / fs, rng.uniform(0, 20) / fs]), 'in': inner}
    if k < 0.9:
        return {'t': 'sqenv', 'depth': rng.choice([1.0, 0.6]), 'fm': fs / rng.choice([8.0, 10.0, 12.5, 7.25, 16.0]),
                'duty': rng.choice([0.25, 0.5, 0.4]), 'in': inner}
    return {'t': 'notch', 'f': fs / rng.uniform(4, 12), 'q': 1.5, 'in': inner}


def boundaries(cfg, fs):
    """absolute sample positions where the code's arithmetic changes branch"""
    b = {0}
    t = cfg['t']
    if t == 'fixed':
        b.add(cfg['n'])
    if t == 'square':
        cyc = int(round(fs / cfg['freq']))
        on = int(round(cyc * cfg['duty']))
        for k in range(4):
            b.update([k * cyc, k * cyc + on])
    if t in ('gate', 'env'):
        s, d = eff(cfg['start'], fs), eff(cfg['dur'], fs)
        b.update([s, s + d])
        if t == 'env':
            r = d // 2 if cfg['rise'] is None else eff(cfg['rise'], fs)
            b.update([s + r, s + d - r])
    if t == 'sam':
        b.add(int(cfg['delay'] * fs))
    if t == 'sqenv':
        P = fs / cfg['fm']
        duty = int(round(cfg['duty'] * P))
        for k in range(4):
            b.update([int(np.floor(k * P + 0.5)), int(np.floor(k * P + 0.5)) + duty])
    if t == 'repeat':
        per = int(round(fs / cfg['rate']))
        for k in range(cfg['n'] + cfg['skip'] + 1):
            b.add(k * per)
    if 'in' in cfg and t != 'repeat':
        b |= boundaries(cfg['in'], fs)
    return b


# ---------------------------------------------------------------------------
# coverage-audit additions: non-default constructor keywords, unusual-but-legal argument kinds, falsy values,
# boundary values of the code's comparisons, twins (subclasses / function variants)
def catalogue_extra(fs):
    tone = {'t': 'tone', 'f': fs / 8.0, 'level': 1.5, 'phase': 0.3}
    sil1 = {'t': 'silence', 'fill': 1}
    fx = {'t': 'fixed', 'n': 13}
    ifreq = max(int(fs // 8), 1)            # integer-typed frequency
    noise = {'t': 'bbnoise', 'seed': 6, 'level': 1.0}
    return [
        # carriers: integer-typed arguments, defaults left to the constructor, every non-default keyword
        {'t': 'tone', 'f': ifreq, 'level': 2},
        {'t': 'tone', 'f': fs / 9.0, 'level': 1.0, 'cal': True, 'pol': -1},
        {'t': 'samtone', 'fc': fs / 6.0, 'fm': fs / 40.0, 'level': 1.0, 'phase': 0.4, 'phase_lb': 0.2, 'phase_ub': 0.1,
         'pol': -1, 'eq_power': False},
        {'t': 'samtone', 'fc': int(fs // 6), 'fm': int(fs // 40), 'level': 1, 'cal': True, 'equalize': False},
        {'t': 'samtone', 'fc': fs / 6.0, 'fm': fs / 40.0, 'level': 0.5, 'cal': True, 'equalize': True},
        {'t': 'silence'},
        {'t': 'silence', 'fill': 2.5},
        {'t': 'bbnoise', 'level': 1.0},
        {'t': 'bbnoise', 'seed': 5, 'level': 0.7, 'pol': -1, 'cal': True},
        {'t': 'blnoise', 'seed': 2, 'level': 1.0, 'fl': fs / 10, 'fh': fs / 5, 'pol': -1, 'discard': False},
        {'t': 'firnoise', 'seed': 0, 'level': 1.0, 'fl': fs / 10, 'fh': fs / 5, 'pol': -1, 'window': 'hamming',
         'equalize': True},
        {'t': 'shaped', 'seed': 0, 'level': 1.0, 'pol': -1, 'window': 'hamming'},
        {'t': 'square', 'level': 1, 'freq': ifreq, 'duty': 0.3},
        {'t': 'square', 'level': 1.5, 'freq': fs / 5.0, 'duty': 0.0},
        {'t': 'square', 'level': 1.5, 'freq': fs / 5.0, 'duty': 1.0},
        {'t': 'square', 'level': 1.5, 'freq': fs, 'duty': 1.0},
        # fixed waveforms: integer / float32 / read-only arrays, empty and one-sample arrays, the other subclass options
        {'t': 'fixed', 'n': 11, 'dtype': 'int16'},
        {'t': 'fixed', 'n': 10, 'dtype': 'float32', 'ro': True},
        {'t': 'fixed', 'n': 0},
        {'t': 'fixed', 'n': 1},
        {'t': 'fixed', 'n': 7, 'cls': 'click', 'pol': 1},
        {'t': 'fixed', 'n': 18, 'cls': 'chirp'},
        {'t': 'fixed', 'n': 17, 'cls': 'wav', 'norm': 'rms', 'path': True},
        {'t': 'fixed', 'n': 19, 'cls': 'wav', 'norm': None},
        # gate: int 0 start, zero duration, rounding ties, bool / int / float32 tokens modified in place
        {'t': 'gate', 'start': 0, 'dur': 7, 'int0': True, 'in': tone},
        {'t': 'gate', 'start': 3, 'dur': 0, 'in': tone},
        {'t': 'gate', 'start': 2.5, 'dur': 6.5, 'in': tone},
        {'t': 'gate', 'start': 2, 'dur': 5, 'in': {'t': 'silence', 'fill': True}},
        {'t': 'gate', 'start': 3, 'dur': 5, 'in': {'t': 'fixed', 'n': 11, 'dtype': 'int16'}},
        {'t': 'gate', 'start': 1, 'dur': 12, 'in': {'t': 'fixed', 'n': 17, 'cls': 'wav'}},
        {'t': 'gate', 'start': 2, 'dur': 9, 'in': {'t': 'square', 'level': 2.0, 'freq': fs / 4.0, 'duty': 0.5}},
        # envelopes: the constructor's default start, int 0 rise, transform, windows with non-zero end points,
        # shortest durations, rounding ties
        {'t': 'env', 'window': 'cos2class', 'start': 0, 'dur': 12, 'rise': 3, 'defstart': True, 'in': tone},
        {'t': 'env', 'window': 'hann', 'start': 0, 'dur': 9, 'rise': 0, 'defstart': True, 'int0': True, 'in': tone},
        {'t': 'env', 'window': 'hann', 'start': 3, 'dur': 14, 'rise': 4, 'transform': 'sq', 'in': sil1},
        {'t': 'env', 'window': 'cosine-squared', 'start': 2.4, 'dur': 11.3, 'rise': None, 'transform': 'sq', 'in': tone},
        {'t': 'env', 'window': 'hamming', 'start': 2, 'dur': 11, 'rise': 3, 'in': sil1},
        {'t': 'env', 'window': 'bartlett', 'start': 1, 'dur': 10, 'rise': 5, 'in': tone},
        {'t': 'env', 'window': 'cosine-squared', 'start': 3, 'dur': 0, 'rise': None, 'in': sil1},
        {'t': 'env', 'window': 'hann', 'start': 2, 'dur': 1, 'rise': None, 'in': sil1},
        {'t': 'env', 'window': 'cosine-squared', 'start': 0, 'dur': 2, 'rise': 1, 'int0': True, 'in': sil1},
        {'t': 'env', 'window': 'cos2class', 'start': 2.5, 'dur': 8.5, 'rise': 1.5, 'in': tone},
        {'t': 'env', 'window': 'cosine-squared', 'start': 2, 'dur': 9, 'rise': 3, 'in': noise},
        # SAM: direction -1, depth 0 (falsy), int 0 delay, finite input
        {'t': 'sam', 'depth': 0.7, 'fm': fs / 12.0, 'delay': 4 / fs, 'direction': -1, 'in': sil1},
        {'t': 'sam', 'depth': 0, 'fm': fs / 12.0, 'delay': 0, 'in': tone},
        {'t': 'sam', 'depth': 0.0, 'fm': fs / 12.0, 'delay': 3.5 / fs, 'direction': -1, 'in': tone},
        {'t': 'sam', 'depth': 1, 'fm': ifreq, 'delay': 5 / fs, 'in': fx},
        # square-wave envelope: the constructor's default alpha, alpha 1 (Hann), on-portion = whole period, finite input
        {'t': 'sqenv', 'depth': 0.8, 'fm': fs / 8.0, 'duty': 1.0, 'alpha': 1.0, 'in': sil1},
        {'t': 'sqenv', 'depth': 1, 'fm': fs / 6.5, 'duty': 0.5, 'alpha': 0.25, 'in': fx},
        # notch over a finite / a deterministic input; repeat: off-grid period and delay, no repetition, one below the
        # length limit, transform of a fixed waveform as input, infinite input (rejected)
        {'t': 'notch', 'f': ifreq, 'q': 2, 'in': fx},
        {'t': 'notch', 'f': fs / 5.0, 'q': 1.33, 'in': tone},
        {'t': 'repeat', 'n': 2, 'skip': 1, 'rate': fs / 12.4, 'delay': 2.6 / fs, 'in': {'t': 'fixed', 'n': 8}},
        {'t': 'repeat', 'n': 0, 'skip': 0, 'rate': fs / 6.0, 'delay': 0, 'in': {'t': 'fixed', 'n': 4}},
        {'t': 'repeat', 'n': 0, 'skip': 2, 'rate': fs / 6.0, 'delay': 0, 'in': {'t': 'fixed', 'n': 4}},
        {'t': 'repeat', 'n': 2, 'skip': 0, 'rate': fs / 10.0, 'delay': 0.0, 'in': {'t': 'fixed', 'n': 9}},
        {'t': 'repeat', 'n': 2, 'skip': 1, 'rate': fs / 11.0, 'delay': 1 / fs,
         'in': {'t': 'sam', 'depth': 1.0, 'fm': fs / 7.0, 'delay': 2 / fs, 'in': {'t': 'fixed', 'n': 9}}},
        {'t': 'repeat', 'n': 2, 'skip': 0, 'rate': fs / 10.0, 'delay': 0.0, 'in': tone},
        # the input factory was in use before it was wrapped (previewed / played out): the wrappers reset it
        {'t': 'repeat', 'n': 2, 'skip': 1, 'rate': fs / 12.0, 'delay': 1 / fs, 'in': {'t': 'fixed', 'n': 8}, 'preplay': 3},
        {'t': 'repeat', 'n': 3, 'skip': 0, 'rate': fs / 10.0, 'delay': 0.0, 'in': {'t': 'fixed', 'n': 9}, 'preplay': 9},
        {'t': 'gate', 'start': 2, 'dur': 9, 'in': fx, 'preplay': 4},
    ]


def has_filter(cfg):
    """a stateful scipy filter somewhere in the chain"""
    return cfg['t'] in ('notch', 'blnoise', 'firnoise', 'shaped') or ('in' in cfg and has_filter(cfg['in']))


def narrow_history(rng):
    """draw counts handed over as NARROW NumPy integers whose running total leaves their range (three times uint8 200,
    int8 100): the generator's own position must not live in the type of the count it was handed"""
    k, n = rng.choice([('npu8', 200), ('npi8', 100), ('npu8', 255), ('npu64', 7), ('npi16', 300)])
    ops = [['next', n, k], ['next', n, k], ['query'], ['next', n, k]]
    if rng.random() < 0.5:
        ops += [['reset'], ['next', 2 * n if k in ('npu64', 'npi16') else n, k], ['next', 5]]
    return ops


def kinds_history(cfg, fs, rng, total=None):
    """one draw history with NumPy-typed draw counts (float-typed ones where the stimulus reports a float count itself),
    the caller writing into every array it receives, queries in between, and a reset followed by a different chunking"""
    B = sorted(boundaries(cfg, fs))
    hi = max(B) + 5
    flt = accepts_float(cfg)
    kinds = ['np64', 'np32'] + (['npf', 'pyf'] if flt else [])
    ops = []
    for rnd in range(2):
        pos = 0
        for _ in range(rng.randint(2, 4)):
            n = rng.choice([1, 2, 3, rng.randint(0, max(hi // 2, 1))])
            ops.append(['next', n, rng.choice(kinds) + '+scr'])
            pos += n
            if rng.random() < 0.5:
                ops.append(['query'])
        if rnd == 1:
            ops.insert(len(ops) - 1, ['next', 0, rng.choice(kinds)])     # a zero-sample draw in mid-stream
        if rng.random() < 0.6:
            ops.append(['rest', 'scr'])          # a zero-sample draw when everything has been drawn already
            ops.append(['next', 2, 'scr'])
        if rnd == 0:
            ops.append(['reset'])
    return ops


def parse_factors(mo):
    n = mo[0]
    return [tuple(mo[1 + 3 * i: 4 + 3 * i]) for i in range(n)]


def frag_values(fs, info, factors):
    """evaluate the recipes of a directly called fragment function (node id 0 = info)"""
    reg = Registry(fs)
    reg.nodes[0] = info
    ev = Evaluator(reg, 0)
    return [ev.factor(*f) for f in factors]


# ---------------------------------------------------------------------------
# memoised functions (fast_cache): sequences of calls in one process whose arguments would collide under a wrong cache
# key - the same values under different keyword names, swapped keyword order, positional vs keyword forms of different
# parameters with equal values, values that hash equal (1 / 1.0 / True, 0 / 0.0 / False, -1 / -2) in one position.
# Every call is judged against the model and against the un-memoised function (__wrapped__).
def _memo_pool(fs, rng, which):
    dk = rng.choice([10, 12, 16])
    rk = rng.choice([2, 3, 4])
    m = rng.choice([3, 5, 7])
    m2 = rng.choice([4, 9])
    d, r = dk / fs, rk / fs
    if which == 'envelope':
        w = rng.choice(['hann', 'cosine-squared', 'blackman', 'hamming'])
        P = lambda *a, **kw: {'fn': 'envelope', 'args': [w, fs] + list(a), 'kw': [[k, v] for k, v in kw.items()]}
        return [P(duration=d, rise_time=r), P(duration=d, start_time=r), P(rise_time=d, duration=r),
                P(start_time=r, duration=d), P(rise_time=r, duration=d), P(start_time=d, duration=r),
                P(d, r), P(d, start_time=r), P(d, None, 0, r), P(d, rise_time=r), P(d, r, m), P(d, r, samples=m),
                P(d, r, offset=m), P(d, r, start_time=m / fs), P(d, r, 0, 0, m), P(d, r, 0, m / fs),
                P(d, r, offset=m, samples=m2), P(d, r, samples=m, offset=m2), P(d, r, m, samples=m2), P(d, r, m2, samples=m),
                P(d, r, 0, 0.0), P(d, r, 0, False), P(d, r, False, 0), P(d, r, 1), P(d, r, True),
                P(d, r, 0, 0, 1), P(d, r, 0, 0, True), P(d, 0), P(d, False), P(d, 0.0), P(d, None), P(d),
                P(d, r, transform=None), P(d, r, 0, 0, 'auto'), P(duration=d, rise_time=r, start_time=0),
                P(duration=d, rise_time=r, offset=0), P(duration=d, rise_time=0, start_time=r),
                P(duration=d, start_time=0, rise_time=r)]
    if which == 'cos2envelope':
        P = lambda *a, **kw: {'fn': 'cos2envelope', 'args': [fs] + list(a), 'kw': [[k, v] for k, v in kw.items()]}
        return [P(d, r), P(duration=d, rise_time=r), P(rise_time=d, duration=r), P(rise_time=r, duration=d),
                P(d, rise_time=r), P(d, r, m), P(d, r, offset=m), P(d, r, samples=m), P(d, r, start_time=m / fs),
                P(d, r, 0, m / fs), P(d, r, 0, 0, m), P(d, r, offset=m, samples=m2), P(d, r, samples=m, offset=m2),
                P(d, r, 1), P(d, r, True), P(d, r, 0, False), P(d, r, 0, 0.0), P(d, 0), P(d, False), P(d, None),
                P(d, rise_time=None, start_time=r), P(d, start_time=None or 0, rise_time=r)]
    fm, dl = fs / 25.0, 4 / fs
    o, n = rng.choice([0, 2, 5]), rng.choice([9, 12])
    if which == 'sam_envelope':
        P = lambda *a, **kw: {'fn': 'sam_envelope', 'args': list(a), 'kw': [[k, v] for k, v in kw.items()]}
        return [P(o, n, fs, 0.5, fm, dl, True), P(o, n, fs, depth=0.5, fm=fm, delay=dl, equalize=True),
                P(o, n, fs, depth=0.5, delay=fm, fm=dl, equalize=True), P(o, n, fs, fm=fm, depth=0.5, equalize=True, delay=dl),
                P(o, n, fs, 0.5, fm, dl, 1), P(o, n, fs, 0.5, fm, dl, False), P(o, n, fs, 0.5, fm, dl, 0),
                P(o, n, fs, 1, fm, dl, True), P(o, n, fs, 1.0, fm, dl, True), P(o, n, fs, True, fm, dl, True),
                P(o, n, fs, 0, fm, dl, True), P(o, n, fs, 0.0, fm, dl, True), P(o, n, fs, False, fm, dl, True),
                P(o, n, fs, 0.5, fm, 0, True), P(o, n, fs, 0.5, fm, False, True), P(o, n, fs, 0.5, fm, 0.0, True),
                P(-1, n, fs, 0.5, fm, dl, True), P(-2, n, fs, 0.5, fm, dl, True), P(n, o, fs, 0.5, fm, dl, True),
                P(offset=o, samples=n, fs=fs, depth=0.5, fm=fm, delay=dl, equalize=True),
                P(samples=o, offset=n, fs=fs, depth=0.5, fm=fm, delay=dl, equalize=True)]
    P = lambda *a, **kw: {'fn': '_sam_envelope', 'args': list(a), 'kw': [[k, v] for k, v in kw.items()]}
    return [P(o, n, fs, 0.5, fm, dl, 0.7, 1.3), P(o, n, fs, 0.5, fm, dl, eq_phase=0.7, eq_power=1.3),
            P(o, n, fs, 0.5, fm, dl, eq_power=0.7, eq_phase=1.3), P(o, n, fs, 0.5, fm, dl, eq_power=1.3, eq_phase=0.7),
            P(o, n, fs, 0.5, fm, dl, 1.3, 0.7), P(o, n, fs, 0.5, fm, dl, 0, 1), P(o, n, fs, 0.5, fm, dl, False, True),
            P(o, n, fs, 0.5, fm, dl, 0.0, 1.0), P(-1, n, fs, 0.5, fm, dl, 0.7, 1.3), P(-2, n, fs, 0.5, fm, dl, 0.7, 1.3),
            P(o, n, fs, 0.5, fm, delay=dl, eq_phase=0.7, eq_power=1.3), P(o, n, fs, 0.5, fm, eq_phase=dl, delay=0.7, eq_power=1.3)]


def memo_cases(fs, rng, count, kinds):
    for _ in range(count):
        pool = _memo_pool(fs, rng, rng.choice(kinds))
        yield {'k': 'memo', 'fs': fs, 'calls': [rng.choice(pool) for _ in range(rng.randint(3, 6))]}


def _memo_fn(name):
    from psiaudio import stim
    return getattr(stim, name)


def _memo_call(call, wrapped=False):
    fn = _memo_fn(call['fn'])
    if wrapped:
        fn = fn.__wrapped__
    try:
        return ['ok', [float(v) for v in fn(*call['args'], **dict(call['kw']))]]
    except ValueError:
        return ['raise']


def memo_impl(case):
    return [_memo_call(c) for c in case['calls']]


def _memo_bound(call):
    import inspect
    b = inspect.signature(_memo_fn(call['fn']).__wrapped__).bind(*call['args'], **dict(call['kw']))
    b.apply_defaults()
    a = dict(b.arguments)
    if call['fn'] == 'cos2envelope':
        a['window'] = 'cosine-squared'
    return a


def _memo_env_params(a):
    """the integers stim.envelope derives, with its own float expressions"""
    fs = a['fs']
    elb = int(round(a['start_time'] * fs))
    dur = int(round(a['duration'] * fs))
    rise = int(np.floor(dur / 2)) if a['rise_time'] is None else int(round(a['rise_time'] * fs))
    n = elb + dur if a['samples'] == 'auto' else int(a['samples'])
    return elb, dur, rise, int(a['offset']), n


def memo_expr(case):
    parts = []
    for c in case['calls']:
        a = _memo_bound(c)
        if c['fn'] in ('envelope', 'cos2envelope'):
            parts.append('run_envelope ' + ' '.join(zlit(v) for v in _memo_env_params(a)))
        else:
            parts.append(f"run_sam {zlit(int(a['delay'] * a['fs']))} {zlit(int(a['offset']))} {zlit(int(a['samples']))}")
    return ' ++ '.join(f'({p})' for p in parts)


def memo_agree(case, res, mo):
    pos = 0
    for i, (c, r) in enumerate(zip(case['calls'], res)):
        a = _memo_bound(c)
        env = c['fn'] in ('envelope', 'cos2envelope')
        if env:
            code = mo[pos]
            pos += 1
            if code == 2:
                if r[0] != 'raise':
                    return f'call {i} {c}: model raises ValueError, implementation returned an envelope'
                continue
            if r[0] == 'raise':
                return f'call {i} {c}: implementation raised ValueError, model returned an envelope'
        n = mo[pos]
        factors = parse_factors(mo[pos:])
        pos += 1 + 3 * n
        if env:
            info = {'kind': 'ramp', 'window': a['window'], 'rise': _memo_env_params(a)[2]}
        else:
            cfg = {'depth': a['depth'], 'fm': a['fm'], 'delay': a['delay']}
            if c['fn'] == '_sam_envelope':
                cfg.update(eq_phase=a['eq_phase'], eq_power=a['eq_power'])
            elif not a['equalize']:
                cfg.update(eq_phase=0, eq_power=1)
            info = {'kind': 'sam', 'cfg': cfg}
        want = frag_values(a['fs'], info, factors)
        if r[1] != want:
            return f'call {i} {c}: returned {r[1]}, model recipes evaluate to {want}'
    return None


def memo_oracle(case, res):
    for i, (c, r) in enumerate(zip(case['calls'], res)):
        w = _memo_call(c, wrapped=True)
        if r != w:
            return (f'call {i} of the sequence, {c["fn"]}(*{c["args"]}, **{dict(c["kw"])}), returned '
                    f'{r if r[0] == "raise" else r[1]} but the un-memoised function gives {w if w[0] == "raise" else w[1]}')
    return None
