"""C01 - stimulus generators are chunk-invariant.  Model: coq/Stim/Model.v (outputs printed by coqc, compared here)."""
from fractions import Fraction
import numpy as np
import stimcore as sc
from vlib import zlit

PROP = 'C01'
REQUIRES = ['Stim.Model', 'Stim.Spec']
RULE = ('for every generator configuration of a catalogue (all carrier classes, gate, envelopes with 4 windows, SAM with '
        'on/off-grid delays, square-wave envelope with integer/half-integer/fractional periods, notch filter, repeat, depth-3 '
        'compositions; thorough: + 40 random compositions per rate) at rates 1000 / 25000 / 44100 / 48828.125 / 195312.5 Hz: '
        'two-chunk histories (o, n) with o and o+n within +-2 of every boundary the parameters induce (quick: seeded sample of them; '
        'thorough: all), plus random 2-7 chunk histories with resets; fragment functions envelope/_sam_envelope/square_wave at '
        'the same windows. The model prints a symbolic recipe per sample; the harness evaluates it with one-shot elementary '
        'functions and compares bit-exactly (FIR noise 1e-12). Non-trivial: at least two chunks and a non-carrier node or a noise/filter carrier.')
TRUSTED = ['harness/stimcore.py (factory builder, recipe evaluator using one-shot carrier / scipy window / one-shot filter, decoder)',
           'per-index carriers (cos of an index), RandomState streams and scipy lfilter are oracles: their own chunk-invariance is '
           'what the oracle() tests directly (chunked == one-shot), not something the model proves']
ASSUMPTIONS = ['times are passed as k/fs; the effective sample counts are computed with the code\'s own int(round(t*fs))',
               'square-wave envelope periods: float arithmetic of fs/fm is modelled as exact rational arithmetic of that double',
               'WavSequenceFactory/load_wav are not modelled']
FS = [1000.0, 25000.0, 44100.0, 48828.125, 195312.5]


def cases(tier, rng):
    quick = tier == 'quick'
    for fs in FS:
        cat = sc.catalogue(fs, rng, rich=not quick)
        for cfg in cat:
            B = sorted(sc.boundaries(cfg, fs))
            pts = sorted({b + d for b in B for d in (-2, -1, 0, 1, 2) if b + d >= 0})
            pairs = [(o, e - o) for o in pts for e in pts if e > o] + [(o, 1) for o in pts]
            if quick:
                rng.shuffle(pairs)
                pairs = pairs[:14]
            for o, n in pairs:
                ops = ([['next', o]] if o > 0 else []) + [['next', n]]
                yield {'k': 'gen', 'fs': fs, 'cfg': cfg, 'ops': ops}
            hi = max(B) + 6
            for _ in range(3 if quick else 25):
                ops = []
                for _ in range(rng.randint(2, 7)):
                    u = rng.random()
                    ops.append(['reset'] if u < 0.12 else ['next', rng.choice([1, 2, 3, rng.randint(1, hi)])])
                yield {'k': 'gen', 'fs': fs, 'cfg': cfg, 'ops': ops}
    # fragment functions called directly
    for fs in FS:
        for _ in range(60 if quick else 1500):
            start, dur = rng.randint(0, 10), rng.randint(0, 24)
            rise = rng.choice([None, rng.randint(0, dur // 2)])
            o = rng.randint(0, start + dur + 4)
            n = rng.randint(0, start + dur + 6)
            yield {'k': 'envelope', 'fs': fs, 'window': rng.choice(['cosine-squared', 'hann']), 'start': start, 'dur': dur,
                   'rise': rise, 'o': o, 'n': n}
        for _ in range(30 if quick else 600):
            D = rng.randint(0, 15)
            yield {'k': 'samenv', 'fs': fs, 'delay': rng.choice([D / fs, (D + 0.6) / fs]), 'fm': fs / rng.uniform(5, 30),
                   'depth': rng.choice([1.0, 0.5]), 'o': rng.randint(0, 25), 'n': rng.randint(0, 25)}
        for _ in range(30 if quick else 600):
            yield {'k': 'sqwave', 'fs': fs, 'fm': fs / rng.choice([8.0, 10.0, 12.5, 7.25, 16.0, 6.5]),
                   'depth': rng.choice([1.0, 0.7]), 'duty': rng.choice([0.25, 0.5, 0.4]), 'alpha': rng.choice([0, 0.5]),
                   'o': rng.randint(0, 60), 'n': rng.randint(1, 40)}


def impl(case):
    from psiaudio import stim
    fs = case['fs']
    k = case['k']
    if k == 'gen':
        return sc.run_impl(case['cfg'], fs, case['ops'])
    if k == 'envelope':
        rise = None if case['rise'] is None else case['rise'] / fs
        try:
            e = stim.envelope(case['window'], fs, case['dur'] / fs, rise, case['o'], case['start'] / fs, case['n'])
            return ['ok', [float(v) for v in e]]
        except ValueError:
            return ['raise']
    if k == 'samenv':
        e = stim.sam_envelope(case['o'], case['n'], fs, case['depth'], case['fm'], case['delay'], True)
        return ['ok', [float(v) for v in e]]
    if k == 'sqwave':
        e = stim.square_wave(fs, case['o'], case['n'], case['depth'], case['fm'], case['duty'], case['alpha'])
        return ['ok', [float(v) for v in e]]
    raise KeyError(k)


def _frag_params(case):
    fs = case['fs']
    dur = sc.eff(case['dur'], fs)
    rise = int(np.floor(dur / 2)) if case['rise'] is None else sc.eff(case['rise'], fs)
    return sc.eff(case['start'], fs), dur, rise


def expr(case, res):
    """model outputs ++ [1/0]: the last element is the executable form of the Props/C01.v statement on this case"""
    fs = case['fs']
    k = case['k']
    if k == 'gen':
        reg = sc.Registry(fs)
        g = sc.coq_gen(case['cfg'], reg)
        # chunk list of the first reset-free segment, for the spec test
        cs = []
        for o in case['ops']:
            if o[0] == 'reset':
                break
            if o[0] == 'next':
                cs.append(o[1])
        from vlib import zlist
        return f"run_gen {g} {sc.coq_ops(case['ops'])} ++ spec_ok_Z {g} {zlist(cs)}"
    if k == 'envelope':
        elb, dur, rise = _frag_params(case)
        a = f"{zlit(elb)} {zlit(dur)} {zlit(rise)} {zlit(case['o'])} {zlit(case['n'])}"
        return f"run_envelope {a} ++ frag_ok_envelope {a}"
    if k == 'samenv':
        a = f"{zlit(int(case['delay'] * fs))} {zlit(case['o'])} {zlit(case['n'])}"
        return f"run_sam {a} ++ frag_ok_sam {a}"
    if k == 'sqwave':
        P = fs / case['fm']
        duty = int(round(case['duty'] * P))
        a = f"{sc.qlit(Fraction(P))} {zlit(duty)} {zlit(case['o'])} {zlit(case['n'])}"
        return f"run_sqenv {a} ++ frag_ok_sqenv {a}"


def _frag_eval(case, factors):
    """evaluate recipes of the directly-called fragment functions (node id 0)"""
    from psiaudio import stim
    from scipy import signal
    fs = case['fs']
    k = case['k']
    reg = sc.Registry(fs)
    if k == 'envelope':
        _, _, rise = _frag_params(case)
        reg.nodes[0] = {'kind': 'ramp', 'window': case['window'], 'rise': rise}
    elif k == 'samenv':
        reg.nodes[0] = {'kind': 'sam', 'cfg': {'depth': case['depth'], 'fm': case['fm'], 'delay': case['delay']}}
    else:
        P = fs / case['fm']
        reg.nodes[0] = {'kind': 'sqenv', 'duty': int(round(case['duty'] * P)),
                        'cfg': {'depth': case['depth'], 'alpha': case['alpha']}}
    ev = sc.Evaluator(reg, 0)
    return [ev.factor(*f) for f in factors]


def agree(case, res, mo):
    if mo[-1] != 1:
        return 'the executable form of the C01 statement (spec_ok / frag_ok) is false on this case'
    mo = mo[:-1]
    if case['k'] == 'gen':
        reg = sc.Registry(case['fs'])
        sc.coq_gen(case['cfg'], reg)
        return sc.compare(case['cfg'], case['fs'], reg, case['ops'], res, mo)
    if case['k'] == 'envelope':
        if mo[0] == 2:
            return None if res[0] == 'raise' else 'model raises ValueError, implementation returned an envelope'
        if res[0] == 'raise':
            return 'implementation raised ValueError, model returned an envelope'
        mo = mo[1:]
    n = mo[0]
    factors = [tuple(mo[1 + 3 * i: 4 + 3 * i]) for i in range(n)]
    want = _frag_eval(case, factors)
    got = res[1]
    if len(got) != len(want):
        return f'implementation returned {len(got)} samples, model {len(want)}'
    for j, (g, w) in enumerate(zip(got, want)):
        if g != w:
            return f'sample {j}: implementation {g!r}, model recipe {factors[j]} = {w!r}'
    return None


def nontrivial(case, res):
    if case['k'] != 'gen':
        return case['n'] > 0 and case['o'] > 0
    nexts = [o for o in case['ops'] if o[0] == 'next']
    return len(nexts) >= 2 and (case['cfg']['t'] not in ('tone', 'silence', 'samtone'))


def oracle(case, res):
    """chunk invariance on the implementation alone: history output == one fresh single request."""
    fs = case['fs']
    if case['k'] == 'gen':
        if res and res[0][0] == 'ctor-raise':
            return None
        # split the history at resets; each segment must equal a prefix of one fresh one-shot request
        segs, cur = [], []
        for o, r in zip(case['ops'], res):
            if o[0] == 'reset':
                segs.append(cur)
                cur = []
            elif o[0] == 'next':
                if r[0] == 'raise':
                    return None     # rise time too long etc.: nothing to compare
                cur.extend(r[1])
        segs.append(cur)
        n = max(len(s) for s in segs)
        if n == 0:
            return None
        one = np.asarray(sc.mk(case['cfg'], fs).next(n), dtype=float)
        tol = 1e-12 * max(np.max(np.abs(one)), 1e-300) if sc.has_fir(case['cfg']) else 0.0
        for s in segs:
            s = np.asarray(s, dtype=float)
            d = np.abs(s - one[:len(s)])
            if len(s) and not np.all(d <= tol):
                j = int(np.argmax(d > tol))
                return (f'chunked stream differs from a single request at sample {j}: {s[j]!r} vs {one[j]!r} '
                        f'(history {case["ops"]})')
        return None
    from psiaudio import stim
    if res[0] == 'raise':
        return None
    o, n = case['o'], case['n']
    if case['k'] == 'envelope':
        rise = None if case['rise'] is None else case['rise'] / fs
        full = stim.envelope(case['window'], fs, case['dur'] / fs, rise, 0, case['start'] / fs, o + n)
    elif case['k'] == 'samenv':
        full = stim.sam_envelope(0, o + n, fs, case['depth'], case['fm'], case['delay'], True)
    else:
        full = stim.square_wave(fs, 0, o + n, case['depth'], case['fm'], case['duty'], case['alpha'])
    want = [float(v) for v in full[o:o + n]]
    if res[1] != want:
        j = [a != b for a, b in zip(res[1], want)].index(True) if len(res[1]) == len(want) else -1
        return f'{case["k"]} fragment [{o},{o + n}) differs from the slice of the full envelope at {j}'
    return None


def distribution(cases, results):
    d = {}
    for c in cases:
        key = c['k'] if c['k'] != 'gen' else 'gen:' + c['cfg']['t']
        d[key] = d.get(key, 0) + 1
    return d
