"""C01 - stimulus generators are chunk-invariant.  Model: coq/Stim/Model.v (outputs printed by coqc, compared here)."""
from fractions import Fraction
import numpy as np
import stimcore as sc
from vlib import zlit

PROP = 'C01'
REQUIRES = ['Stim.Model', 'Stim.Spec']
RULE = ('for every generator configuration of a catalogue (all carrier classes, gate, envelopes with 5 windows, SAM with '
        'on/off-grid delays, square-wave envelope with integer/half-integer/fractional periods, notch filter, repeat, depth-3 '
        'compositions; thorough: + 40 random compositions per rate) and of an audit catalogue (every non-default constructor keyword, '
        'integer-typed frequencies/levels, defaults left to the constructor, falsy values 0 / 0.0 / int 0 times / depth 0 / duty 0 and 1, '
        'int16 / float32 / bool / read-only token arrays, empty and one-sample waveforms, wav files by str and Path with the three '
        'normalisations, rounding ties x.5, pointwise envelope transform, repeat with off-grid period/delay, n = 0, infinite input) '
        'at rates 1000 / 25000 / 44100 / 48828.125 / 195312.5 Hz: '
        'two-chunk histories (o, n) with o and o+n within +-2 of every boundary the parameters induce (quick: seeded sample of them; '
        'thorough: all), random 2-7 chunk histories with resets, and histories with NumPy int32/int64 (and, where the stimulus reports '
        'a float count itself, float) draw counts, zero-sample draws, queries in between, get_samples_remaining(), and the caller '
        'overwriting every array it receives; the fragment functions envelope / cos2envelope / sam_envelope / _sam_envelope / '
        'square_wave called positionally and by keyword, on- and off-grid, samples="auto", NumPy-typed offsets, offsets far past the '
        'end, fragments at ==/-1/+1 of every segment boundary, and called twice with the caller writing into the first (memoised) '
        'result; sequences of memoised calls whose arguments collide under a wrong cache key, each judged against the model and the '
        'un-memoised function; tone / sam_tone fragments and the seconds-based `duration` variant, the noise functions and ramped_tone against '
        'their factory twins; WavSequenceFactory (float / int rate, resampled files, both normalisations). The model prints a symbolic recipe per sample; the harness evaluates it with one-shot elementary '
        'functions and compares bit-exactly (FIR noise 1e-12). Non-trivial: at least two chunks and a non-carrier node or a noise/filter carrier.')
TRUSTED = ['harness/stimcore.py (factory builder, recipe evaluator using one-shot carrier / scipy window / one-shot filter, decoder)',
           'per-index carriers (cos of an index), RandomState streams and scipy lfilter are oracles: their own chunk-invariance is '
           'what the oracle() tests directly (chunked == one-shot), not something the model proves']
ASSUMPTIONS = ['between every two operations the harness reseeds and draws from NumPy\'s global generator and draws from a second noise '
               'generator of the same class and seed',
               'times are passed as k/fs; the effective sample counts are computed with the code\'s own int(round(t*fs))',
               'square-wave envelope periods: float arithmetic of fs/fm is modelled as exact rational arithmetic of that double',
               'WavSequenceFactory is a stream carrier (its queue logic is C02\'s subject): the harness sorts its wav files by name '
               'after construction because the class takes them in directory-listing order',
               'noise factories with seed=None are not reproducible by design and are outside the property']
FS = [1000.0, 25000.0, 44100.0, 48828.125, 195312.5]


WINDOWS = ['cosine-squared', 'hann', 'hamming', 'blackman', 'bartlett']


def cases(tier, rng):
    quick = tier == 'quick'
    for fs in FS:
        cat = sc.catalogue(fs, rng, rich=not quick)
        extra = sc.catalogue_extra(fs)
        for ci, cfg in enumerate(cat + extra):
            is_extra = ci >= len(cat)
            B = sorted(sc.boundaries(cfg, fs))
            pts = sorted({b + d for b in B for d in (-2, -1, 0, 1, 2) if b + d >= 0})
            pairs = [(o, e - o) for o in pts for e in pts if e > o] + [(o, 1) for o in pts]
            if quick:
                rng.shuffle(pairs)
                pairs = pairs[:7 if is_extra else 14]
            for o, n in pairs:
                ops = ([['next', o]] if o > 0 else []) + [['next', n]]
                yield {'k': 'gen', 'fs': fs, 'cfg': cfg, 'ops': ops}
            hi = max(B) + 6
            for _ in range(3 if quick else 25):
                ops = []
                for _ in range(rng.randint(2, 7)):
                    u = rng.random()
                    ops.append(['reset'] if u < 0.12 else ['next', rng.choice([1, 2, 3, rng.randint(1, hi)])])
                yield {'k': 'gen', 'fs': fs, 'cfg': cfg, 'ops': ops}
            # NumPy-typed / float-typed draw counts, caller writing into the returned arrays, queries, reset, rest
            for _ in range(2 if quick else 8):
                yield {'k': 'gen', 'fs': fs, 'cfg': cfg, 'ops': sc.kinds_history(cfg, fs, rng)}
                yield {'k': 'gen', 'fs': fs, 'cfg': cfg, 'ops': sc.narrow_history(rng)}
    # fragment functions called directly
    for fs in FS:
        for i in range(110 if quick else 2500):
            grid = i % 2 == 0
            start = rng.randint(0, 10) if grid else rng.choice([rng.uniform(0, 10), rng.randint(0, 9) + 0.5])
            dur = rng.randint(0, 24) if grid else rng.choice([rng.uniform(0, 24), rng.randint(0, 23) + 0.5])
            rise = rng.choice([None, rng.randint(0, int(dur) // 2) if grid else rng.uniform(0, dur / 2)])
            tot = int(start + dur)
            call = rng.choice(['pos', 'kw', 'cos2'])
            c = {'k': 'envelope', 'fs': fs, 'window': 'cosine-squared' if call == 'cos2' else rng.choice(WINDOWS),
                 'start': start, 'dur': dur, 'rise': rise, 'o': rng.randint(0, tot + 4),
                 'n': rng.choice(['auto', rng.randint(0, tot + 6), rng.randint(0, tot + 6)]), 'call': call}
            if call == 'kw' and rng.random() < 0.4:
                c['tr'] = 'sq'
            if rng.random() < 0.3:
                c['np'] = True              # NumPy integers for offset / samples
            if rng.random() < 0.3:
                c['scr'] = True             # the caller tries to write into the result, then asks again
            if rng.random() < 0.2:
                c['int0'] = True            # int 0 instead of 0.0 for zero times
            if rng.random() < 0.08:
                c['o'] = rng.choice([10 ** 6, 10 ** 9 + 7, 2 ** 40])    # far past the end
            yield c
        # envelope fragments placed at the segment boundaries (==, one below, one above)
        for (start, dur, rise) in [(3, 12, 4), (2.4, 9.4, 3.3), (0, 8, None), (5, 7, 0)]:
            elb, d = sc.eff(start, fs), sc.eff(dur, fs)
            r = d // 2 if rise is None else sc.eff(rise, fs)
            pts = sorted({b + e for b in (0, elb, elb + r, elb + d - r, elb + d) for e in (-1, 0, 1) if b + e >= 0})
            prs = [(a, b - a) for a in pts for b in pts if b >= a]
            rng.shuffle(prs)
            for (o, n) in prs[:8 if quick else 200]:
                yield {'k': 'envelope', 'fs': fs, 'window': rng.choice(WINDOWS), 'start': start, 'dur': dur, 'rise': rise,
                       'o': o, 'n': n, 'call': rng.choice(['pos', 'kw'])}
        for i in range(60 if quick else 1200):
            D = rng.randint(0, 15)
            delay = rng.choice([D / fs, (D + 0.6) / fs, 0])
            o = rng.choice([rng.randint(0, 25), max(int(delay * fs) + rng.randint(-1, 1), 0)])
            c = {'k': 'samenv', 'fs': fs, 'delay': delay, 'fm': rng.choice([fs / rng.uniform(5, 30), max(int(fs // 9), 1)]),
                 'depth': rng.choice([1.0, 0.5, 1, 0, 0.0]), 'o': o, 'n': rng.randint(0, 25),
                 'mode': rng.choice(['eq', 'eq', 'noeq', 'direct'])}
            if c['mode'] == 'direct':       # _sam_envelope with explicit phase / power
                c['eq_phase'], c['eq_power'] = rng.choice([(0.7, 1.3), (3.141592653589793, 0.75), (0, 1)])
            if rng.random() < 0.3:
                c['np'] = True
            if rng.random() < 0.3:
                c['scr'] = True
            yield c
        for _ in range(60 if quick else 1200):
            c = {'k': 'sqwave', 'fs': fs, 'fm': fs / rng.choice([8.0, 10.0, 12.5, 7.25, 16.0, 6.5]),
                 'depth': rng.choice([1.0, 0.7, 1]), 'duty': rng.choice([0.25, 0.5, 0.4, 0.4, 1.0, 0.0]),
                 'alpha': rng.choice([None, 0, 0.5, 1.0]), 'o': rng.randint(0, 60), 'n': rng.randint(0, 40)}
            if rng.random() < 0.3:
                c['np'] = True
            yield c
    # memoised fragment functions: call sequences whose arguments collide under a wrong cache key
    for fs in FS:
        yield from sc.memo_cases(fs, rng, 30 if quick else 400, ['envelope', 'cos2envelope', 'sam_envelope', '_sam_envelope'])
    # one-shot functions and their factory twins: tone / sam_tone fragments (offset, samples) and the seconds-based
    # `duration` variant; the noise functions; ramped_tone
    for fs in FS:
        ifreq = max(int(fs // 8), 1)
        tones = [{'t': 'tone', 'f': fs / 8.0, 'level': 1.5, 'phase': 0.3}, {'t': 'tone', 'f': ifreq, 'level': 2, 'pol': -1},
                 {'t': 'tone', 'f': fs / 11.3, 'level': 0.8, 'cal': True}]
        sams = [{'t': 'samtone', 'fc': fs / 6.0, 'fm': fs / 40.0, 'level': 1.0},
                {'t': 'samtone', 'fc': fs / 6.0, 'fm': fs / 40.0, 'level': 1.0, 'phase': 0.4, 'phase_lb': 0.2, 'phase_ub': 0.1,
                 'pol': -1, 'eq_power': False},
                {'t': 'samtone', 'fc': int(fs // 6), 'fm': int(fs // 40), 'level': 1, 'cal': True, 'equalize': False}]
        for cfg in tones + sams:
            for _ in range(4 if quick else 40):
                c = {'k': 'fn', 'fs': fs, 'cfg': cfg, 'mode': 'frag', 'o': rng.randint(0, 30), 'n': rng.randint(0, 20)}
                if rng.random() < 0.4:
                    c['np'] = True
                yield c
            for dur in [0, 1, 7, 7.4, 7.5, 7.6, 8.5, rng.uniform(0, 30)]:
                yield {'k': 'fn', 'fs': fs, 'cfg': cfg, 'mode': 'dur', 'dur': dur}
        bl = {'t': 'blnoise', 'level': 1.0, 'fl': fs / 10, 'fh': fs / 5}
        for cfg in [{'t': 'bbnoise', 'level': 1.0}, {'t': 'bbnoise', 'seed': 5, 'level': 0.7, 'pol': -1, 'cal': True},
                    {'t': 'bbnoise', 'seed': 0, 'level': 0.7},
                    dict(bl, seed=1, deffn=True), dict(bl, seed=4, pol=-1), dict(bl, seed=0),
                    {'t': 'firnoise', 'seed': 0, 'level': 1.0, 'fl': fs / 10, 'fh': fs / 5, 'pol': -1, 'window': 'hamming',
                     'equalize': True},
                    {'t': 'firnoise', 'seed': 3, 'level': 1.0, 'fl': fs / 10, 'fh': fs / 5, 'equalize': False},
                    {'t': 'shaped', 'seed': 0, 'level': 1.0, 'pol': -1, 'window': 'hamming'},
                    {'t': 'shaped', 'seed': 8, 'level': 1.0},
                    {'t': 'notch', 'f': fs / 8.0, 'q': 1.33, 'in': {'t': 'bbnoise', 'seed': 11, 'level': 1.0}},
                    {'t': 'notch', 'f': ifreq, 'q': 2, 'in': {'t': 'bbnoise', 'seed': 0, 'level': 0.5, 'pol': -1}},
                    {'t': 'env', 'window': 'cosine-squared', 'start': 0, 'dur': 12.4, 'rise': 2.7, 'in': tones[0], 'deffn': True},
                    {'t': 'env', 'window': 'hann', 'start': 0, 'dur': 9, 'rise': None, 'in': tones[0]},
                    {'t': 'env', 'window': 'blackman', 'start': 0, 'dur': 10, 'rise': 0, 'int0': True, 'in': tones[2]},
                    {'t': 'env', 'window': 'hann', 'start': 0, 'dur': 9, 'rise': 5, 'in': tones[0]}]:
            durs = [7, 7.6] if 'dur' not in cfg else [cfg['dur']]
            for dur in durs:
                yield {'k': 'fn', 'fs': fs, 'cfg': cfg, 'mode': 'dur', 'dur': dur}
    # WavSequenceFactory (a blocked-random queue of wav files behind the generator interface; trials = inf, so it never
    # runs dry): an ordinary stream carrier, float and int sampling rates, with and without resampling of the files
    for fs in [1000.0, 1000, 44100.0, 48828.125]:
        for cfg in [{'t': 'wavseq'}, {'t': 'wavseq', 'norm': 'rms'}]:
            unit = max(int(round(fs / 1000)), 1)        # samples per sample of the 1000 Hz files
            for chunks in [[3, 4], [10, 1, 20], [7, 11, 5, 7], [6, 1, 1, 10, 1, 1, 4, 1, 1], [23, 23], [40]]:
                ops = [['next', n * unit if unit < 10 else n] for n in chunks]
                yield {'k': 'gen', 'fs': fs, 'cfg': cfg, 'ops': ops}
                yield {'k': 'gen', 'fs': fs, 'cfg': cfg, 'ops': ops[:2] + [['query'], ['reset']] + ops}
            for _ in range(3 if quick else 20):
                yield {'k': 'gen', 'fs': fs, 'cfg': cfg, 'ops': sc.kinds_history(cfg, fs, rng)}
                yield {'k': 'gen', 'fs': fs, 'cfg': cfg, 'ops': sc.narrow_history(rng)}
                ops = []
                for _ in range(rng.randint(2, 6)):
                    ops.append(['reset'] if rng.random() < 0.12 else ['next', rng.choice([1, 2, 7, rng.randint(0, 30)])])
                yield {'k': 'gen', 'fs': fs, 'cfg': cfg, 'ops': ops}


def _ival(v, case):
    return np.int64(v) if case.get('np') else v


def _env_call(case, o, n):
    """stim.envelope / cos2envelope for the fragment (o, n) in the call style the case asks for"""
    from psiaudio import stim
    fs = case['fs']
    cfg = {'start': case['start'], 'dur': case['dur'], 'rise': case['rise'], 'int0': case.get('int0')}
    start, dur, rise = (sc.tsec(cfg, k, fs) for k in ('start', 'dur', 'rise'))
    o = _ival(o, case)
    n = n if n == 'auto' else _ival(n, case)
    call = case.get('call', 'pos')
    if call == 'cos2':
        return stim.cos2envelope(fs, dur, rise, offset=o, start_time=start, samples=n)
    if call == 'kw':
        kw = {'transform': sc.TRANSFORMS[case['tr']]} if case.get('tr') else {}
        return stim.envelope(window=case['window'], fs=fs, duration=dur, rise_time=rise, offset=o, start_time=start,
                             samples=n, **kw)
    if n == 'auto':
        return stim.envelope(case['window'], fs, dur, rise, o, start)
    return stim.envelope(case['window'], fs, dur, rise, o, start, n)


def _sam_call(case, o, n):
    from psiaudio import stim
    fs = case['fs']
    o, n = _ival(o, case), _ival(n, case)
    mode = case.get('mode', 'eq')
    if mode == 'direct':
        return stim._sam_envelope(o, n, fs, case['depth'], case['fm'], case['delay'], case['eq_phase'], case['eq_power'])
    return stim.sam_envelope(o, n, fs, case['depth'], case['fm'], case['delay'], mode == 'eq')


def _sq_call(case, o, n):
    from psiaudio import stim
    o, n = _ival(o, case), _ival(n, case)
    a = () if case.get('alpha') is None else (case['alpha'],)
    return stim.square_wave(case['fs'], o, n, case['depth'], case['fm'], case['duty'], *a)


def _twice(case, call):
    """call; optionally let the caller write into the result and call again (a memoised result must not change)"""
    e = call()
    first = [float(v) for v in e]
    if not case.get('scr'):
        return ['ok', first]
    sc.scribble(e)
    return ['ok', first, [float(v) for v in call()]]


def _fn_call(case):
    """the one-shot function twin of the factory sc.mk(case['cfg']) builds"""
    from psiaudio import stim
    fs, cfg = case['fs'], case['cfg']
    t = cfg['t']
    if case['mode'] == 'frag':
        o, n = _ival(case['o'], case), _ival(case['n'], case)
        sel = [dict(samples=o), dict(samples=n, offset=o)]
    else:
        sel = [dict(duration=case['dur'] / fs)]
    out = []
    for i, kw in enumerate(sel):
        sc.disturb_global_rng(i)
        if t == 'tone':
            a = stim.tone(fs, cfg['f'], cfg['level'], **sc._kw(cfg, {'phase': 'phase', 'pol': 'polarity'}), **kw)
        elif t == 'samtone':
            a = stim.sam_tone(fs, cfg['fc'], cfg['fm'], cfg['level'],
                              **sc._kw(cfg, {'phase': 'phase', 'phase_lb': 'phase_lb', 'phase_ub': 'phase_ub', 'pol': 'polarity',
                                             'eq_power': 'eq_power', 'equalize': 'equalize'}), **kw)
        elif t == 'bbnoise':
            a = stim.broadband_noise(fs, cfg['level'], **sc._kw(cfg, {'seed': 'seed', 'pol': 'polarity'}), **kw)
        elif t == 'blnoise':
            if cfg.get('deffn'):        # the function's own defaults (roll-off 1, 1 / 80 dB, seed 1)
                a = stim.bandlimited_noise(fs, cfg['level'], cfg['fl'], cfg['fh'], **kw)
            else:
                a = stim.bandlimited_noise(fs, cfg['level'], cfg['fl'], cfg['fh'], filter_rolloff=1, passband_attenuation=1,
                                           stopband_attenuation=80, seed=cfg['seed'], **sc._kw(cfg, {'pol': 'polarity'}), **kw)
        elif t == 'firnoise':
            from psiaudio.calibration import FlatCalibration
            a = stim.bandlimited_fir_noise(fs, cfg['level'], cfg['fl'], cfg['fh'], ntaps=cfg.get('ntaps', 101), seed=cfg['seed'],
                                           calibration=FlatCalibration.unity(), equalize=cfg.get('equalize', False),
                                           **sc._kw(cfg, {'pol': 'polarity', 'window': 'window'}), **kw)
        elif t == 'shaped':
            a = stim.shaped_noise(fs, cfg['level'], sc.shaped_gains(fs), ntaps=cfg.get('ntaps', 101), seed=cfg['seed'],
                                  **sc._kw(cfg, {'pol': 'polarity', 'window': 'window'}), **kw)
        elif t == 'notch':
            c = cfg['in']
            a = stim.notch_noise(fs, cfg['f'], cfg['q'], c['level'], **sc._kw(c, {'seed': 'seed', 'pol': 'polarity'}), **kw)
        elif t == 'env':
            c = cfg['in']
            if cfg.get('deffn'):        # default window, rise given positionally
                a = stim.ramped_tone(fs, c['f'], c['level'], kw['duration'], sc.tsec(cfg, 'rise', fs),
                                     **sc._kw(c, {'phase': 'phase'}))
            else:
                a = stim.ramped_tone(fs, c['f'], c['level'], kw['duration'], rise_time=sc.tsec(cfg, 'rise', fs),
                                     window=cfg['window'], **sc._kw(c, {'phase': 'phase'}))
        else:
            raise KeyError(t)
        out.append(['next', [float(v) for v in np.asarray(a, dtype=float)]])
    return out


def _fn_ops(case):
    if case['mode'] == 'frag':
        return [['next', case['o']], ['next', case['n']]]
    return [['next', sc.eff(case['dur'], case['fs'])]]


def impl(case):
    fs = case['fs']
    k = case['k']
    if k == 'gen':
        return sc.run_impl(case['cfg'], fs, case['ops'])
    if k == 'envelope':
        try:
            return _twice(case, lambda: _env_call(case, case['o'], case['n']))
        except ValueError:
            return ['raise']
    if k == 'samenv':
        return _twice(case, lambda: _sam_call(case, case['o'], case['n']))
    if k == 'sqwave':
        return _twice(case, lambda: _sq_call(case, case['o'], case['n']))
    if k == 'memo':
        return sc.memo_impl(case)
    if k == 'fn':
        try:
            return _fn_call(case)
        except ValueError:
            return [['raise', 'ValueError']]
    raise KeyError(k)


def _frag_params(case):
    fs = case['fs']
    dur = sc.eff(case['dur'], fs)
    rise = int(np.floor(dur / 2)) if case['rise'] is None else sc.eff(case['rise'], fs)
    return sc.eff(case['start'], fs), dur, rise


def _env_n(case):
    if case['n'] == 'auto':
        elb, dur, _ = _frag_params(case)
        return elb + dur
    return case['n']


def expr(case, res):
    """model outputs ++ [1/0]: the last element is the executable form of the Props/C01.v statement on this case"""
    from vlib import zlist
    fs = case['fs']
    k = case['k']
    if k in ('gen', 'fn'):
        ops = case['ops'] if k == 'gen' else _fn_ops(case)
        reg = sc.Registry(fs)
        g = sc.coq_gen(case['cfg'], reg)
        # chunk list of the first reset-free segment, for the spec test
        cs = []
        for o in ops:
            if o[0] != 'next':
                break
            cs.append(o[1])
        return f"run_gen {g} {sc.coq_ops(ops)} ++ spec_ok_Z {g} {zlist(cs)}"
    if k == 'memo':
        return sc.memo_expr(case) + ' ++ [1]'
    if k == 'envelope':
        elb, dur, rise = _frag_params(case)
        a = f"{zlit(elb)} {zlit(dur)} {zlit(rise)} {zlit(case['o'])} {zlit(_env_n(case))}"
        return f"run_envelope {a} ++ frag_ok_envelope {a}"
    if k == 'samenv':
        a = f"{zlit(int(case['delay'] * fs))} {zlit(case['o'])} {zlit(case['n'])}"
        return f"run_sam {a} ++ frag_ok_sam {a}"
    if k == 'sqwave':
        P = fs / case['fm']
        duty = int(round(case['duty'] * P))
        a = f"{sc.qlit(Fraction(P))} {zlit(duty)} {zlit(case['o'])} {zlit(case['n'])}"
        return f"run_sqenv {a} ++ frag_ok_sqenv {a}"


def _frag_eval(case, factors):
    """evaluate recipes of the directly-called fragment functions (node id 0)"""
    fs = case['fs']
    k = case['k']
    if k == 'envelope':
        _, _, rise = _frag_params(case)
        info = {'kind': 'ramp', 'window': case['window'], 'rise': rise, 'transform': case.get('tr')}
    elif k == 'samenv':
        c = {'depth': case['depth'], 'fm': case['fm'], 'delay': case['delay']}
        if case.get('mode') == 'direct':
            c.update(eq_phase=case['eq_phase'], eq_power=case['eq_power'])
        elif case.get('mode') == 'noeq':
            c.update(eq_phase=0, eq_power=1)        # sam_envelope(equalize=False): zero starting phase, unit scale
        info = {'kind': 'sam', 'cfg': c}
    else:
        P = fs / case['fm']
        info = {'kind': 'sqenv', 'duty': int(round(case['duty'] * P)),
                'cfg': {'depth': case['depth'], 'alpha': case['alpha'] or 0}}
    return sc.frag_values(fs, info, factors)


def agree(case, res, mo):
    if mo[-1] != 1:
        return 'the executable form of the C01 statement (spec_ok / frag_ok) is false on this case'
    mo = mo[:-1]
    k = case['k']
    if k in ('gen', 'fn'):
        ops = case['ops'] if k == 'gen' else _fn_ops(case)
        reg = sc.Registry(case['fs'])
        sc.coq_gen(case['cfg'], reg)
        if k == 'fn' and res and res[0][0] == 'raise':
            # ramped_tone rejects a rise longer than half the duration where the factory raises on its first draw
            dec = sc.decode(mo)
            return None if dec and dec[0][0] == 'raise' else 'the function raised ValueError, the model of its factory twin does not'
        return sc.compare(case['cfg'], case['fs'], reg, ops, res, mo)
    if k == 'memo':
        return sc.memo_agree(case, res, mo)
    if k == 'envelope':
        if mo[0] == 2:
            return None if res[0] == 'raise' else 'model raises ValueError, implementation returned an envelope'
        if res[0] == 'raise':
            return 'implementation raised ValueError, model returned an envelope'
        mo = mo[1:]
    if res[0] == 'raise':
        return 'implementation raised, model returned an envelope'
    factors = sc.parse_factors(mo)
    want = _frag_eval(case, factors)
    for which, got in enumerate(res[1:]):
        if len(got) != len(want):
            return f'implementation returned {len(got)} samples, model {len(want)}'
        for j, (g, w) in enumerate(zip(got, want)):
            if g != w:
                return (f'sample {j}{" of the second, identical call" if which else ""}: implementation {g!r}, '
                        f'model recipe {factors[j]} = {w!r}')
    return None


def nontrivial(case, res):
    k = case['k']
    if k == 'memo':
        return True
    if k == 'fn':
        return case['mode'] == 'dur' or (case['n'] > 0 and case['o'] > 0)
    if k != 'gen':
        return res[0] == 'ok' and _n_of(case) > 0 and case['o'] > 0
    nexts = [o for o in case['ops'] if o[0] in ('next', 'rest')]
    return len(nexts) >= 2 and (case['cfg']['t'] not in ('tone', 'silence', 'samtone'))


def _n_of(case):
    return _env_n(case) if case['k'] == 'envelope' else case['n']


def _gen_oracle(cfg, fs, ops, res):
    """history output == one fresh single request"""
    if res and res[0][0] == 'ctor-raise':
        return None
    # split the history at resets; each segment must equal a prefix of one fresh one-shot request
    segs, cur = [], []
    for o, r in zip(ops, res):
        if o[0] == 'reset':
            segs.append(cur)
            cur = []
        elif o[0] in ('next', 'rest'):
            if r[0] == 'raise':
                if o[0] == 'rest':
                    continue    # get_samples_remaining() of an infinite stimulus
                return None     # rise time too long etc.: nothing to compare
            cur.extend(r[1])
    segs.append(cur)
    n = max(len(s) for s in segs)
    if n == 0:
        return None
    try:
        one = np.asarray(sc.mk(cfg, fs).next(n), dtype=float)
    except ValueError as e:
        return f'a single request for {n} samples raises ValueError ({e}) but the history {ops} returned samples'
    tol = 1e-12 * max(np.max(np.abs(one)), 1e-300) if sc.has_fir(cfg) else 0.0
    for s in segs:
        s = np.asarray(s, dtype=float)
        d = np.abs(s - one[:len(s)])
        if len(s) and not np.all(d <= tol):
            j = int(np.argmax(~(d <= tol)))
            return (f'chunked stream differs from a single request at sample {j}: {s[j]!r} vs {one[j]!r} '
                    f'(history {ops})')
    return None


def oracle(case, res):
    """chunk invariance on the implementation alone: history output == one fresh single request."""
    fs = case['fs']
    k = case['k']
    if k == 'gen':
        return _gen_oracle(case['cfg'], fs, case['ops'], res)
    if k == 'fn':
        # the one-shot function against its factory twin drawn in one request
        if res and res[0][0] == 'raise':
            try:
                sc.mk(case['cfg'], fs).next(max(sc.eff(case['dur'], fs), 1))
            except ValueError:
                return None
            return 'the function raised ValueError for parameters its factory twin accepts'
        return _gen_oracle(case['cfg'], fs, _fn_ops(case), res)
    if k == 'memo':
        return sc.memo_oracle(case, res)
    if res[0] == 'raise':
        return None
    if len(res) > 2 and res[2] != res[1]:
        return f'{k}: the same call returned different values after the caller wrote into the first result'
    o, n = case['o'], _n_of(case)
    if o > 10 ** 5:
        return None if all(v == 0.0 for v in res[1]) or k != 'envelope' else 'non-zero envelope sample far past the end'
    if k == 'envelope':
        full = _env_call(dict(case, np=False), 0, o + n)
    elif k == 'samenv':
        full = _sam_call(dict(case, np=False), 0, o + n)
    else:
        full = _sq_call(dict(case, np=False), 0, o + n)
    want = [float(v) for v in full[o:o + n]]
    if res[1] != want:
        j = [a != b for a, b in zip(res[1], want)].index(True) if len(res[1]) == len(want) else -1
        return f'{k} fragment [{o},{o + n}) differs from the slice of the full envelope at {j}'
    return None


def distribution(cases, results):
    d = {}
    for c in cases:
        key = c['k'] + (':' + c['cfg']['t'] if 'cfg' in c else '')
        d[key] = d.get(key, 0) + 1
    return d


# ================================================= ADDITION (long) ====================================================
# Streams LONGER THAN ONE SECOND: the running offset of the continuous carriers passes int(fs) (and, at non-integer rates,
# a whole number of periods is not a whole number of samples).  A history of chunks must still equal one request for the
# total.  Oracle only - the symbolic model covers every offset (C01_chunk_invariant has no bound), but printing a recipe
# per sample for 2e5 samples is pointless; the comparison is made on the implementation alone, bit-exactly.
_cases0, _impl0, _expr0, _agree0, _nontrivial0, _oracle0 = cases, impl, expr, agree, nontrivial, oracle
_distribution0 = distribution if 'distribution' in globals() else None

RULE += (' (long) continuous carriers (tone, SAM tone with integer and non-integer frequencies, square wave, seeded noises, '
         'SAM / cos2 envelopes over them) drawn for more than one second in 2-6 chunks whose boundaries straddle every '
         'multiple of int(fs): equal, bit for bit, to one request for the total.')


def _long_cfgs(fs, rng):
    yield {'t': 'tone', 'f': rng.choice([37.5, 1000.0, fs / 7.0]), 'level': 1.0, 'phase': 0.3}
    yield {'t': 'samtone', 'fc': rng.choice([1000.0, 1234.5, fs / 6.0]), 'fm': rng.choice([37.5, 40.0, 12.25]), 'level': 1.0}
    yield {'t': 'samtone', 'fc': 2000.0, 'fm': 37.5, 'level': 1.0, 'phase': 0.4, 'phase_lb': 0.2, 'phase_ub': 0.1}
    yield {'t': 'square', 'level': 1.0, 'freq': rng.choice([37.5, 10.0, 3.3]), 'duty': 0.3}
    yield {'t': 'bbnoise', 'level': 1.0, 'seed': rng.randint(0, 9)}


def _long_sizes(fs, rng):
    n1 = int(fs)
    k = rng.choice([1, 1, 2])
    cuts = sorted({max(1, k * n1 + d) for d in rng.sample(range(-3, 4), 2)} | {rng.randint(1, n1 - 1)})
    total = k * n1 + rng.randint(50, 400)
    sizes, pos = [], 0
    for c in cuts:
        if pos < c < total:
            sizes.append(c - pos)
            pos = c
    sizes.append(total - pos)
    return sizes


def _long_case(case):
    fs = case['fs']
    f = sc.mk(case['cfg'], fs)
    parts = [np.asarray(f.next(n), dtype=float) for n in case['sizes']]
    got = np.concatenate(parts)
    g = sc.mk(case['cfg'], fs)
    want = np.asarray(g.next(int(sum(case['sizes']))), dtype=float)
    if got.shape != want.shape:
        return {'fail': f'{case["cfg"]} at {fs} Hz, chunks {case["sizes"]}: {got.shape} samples instead of {want.shape}'}
    bad = np.flatnonzero(got != want)
    if len(bad):
        i = int(bad[0])
        return {'fail': f'{case["cfg"]} at {fs} Hz, chunks {case["sizes"]}: first difference at sample {i} ({i / fs:.6f} s): '
                        f'{got[i]!r} in the history, {want[i]!r} in one request; {len(bad)} samples differ, '
                        f'largest difference {float(np.max(np.abs(got - want))):.3g}'}
    return {'fail': None}


def cases(tier, rng):
    yield from _cases0(tier, rng)
    for fs in ([25000.0, 195312.5] if tier == 'quick' else [25000.0, 195312.5, 44100.0, 97656.25, 100000.0]):
        for _ in range(2 if tier == 'quick' else 8):
            for cfg in _long_cfgs(fs, rng):
                yield {'k': 'long', 'fs': fs, 'cfg': cfg, 'sizes': _long_sizes(fs, rng)}
    # envelopes whose `transform` changes the units (f(1) != 1, f(0) != 0): every chunking, in particular chunks that lie
    # wholly inside the plateau or wholly outside the envelope, against one request (oracle only: the model's plateau and
    # silence factors are an exact one and an exact zero)
    for fs in FS:
        for _ in range(4 if tier == 'quick' else 60):
            cfg = {'t': 'env', 'window': rng.choice(['hann', 'cosine-squared', 'blackman']), 'start': rng.choice([0, 2, 2.4]),
                   'dur': rng.choice([30, 31.5]), 'rise': rng.choice([3, 4.5, 0]), 'transform': rng.choice(['half', 'db']),
                   'in': {'t': 'tone', 'f': fs / 8.0, 'level': 1.5, 'phase': 0.3}}
            total, sizes = 44, []
            while sum(sizes) < total:
                sizes.append(min(rng.choice([1, 2, 3, 5, 8, 13]), total - sum(sizes)))
            yield {'k': 'long', 'fs': fs, 'cfg': cfg, 'sizes': sizes}


def impl(case):
    return _long_case(case) if case['k'] == 'long' else _impl0(case)


def expr(case, res):
    return '([1] : list Z)' if case['k'] == 'long' else _expr0(case, res)


def agree(case, res, mo):
    return None if case['k'] == 'long' else _agree0(case, res, mo)


def nontrivial(case, res):
    return True if case['k'] == 'long' else _nontrivial0(case, res)


def oracle(case, res):
    return res.get('fail') if case['k'] == 'long' else _oracle0(case, res)


if _distribution0 is not None:
    def distribution(cases_, results):
        keep = [i for i, c in enumerate(cases_) if c['k'] != 'long']
        d = _distribution0([cases_[i] for i in keep], [results[i] for i in keep])
        d['long (> 1 s) histories'] = len(cases_) - len(keep)
        return d
# ================================================= end of the long addition ============================================


# ================================================= translator tie of the index bookkeeping =============================
# coq/gen/StimIdxGen.v is regenerated from $PSIAUDIO_REPO/psiaudio/stim.py on every run (translate/pystim2coq.py: fail-closed
# ast translator + self-test against the real functions / objects); coq/Stim/ProofsTie.v proves the regenerated definitions equal
# to the model definitions of coq/Stim/Model.v, and Props/C01.v restates the main theorems over them (C01_source_*).
def translate(repo):
    from translate import pystim2coq
    return pystim2coq.hook(repo)


TRUSTED = TRUSTED + ['translate/pystim2coq.py (fail-closed ast translator of the index bookkeeping of envelope, GateFactory.__init__ / next / '
                     'n_samples_remaining / n_samples / is_complete, EnvelopeFactory.next, FixedWaveform.next / queries, '
                     'SquareWaveFactory.next, _sam_envelope to coq/gen/StimIdxGen.v; its IR is run by a small interpreter against the real '
                     'code on every run); ' + 'pinned, not translated (a change of their text breaks the tie): the float conversions '
                     'int(round(t * fs)) / int(delay * fs), the rise_time-is-None branch, the window look-up, the SAM formula, `transform`, '
                     'the input factory\'s next / reset calls, env * token; np.zeros / np.ones / np.clip / np.concatenate / basic slicing '
                     'as Stim/Model.v and Common/PySlice.v model them']


TRUSTED = TRUSTED + ['translate/pystim2coq.py, second part: repeat() (length test, ValueError; pinned: int(round(fs / rate)), int(round(fs * delay)), '
                     'the 2-D layout np.zeros((n + skip_n, s_period)) / result[skip_n:, s_delay:s_delay + s_waveform] = waveform / ravel mapped '
                     'to np_zeros2 / np_set_rows / np_ravel of the generated file), RepeatFactory.reset (pinned: the input\'s reset and '
                     'get_samples_remaining calls, the call of repeat), Transform.next / reset (pinned: the input\'s next / reset, '
                     'self.transform); tie proofs in coq/Stim/ProofsTieRep.v']
