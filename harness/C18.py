"""C18 - boolean-epoch utilities.  Model: coq/Runs/Model.v; theorems: coq/Props/C18.v."""
import itertools
import numpy as np
from vlib import blist, pairlist, optlit, zlit

PROP = 'C18'
REQUIRES = ['Runs.Model']
RULE = ('epochs: every boolean array up to length L (quick 11, thorough 15) plus seeded random arrays up to '
        'length 400; smooth_epochs: every set of <=3 (quick) / <=4 (thorough) non-empty intervals over [0,6] in every order '
        'plus random sets; debounce_epochs: the runs of every boolean array up to length 9 (11) x every limit 0..5 plus random. '
        'A case is non-trivial when the implementation returned at least one interval; distinct = distinct inputs.')
TRUSTED = ['harness/C18.py (generators, canonicalisation of ndarray results to integer pairs)',
           'numpy sort/diff/flatnonzero/r_/c_ as modelled in coq/Runs/Model.v (exercised by the correspondence, not proved)']
ASSUMPTIONS = ['epochs is modelled for pad=0 (the only form the package uses)',
               'smooth/debounce theorems assume non-empty intervals (s < e), as produced by epochs']


def _util():
    from psiaudio import util
    return util


def cases(tier, rng):
    L = 11 if tier == 'quick' else 15
    for n in range(0, L + 1):
        for bits in itertools.product([0, 1], repeat=n):
            yield {'k': 'epochs', 'x': list(bits)}
    for _ in range(200 if tier == 'quick' else 3000):
        n = rng.randint(L + 1, 400)
        p = rng.choice([0.05, 0.3, 0.5, 0.8, 0.97])
        yield {'k': 'epochs', 'x': [int(rng.random() < p) for _ in range(n)]}
    ivs = [(s, e) for s in range(0, 6) for e in range(s + 1, 7)]
    K = 3 if tier == 'quick' else 4
    for k in range(0, K + 1):
        if k <= 2 or tier != 'quick':
            it = itertools.product(ivs, repeat=k)
        else:
            it = (tuple(rng.choice(ivs) for _ in range(k)) for _ in range(1500))
        for c in it:
            yield {'k': 'smooth', 'l': [list(p) for p in c]}
    for _ in range(300 if tier == 'quick' else 5000):
        k = rng.randint(1, 12)
        l = []
        for _ in range(k):
            s = rng.randint(-20, 60)
            l.append([s, s + rng.randint(1, 15)])
        yield {'k': 'smooth', 'l': l}
    LD = 9 if tier == 'quick' else 11
    for n in range(1, LD + 1):
        for bits in itertools.product([0, 1], repeat=n):
            r = _runs(bits)
            if r:
                for d in range(0, 6):
                    yield {'k': 'debounce', 'd': d, 'l': r}
    for _ in range(300 if tier == 'quick' else 5000):
        n = rng.randint(10, 200)
        p = rng.choice([0.3, 0.5, 0.8])
        r = _runs([int(rng.random() < p) for _ in range(n)])
        if r:
            yield {'k': 'debounce', 'd': rng.randint(0, 8), 'l': r}


def _runs(bits):
    out, s = [], None
    for i, b in enumerate(bits):
        if b and s is None:
            s = i
        if not b and s is not None:
            out.append([s, i])
            s = None
    if s is not None:
        out.append([s, len(bits)])
    return out


def _pairs(a):
    a = np.asarray(a)
    if a.size == 0:
        return []
    assert a.ndim == 2 and a.shape[1] == 2, a.shape
    return [[int(s), int(e)] for s, e in a]


def impl(case):
    util = _util()
    if case['k'] == 'epochs':
        try:
            return _pairs(util.epochs(np.array(case['x'], dtype=bool)))
        except (IndexError, ValueError) as e:
            return None
    if case['k'] == 'smooth':
        return _pairs(util.smooth_epochs(np.array(case['l'], dtype=int).reshape((-1, 2))))
    if case['k'] == 'debounce':
        return _pairs(util.debounce_epochs(np.array(case['l'], dtype=int).reshape((-1, 2)), case['d']))
    raise KeyError(case['k'])


def term(case, res):
    if case['k'] == 'epochs':
        return f"check_epochs {blist(case['x'])} {optlit(res, pairlist)}"
    if case['k'] == 'smooth':
        return f"check_smooth {pairlist(case['l'])} {pairlist(res)}"
    return f"check_debounce {zlit(case['d'])} {pairlist(case['l'])} {pairlist(res)}"


def nontrivial(case, res):
    return bool(res)


def oracle(case, res):
    """The property, stated on the implementation's answer only."""
    if case['k'] == 'epochs':
        want = _runs(case['x'])
        if res != want:
            return f'epochs returned {res}, maximal runs are {want}'
    elif case['k'] == 'smooth':
        pts = set()
        for s, e in case['l']:
            pts.update(range(s, e))
        got = set()
        for s, e in res:
            if not s < e:
                return f'smooth_epochs returned an empty interval {[s, e]}'
            got.update(range(s, e))
        if got != pts:
            return f'smooth_epochs cover differs: {res}'
        for (s1, e1), (s2, e2) in zip(res, res[1:]):
            if not e1 < s2:
                return f'smooth_epochs output not sorted/disjoint/non-touching: {res}'
    else:
        d = case['d']
        kept = [p for p in case['l'] if p[1] - p[0] >= d]
        want = []
        for s, e in kept:
            if want and s - want[-1][1] <= d:
                want[-1][1] = e
            else:
                want.append([s, e])
        if res != want:
            return f'debounce_epochs returned {res}, expected {want}'
    return None


def distribution(cases, results):
    d = {}
    for c, r in zip(cases, results):
        k = c['k']
        d.setdefault(k, {'n': 0, 'empty_result': 0, 'max_len': 0})
        d[k]['n'] += 1
        d[k]['empty_result'] += (not r)
        d[k]['max_len'] = max(d[k]['max_len'], len(c.get('x', c.get('l'))))
    return d
