"""C18 - boolean-epoch utilities.  Model: coq/Runs/Model.v; theorems: coq/Props/C18.v."""
import itertools
import numpy as np
from vlib import blist, pairlist, optlit, zlit, zlist

PROP = 'C18'
REQUIRES = ['Runs.Model']
RULE = ('epochs: every boolean array up to length L (quick 11, thorough 15) plus seeded random arrays up to '
        'length 400, as bool arrays through the default call; every array up to length 7 (9) again as int8/uint8/int32/int64/float 0-1 arrays, '
        'as strided / reversed views, as read-only arrays, and with pad 0..3 given positionally or by keyword (the caller\'s array after the call '
        'is compared too); edge_rising / edge_falling called directly on every array up to length 8 (10) in bool and integer dtypes; '
        'smooth_epochs: every set of <=3 (quick) / <=4 (thorough) non-empty intervals over [0,6] in every order '
        'plus random sets, as int64 ndarrays; every set of <=2 intervals plus random sets again as list of tuples / list of lists / tuple of '
        'tuples / float / int32 / Fortran-ordered / strided-view / read-only arrays, empty list and empty (0,2) array, each called twice on the '
        'same object; debounce_epochs: the runs of every boolean array up to length 9 (11) x every limit 0..5 plus random, as int64 arrays with '
        'a Python int limit; again (arrays up to length 7, random) as float / int32 arrays, NumPy-integer and float limits, limits beyond the '
        'whole span, the empty (0,2) array, the caller scribbling on the result and calling again with the same array; '
        'debounce_epochs(epochs(x), d) composed on raw boolean arrays (incl. all-False: the float (0,2) array). '
        'A case is non-trivial when the implementation returned at least one interval or edge; distinct = distinct inputs.')
TRUSTED = ['harness/C18.py (generators, canonicalisation of ndarray results to integer pairs)',
           'numpy sort/diff/flatnonzero/r_/c_ and basic slice assignment as modelled in coq/Runs/Model.v and coq/Common/PySlice.v '
           '(exercised by the correspondence, not proved)']
ASSUMPTIONS = ['the theorems and the oracle are about pad=0 (the only form the package uses; pad is outside the property text); pad>0 is '
               'compared with the faithful model epochs_pad_model only (incl. the wrapped leading slice when 0 < start < pad and the '
               'ValueError on a read-only array)',
               'smooth/debounce theorems assume non-empty intervals (s < e), as produced by epochs',
               'integer / float input arrays hold only the values 0 and 1 (a boolean signal)',
               'interval arrays passed to debounce_epochs are ndarrays (the function indexes columns)']

DTYPES = {'bool': bool, 'int8': np.int8, 'uint8': np.uint8, 'int32': np.int32, 'int64': np.int64, 'float64': np.float64}


def _util():
    from psiaudio import util
    return util


def _all_bits(n):
    return itertools.product([0, 1], repeat=n)


def cases(tier, rng):
    quick = tier == 'quick'
    L = 11 if quick else 15
    # ---- epochs: the default call on a bool array (the form the theorems are about) ----
    for n in range(0, L + 1):
        for bits in _all_bits(n):
            yield {'k': 'epochs', 'x': list(bits)}
    for _ in range(200 if quick else 3000):
        n = rng.randint(L + 1, 400)
        p = rng.choice([0.05, 0.3, 0.5, 0.8, 0.97])
        yield {'k': 'epochs', 'x': [int(rng.random() < p) for _ in range(n)]}
    # ---- epochs: other legal argument kinds, pad given explicitly ----
    LE = 7 if quick else 9
    kinds = [{'dt': 'int64'}, {'dt': 'uint8'}, {'dt': 'float64'}, {'dt': 'bool', 'view': 'stride'},
             {'dt': 'int8', 'view': 'rev'}, {'dt': 'bool', 'ro': True}, {'dt': 'int32', 'ro': True},
             {'dt': 'bool', 'pad': 0, 'kw': True}, {'dt': 'bool', 'pad': 1}, {'dt': 'bool', 'pad': 2, 'kw': True},
             {'dt': 'int64', 'pad': 3}, {'dt': 'uint8', 'pad': 2, 'view': 'stride'}, {'dt': 'bool', 'pad': 1, 'np': True}]
    for n in range(0, LE + 1):
        for bits in _all_bits(n):
            for kd in kinds:
                yield dict({'k': 'epochs', 'x': list(bits)}, **kd)
    for _ in range(300 if quick else 4000):
        n = rng.randint(LE + 1, 120)
        p = rng.choice([0.05, 0.3, 0.5, 0.8, 0.97])
        kd = dict(rng.choice(kinds))
        if 'pad' in kd:
            kd['pad'] = rng.choice([0, 1, 2, 3, 5, 8, n, n + 3])
        yield dict({'k': 'epochs', 'x': [int(rng.random() < p) for _ in range(n)]}, **kd)
    # ---- edge_rising / edge_falling called directly ----
    LG = 8 if quick else 10
    for n in range(0, LG + 1):
        for bits in _all_bits(n):
            yield {'k': 'edges', 'x': list(bits), 'dt': ('bool', 'int64', 'uint8', 'int8')[(n + sum(bits)) % 4]}
    for _ in range(100 if quick else 1000):
        n = rng.randint(LG + 1, 200)
        yield {'k': 'edges', 'x': [int(rng.random() < 0.5) for _ in range(n)], 'dt': rng.choice(['bool', 'int64', 'uint8', 'float64'])}
    # ---- smooth_epochs ----
    ivs = [(s, e) for s in range(0, 6) for e in range(s + 1, 7)]
    K = 3 if quick else 4
    for k in range(0, K + 1):
        if k <= 2 or not quick:
            it = itertools.product(ivs, repeat=k)
        else:
            it = (tuple(rng.choice(ivs) for _ in range(k)) for _ in range(1500))
        for c in it:
            yield {'k': 'smooth', 'l': [list(p) for p in c]}
    for _ in range(300 if quick else 5000):
        yield {'k': 'smooth', 'l': _random_ivs(rng)}
    skinds = ['list_tuples', 'list_lists', 'tuple_tuples', 'float64', 'int32', 'fortran', 'view', 'ro', 'ro_list']
    for k in range(0, 3):
        for c in itertools.product(ivs, repeat=k):
            sk = skinds[(sum(a + b for a, b in c) + k) % len(skinds)]
            yield {'k': 'smooth', 'l': [list(p) for p in c], 'kind': sk, 'twice': True}
    for sk in skinds + ['int64']:
        yield {'k': 'smooth', 'l': [], 'kind': sk, 'twice': True}
        for _ in range(40 if quick else 400):
            yield {'k': 'smooth', 'l': _random_ivs(rng), 'kind': sk, 'twice': True}
    # ---- debounce_epochs ----
    LD = 9 if quick else 11
    for n in range(1, LD + 1):
        for bits in _all_bits(n):
            r = _runs(bits)
            if r:
                for d in range(0, 6):
                    yield {'k': 'debounce', 'd': d, 'l': r}
    for _ in range(300 if quick else 5000):
        n = rng.randint(10, 200)
        p = rng.choice([0.3, 0.5, 0.8])
        r = _runs([int(rng.random() < p) for _ in range(n)])
        if r:
            yield {'k': 'debounce', 'd': rng.randint(0, 8), 'l': r}
    dkinds = [{'dt': 'float64', 'dk': 'float'}, {'dt': 'float64', 'dk': 'int'}, {'dt': 'int32', 'dk': 'int'},
              {'dt': 'int64', 'dk': 'np64'}, {'dt': 'int64', 'dk': 'np32'}, {'dt': 'int64', 'dk': 'int', 'view': True},
              {'dt': 'int64', 'dk': 'int', 'ro': True}]
    LD2 = 7 if quick else 9
    for n in range(0, LD2 + 1):
        for bits in _all_bits(n):
            r = _runs(bits)
            for d in (0, 1, 2, 3, n, n + 1):
                yield dict({'k': 'debounce', 'd': d, 'l': r, 'twice': True}, **dkinds[(d + len(r) + n) % len(dkinds)])
    for _ in range(300 if quick else 4000):
        n = rng.randint(8, 150)
        r = _runs([int(rng.random() < rng.choice([0.3, 0.5, 0.8])) for _ in range(n)])
        yield dict({'k': 'debounce', 'd': rng.choice([0, 1, 2, 3, 5, 8, n, 2 * n]), 'l': r, 'twice': True}, **rng.choice(dkinds))
    # ---- debounce_epochs on GENERAL interval sets: runs listed in any order, overlapping / nested / touching intervals
    # (drop the ones shorter than the limit, then join what is left across gaps <= the limit)
    for n in range(1, (7 if quick else 9) + 1):
        for bits in _all_bits(n):
            r = _runs(bits)
            if len(r) >= 2:
                for d in (0, 1, 2):
                    rr = list(r)
                    rng.shuffle(rr)
                    yield {'k': 'debounce', 'd': d, 'l': rr[::-1] if rr == r else rr, 'general': True}
    for _ in range(150 if quick else 3000):
        yield {'k': 'debounce', 'd': rng.randint(0, 4), 'l': [p for p in _random_ivs(rng) if p[1] > p[0]], 'general': True}
    # ---- the composition the package uses: debounce_epochs(epochs(x), d) ----
    LP = 8 if quick else 10
    for n in range(0, LP + 1):
        for bits in _all_bits(n):
            yield {'k': 'pipe', 'x': list(bits), 'd': (n + sum(bits)) % 4}
    for _ in range(150 if quick else 2000):
        n = rng.randint(LP + 1, 200)
        yield {'k': 'pipe', 'x': [int(rng.random() < rng.choice([0.3, 0.5, 0.8])) for _ in range(n)], 'd': rng.randint(0, 6)}


def _random_ivs(rng):
    l = []
    for _ in range(rng.randint(1, 12)):
        s = rng.randint(-20, 60)
        l.append([s, s + rng.randint(1, 15)])
    return l


def _runs(bits):
    out, s = [], None
    for i, b in enumerate(bits):
        if b and s is None:
            s = i
        if not b and s is not None:
            out.append([s, i])
            s = None
    if s is not None:
        out.append([s, len(bits)])
    return out


def _pairs(a):
    a = np.asarray(a)
    if a.size == 0:
        return []
    assert a.ndim == 2 and a.shape[1] == 2, a.shape
    for s, e in a:
        assert float(s) == int(s) and float(e) == int(e), a
    return [[int(s), int(e)] for s, e in a]


def _bool_array(case):
    """the array handed to epochs / edge_*: dtype, memory layout and write flag as the case says"""
    x = np.array(case['x'], dtype=DTYPES[case.get('dt', 'bool')])
    view = case.get('view')
    if view == 'stride':
        base = np.zeros(2 * len(x) + 1, dtype=x.dtype)
        base[1::2] = x
        x = base[1::2]
    elif view == 'rev':
        base = x[::-1].copy()
        x = base[::-1]
    if case.get('ro'):
        x.setflags(write=False)
    return x


def _interval_arg(l, kind):
    if kind in (None, 'int64'):
        return np.array(l, dtype=np.int64).reshape((-1, 2))
    if kind == 'list_tuples':
        return [tuple(p) for p in l]
    if kind == 'list_lists':
        return [list(p) for p in l]
    if kind == 'tuple_tuples':
        return tuple(tuple(p) for p in l)
    if kind == 'ro_list':
        return [np.array(p) for p in l]
    if kind in ('float64', 'int32'):
        return np.array(l, dtype=DTYPES[kind]).reshape((-1, 2))
    if kind == 'fortran':
        return np.asfortranarray(np.array(l, dtype=np.int64).reshape((-1, 2)))
    if kind == 'view':
        base = np.full((len(l), 5), -77, dtype=np.int64)
        base[:, 1::2] = np.array(l, dtype=np.int64).reshape((-1, 2))
        return base[:, 1::2]
    if kind == 'ro':
        a = np.array(l, dtype=np.int64).reshape((-1, 2))
        a.setflags(write=False)
        return a
    raise KeyError(kind)


def impl(case):
    util = _util()
    k = case['k']
    if k == 'epochs':
        plain = set(case) <= {'k', 'x'}
        x = _bool_array(case)
        try:
            if 'pad' not in case:
                r = util.epochs(x)
            else:
                pad = np.int64(case['pad']) if case.get('np') else case['pad']
                r = util.epochs(x, pad=pad) if case.get('kw') else util.epochs(x, pad)
            r = _pairs(r)
        except (IndexError, ValueError):
            r = None
        if plain:
            return r if [int(v) for v in x] == case['x'] else {'r': r, 'xa': [int(v) for v in x]}
        return {'r': r, 'xa': [int(v) for v in x]}
    if k == 'edges':
        x = _bool_array(case)
        r, f = util.edge_rising(x), util.edge_falling(x)
        # (for an empty input np.r_[0, diff] has one element: the masks are then [False], which marks no position)
        assert r.dtype == bool and f.dtype == bool and r.shape == f.shape == (max(len(x), 1),)
        return {'r': [int(i) for i in np.flatnonzero(r)], 'f': [int(i) for i in np.flatnonzero(f)],
                'xa': [int(v) for v in x]}
    if k == 'smooth':
        kind = case.get('kind')
        arg = _interval_arg(case['l'], kind)
        if kind is None:
            return _pairs(util.smooth_epochs(arg))
        out = util.smooth_epochs(arg)
        r = _pairs(out)
        unchanged = _pairs(arg) == [list(p) for p in case['l']]
        if isinstance(out, np.ndarray) and out.size and out.flags.writeable:
            out[...] = -5                          # the caller owns the result
        # the very same object again
        return {'r': r, 'r2': _pairs(util.smooth_epochs(arg)), 'input_unchanged': unchanged}
    if k == 'debounce':
        dt = case.get('dt')
        if dt is None:
            return _pairs(util.debounce_epochs(np.array(case['l'], dtype=int).reshape((-1, 2)), case['d']))
        a = np.array(case['l'], dtype=DTYPES[dt]).reshape((-1, 2))
        if case.get('view'):
            base = np.full((len(case['l']), 4), -77, dtype=a.dtype)
            base[:, ::3] = a
            a = base[:, ::3]
        if case.get('ro'):
            a.setflags(write=False)
        d = {'int': int, 'float': float, 'np64': np.int64, 'np32': np.int32}[case['dk']](case['d'])
        out = util.debounce_epochs(a, d)
        r = _pairs(out)
        same = [[int(s), int(e)] for s, e in a] == [list(p) for p in case['l']]
        if out.size and out.flags.writeable:
            out[...] = -5                          # the caller owns the result
        r2 = _pairs(util.debounce_epochs(a, d))    # and asks again about the same array
        return {'r': r, 'r2': r2, 'input_unchanged': same}
    if k == 'pipe':
        x = np.array(case['x'], dtype=bool)
        return _pairs(util.debounce_epochs(util.epochs(x), case['d']))
    raise KeyError(k)


def _plain(case, res):
    """(result, array after the call) of an epochs case"""
    if isinstance(res, dict):
        return res['r'], res['xa']
    return res, case['x']


def term(case, res):
    k = case['k']
    if k == 'epochs':
        r, xa = _plain(case, res)
        if case.get('ro') and case.get('pad', 0) != 0:
            # padding writes into the caller's array: a read-only one makes the call raise iff there is an edge
            return f"check_epochs_ro {blist(case['x'])} {optlit(r, pairlist)} && {'true' if xa == case['x'] else 'false'}"
        t = f"check_epochs_pad {zlit(case.get('pad', 0))} {blist(case['x'])} {blist(xa)} {optlit(r, pairlist)}"
        if 'pad' not in case:
            t = f"check_epochs {blist(case['x'])} {optlit(r, pairlist)} && {t}"
        return t
    if k == 'edges':
        return f"check_edges {blist(case['x'])} {zlist(res['r'])} {zlist(res['f'])} && {'true' if res['xa'] == case['x'] else 'false'}"
    if k == 'smooth':
        if not isinstance(res, dict):
            return f"check_smooth {pairlist(case['l'])} {pairlist(res)}"
        return (f"check_smooth {pairlist(case['l'])} {pairlist(res['r'])} && "
                f"check_smooth {pairlist(case['l'])} {pairlist(res['r2'])} && "
                f"{'true' if res['input_unchanged'] else 'false'}")
    if k == 'debounce':
        if not isinstance(res, dict):
            return f"check_debounce {zlit(case['d'])} {pairlist(case['l'])} {pairlist(res)}"
        return (f"check_debounce {zlit(case['d'])} {pairlist(case['l'])} {pairlist(res['r'])} && "
                f"check_debounce {zlit(case['d'])} {pairlist(case['l'])} {pairlist(res['r2'])} && "
                f"{'true' if res['input_unchanged'] else 'false'}")
    if k == 'pipe':
        return f"check_debounce {zlit(case['d'])} {pairlist(_runs(case['x']))} {pairlist(res)}"
    raise KeyError(k)


def nontrivial(case, res):
    if isinstance(res, dict):
        return bool(res.get('r') or res.get('f'))
    return bool(res)


def _debounce_want(l, d):
    kept = sorted([list(p) for p in l if p[1] - p[0] >= d])      # any listing order; overlapping intervals join as well
    kept = [[s, max(e for s2, e in kept if s2 == s)] for s in sorted({p[0] for p in kept})]
    merged = []
    for s, e in kept:
        if merged and s <= merged[-1][1]:
            merged[-1][1] = max(merged[-1][1], e)
        else:
            merged.append([s, e])
    kept = merged
    want = []
    for s, e in kept:
        if want and s - want[-1][1] <= d:
            want[-1][1] = e
        else:
            want.append([s, e])
    return want


def _smooth_msg(l, res, what='smooth_epochs'):
    pts = set()
    for s, e in l:
        pts.update(range(s, e))
    got = set()
    for s, e in res:
        if not s < e:
            return f'{what} returned an empty interval {[s, e]}'
        got.update(range(s, e))
    if got != pts:
        return f'{what} cover differs: {res}'
    for (s1, e1), (s2, e2) in zip(res, res[1:]):
        if not e1 < s2:
            return f'{what} output not sorted/disjoint/non-touching: {res}'
    return None


def oracle(case, res):
    """The property, stated on the implementation's answer only."""
    k = case['k']
    if k == 'epochs':
        r, xa = _plain(case, res)
        pad = case.get('pad', 0)
        if pad == 0:
            want = _runs(case['x'])
            if r != want:
                return f'epochs returned {r}, maximal runs are {want}'
            if xa != case['x']:
                return f'epochs(pad=0) changed the caller\'s array to {xa}'
        # pad > 0 is outside the property text (coordinator ruling): compared with the model only, never judged here
        return None
    if k == 'edges':
        n = len(case['x'])
        runs = _runs(case['x'])
        wr = [s for s, _ in runs if s > 0]
        wf = [e for _, e in runs if e < n]
        if res['r'] != wr or res['f'] != wf:
            return f'edge_rising/edge_falling gave {res["r"]}/{res["f"]}, the run boundaries inside the array are {wr}/{wf}'
        if res['xa'] != case['x']:
            return 'edge detection changed its argument'
        return None
    if k == 'smooth':
        if not isinstance(res, dict):
            return _smooth_msg(case['l'], res)
        if not res['input_unchanged']:
            return 'smooth_epochs changed the interval set the caller passed in'
        return _smooth_msg(case['l'], res['r']) or _smooth_msg(case['l'], res['r2'], 'smooth_epochs (second call on the same object)')
    if k in ('debounce', 'pipe'):
        l = case['l'] if k == 'debounce' else _runs(case['x'])
        want = _debounce_want(l, case['d'])
        if not isinstance(res, dict):
            return None if res == want else f'debounce_epochs returned {res}, expected {want}'
        if res['r'] != want:
            return f'debounce_epochs returned {res["r"]}, expected {want}'
        if not res['input_unchanged']:
            return 'debounce_epochs changed the interval array the caller passed in'
        if res['r2'] != want:
            return f'debounce_epochs asked again about the same array returned {res["r2"]}, expected {want}'
    return None


def distribution(cases, results):
    d = {}
    for c, r in zip(cases, results):
        k = c['k']
        if any(x in c for x in ('dt', 'kind', 'pad', 'view', 'ro')):
            k += '/' + '/'.join(str(c[x]) if x in ('dt', 'kind') else x + ('=' + str(c[x]) if x == 'pad' else '')
                                for x in ('dt', 'kind', 'pad', 'view', 'ro') if x in c)
        d.setdefault(k, {'n': 0, 'empty_result': 0, 'max_len': 0})
        d[k]['n'] += 1
        d[k]['empty_result'] += (not nontrivial(c, r))
        d[k]['max_len'] = max(d[k]['max_len'], len(c.get('x', c.get('l'))))
    return d


# ---- translator tie: coq/gen/RunsGen.v regenerated from the source under test (translate/pyruns2coq.py) ----
GEN = 'gen/RunsGen.v'
TRUSTED += ['translate/pyruns2coq.py (fail-closed AST translator of util.ts / edge_rising / edge_falling / epochs / smooth_epochs / '
            'debounce_epochs to coq/gen/RunsGen.v; arrays are values - in-place updates are accepted only on arrays the function '
            'created itself; it pins: the signature `epochs(x, pad=0)` with pad fixed to 0, the whole `if pad:` block of epochs by its '
            'exact text (dropped: the pad != 0 path is NOT covered by the tie), `np.array([]).reshape((0, 2))` as the empty (0, 2) '
            'array; docstrings and comments are ignored; self-tested on every run: the emitted definitions are evaluated by coqc '
            '(vm_compute) on ~250 inputs against the real functions)',
            'the NumPy / Python primitives of coq/Runs/NumpyPrims.v as modelled (exercised by that self-test, not proved): '
            'bind, and_lazy (short-circuit `and`), np_index / np_index2 (a[i], a[i, j], negative indices wrap, out of range raises), '
            'np_col0 / np_col1 (a[:, c]), np_astype_i, np_diff, np_r_cons / np_r_snoc (np.r_), np_eq_s / np_ge_s (array vs scalar), '
            'np_sub, np_flatnonzero, np_c_ (unequal lengths raise), np_select (boolean row selection, a copy), np_col1_add / '
            'np_col1_sub (a[:, 1] += d), np_sort_axis0 (each column sorted independently), np_array (copy), np_empty_0_2, py_append']
ASSUMPTIONS += ['translator tie: the while loops of smooth_epochs are Fixpoints on fuel; the tie theorems hold for every fuel above the '
                'number of intervals (C18_source_smooth_fuel_refuted: not for less) - termination within that bound is part of the claim']


def translate(repo):
    """Regenerate coq/gen/RunsGen.v from <repo>/psiaudio/util.py and self-test it.  A source the translator cannot digest, a
    generated file that does not type-check or a failed self-test raise: the driver reports a broken tie (fail closed)."""
    import os
    import random
    import vlib
    from translate import pyruns2coq
    path = os.path.join(vlib.COQ, GEN)
    head = ('(* GENERATED on every run by harness/C18.py translate() with translate/pyruns2coq.py from\n'
            f'   {repo}/psiaudio/util.py - do not edit.  Vocabulary: coq/Runs/NumpyPrims.v.  Tie theorems: coq/Runs/ProofsTie.v. *)\n')
    try:
        text, info = pyruns2coq.translate(repo)
    except pyruns2coq.TranslatorGap as e:
        msg = ''.join(ch if ch.isalnum() or ch in " _.,:;()[]{}=+-*/<>'`" else ' ' for ch in str(e))
        msg = msg.replace('(*', '( *').replace('*)', '* )')[:400]
        with open(path, 'w') as f:          # deliberately ill-typed: whoever builds it sees the reason
            f.write(head + 'From Coq Require Import ZArith String.\n' + f'Definition translator_gap : Z :=\n  "{msg}"%string.\n')
        raise
    with open(path, 'w') as f:              # always rewritten: always re-checked
        f.write(head + text)
    rc, out = vlib.coq_build('gen/RunsGen.vo')
    if rc != 0:
        raise pyruns2coq.TranslatorGap('the generated file does not type-check: ' + out[-800:])
    util = _util()
    if os.path.realpath(util.__file__) != os.path.realpath(os.path.join(repo, 'psiaudio', 'util.py')):
        raise vlib.MachineryError(f'psiaudio.util is {util.__file__}, not the translated source under {repo}')
    terms = pyruns2coq.selftest_terms(util, random.Random(7))
    try:
        failing = vlib.run_cases(PROP, ['gen.RunsGen', 'Runs.NumpyPrims'], terms, tag='tieself')
    except vlib.MachineryError as e:
        raise pyruns2coq.TranslatorGap('self-test could not be evaluated: ' + str(e)[-600:])
    if failing:
        raise pyruns2coq.TranslatorGap(f'self-test: the generated definitions disagree with the real functions on {len(failing)} of '
                                       f'{len(terms)} inputs, first: {terms[failing[0]]}')
    info.update(gen_files=[GEN], primitives=pyruns2coq.PRIMITIVES, selftest={'evaluations': len(terms), 'failing': 0})
    return info
