"""C02 - queue output is a faithful, chunk-invariant timeline of the notified trials.  Model: coq/Queue/Model.v."""
import itertools
import numpy as np
import queuecore as qc

PROP = 'C02'
REQUIRES = ['Queue.Model', 'Queue.Spec']
RULE = ('all seven queue classes x stimulus sets (1-4 stimuli; array / FixedWaveform / Cos2-gated-tone sources; lengths 0..12; trials 1..4; '
        'delays 0..5 samples, scalar or per-trial lists) x rates {1000, 25000, 97656.25, 195312.5} x start offsets {0, k/fs, off-grid (k+0.34)/fs}; request sequences: '
        'every composition of totals <= 7 (quick: for 3 configs; thorough: 12), requests ending exactly at / one before / one after every '
        'waveform and delay boundary, then seeded random. No pause. Coverage-audit block: every way of constructing each class (class / `queues` dict; '
        'fs by keyword / positionally / set_fs(); fs float / int / NumPy scalar; options explicit / defaulted / positional / truthy / NumPy int; '
        'set_t0 skipped), sources as int64 / int16 / float32 / read-only / strided ndarrays and Python lists, trial counts int / NumPy int / float / 0, '
        'delays None / int 0 / NumPy scalar / tuple / ndarray / iterator / generator / itertools.cycle / off-grid / half-sample / tiny negative / '
        'negative (raises) / exhausted lists (raise), offsets negative / tiny / 1e9 samples, rates 0.75 Hz .. 10 MHz incl. 1e6/3, request sizes 0 / NumPy ints / '
        'by keyword, pop_buffer(n, decrement=False), extend() with scalars / tuples / ndarrays / omitted delays, duration= and metadata= (incl. falsy), '
        'clone() at every phase with the original running on, get_closest_key around every start, count_factories / get_info / get_max_duration / fs, '
        'a second subscriber and the decrement event; the caller overwrites its sources, draws from its factories, and scribbles on every returned '
        'buffer and get_info dict. Non-trivial: at least two requests and two trials generated.')
TRUSTED = ['harness/queuecore.py (queue builder, uuid->index mapping, event recorder, decoder)',
           'np.random.randint choices of RandomSignalQueue are taken from the observed notifications (the model checks membership); '
           'RandomState(seed).shuffle blocks are recomputed by the harness',
           "no Coq counterpart (rules written in harness/queuecore.py): the 'decrement' notification (base-class decrement_key only, when trials remain), "
           "get_max_duration(), get_info() fields, the fs property, metadata / decrement fields of a notification, clone() == its original",
           'Queue/Model.v additions run_queue_x / pop_buffer_nd / closest_key / mk_entry_dur are correspondence-only (no theorem is about them); default '
           'operations go through the proved pop_buffer / pause / resume']
ASSUMPTIONS = ['per-trial delay lists shorter than the number of trials drawn raise StopIteration (model: error value); the oracle does not judge raising histories',
               'request sizes >= 0; pop_buffer(n, decrement=False) only on stimuli that occupy at least one sample per trial (otherwise the code never returns)',
               'outside every property: insert() (always raises), 2-D sources, extend() with sequences of the wrong length (raises KeyError from the message template), '
               'a str / dict as extend(metadata=...), one delay iterator shared by several stimuli, the caller mutating a delay list or a notified info dict afterwards '
               '(both are used by reference), callbacks that raise, manual accounting (pop_next / pop_key / decrement_key / remove_key / next_trial / cancel / requeue / '
               'rewind_samples called directly), float request sizes (TypeError), fs changed after sources were added']
FS = [1000.0, 25000.0, 97656.25, 195312.5]


def _stimsets(rng, n):
    out = []
    for _ in range(n):
        k = rng.randint(1, 4)
        st = []
        for _ in range(k):
            tr = rng.randint(1, 4)
            d = rng.choice([0, 0, 1, 3, 5, [rng.randint(0, 4) for _ in range(tr + 12)]])
            st.append({'len': rng.choice([0, 1, 2, 5, 7, 12]), 'trials': tr,
                       'kind': rng.choice(['array', 'array', 'gen', 'cos2']), 'delays': d})
        out.append(st)
    return out


def _boundaries(case):
    """sample positions of waveform/delay boundaries of the no-pause timeline (from a reference run)"""
    b = {0}
    try:
        res = qc.run_impl(dict(case, ops=[['pop', 400]]))
    except Exception:
        return sorted(b)          # whatever escapes here escapes again in impl(), where the driver reports it
    if 'raised' in res[0]:
        return sorted(b)
    for e in res[0]['events']:
        if e[0] == 'added':
            st = case['stims'][e[1]]
            b.update([e[2], e[2] + st['len']])
    return sorted(x for x in b if x <= 400)


def cases(tier, rng):
    quick = tier == 'quick'
    base = [
        {'pol': 'fifo', 'stims': [{'len': 3, 'trials': 2, 'kind': 'array', 'delays': 1}, {'len': 2, 'trials': 1, 'kind': 'gen', 'delays': 0}]},
        {'pol': 'inter_keep', 'stims': [{'len': 2, 'trials': 1, 'kind': 'gen', 'delays': 0}, {'len': 0, 'trials': 2, 'kind': 'array', 'delays': 2}]},
        {'pol': 'grouped', 'gs': 2, 'stims': [{'len': 1, 'trials': 1, 'kind': 'array', 'delays': 0}] * 2 + [{'len': 2, 'trials': 2, 'kind': 'cos2', 'delays': 1}] * 2},
    ]
    nconf = 3 if quick else 12
    confs = base[:nconf]
    while len(confs) < nconf:
        confs.append({'pol': rng.choice(qc.POLICIES), 'gs': rng.randint(1, 3), 'stims': _stimsets(rng, 1)[0]})
    for c in confs:
        c = dict(c, fs=rng.choice(FS), t0=rng.choice([0, 17, 12.34]), seed=rng.randint(0, 50))
        for total in range(1, 8):
            for cuts in itertools.product([0, 1], repeat=total - 1):
                sizes, cur = [], 1
                for x in cuts:
                    if x:
                        sizes.append(cur)
                        cur = 1
                    else:
                        cur += 1
                sizes.append(cur)
                yield dict(c, ops=[['pop', s] for s in sizes] + [['pop', 30]])
    for st in _stimsets(rng, 25 if quick else 400):
        for pol in (rng.sample(qc.POLICIES, 3) if quick else qc.POLICIES):
            c = {'pol': pol, 'gs': rng.randint(1, len(st) + 1), 'stims': st, 'fs': rng.choice(FS),
                 't0': rng.choice([0, 0, 5, 1234, 3086.4, 7.77]), 'seed': rng.randint(0, 99), 'fill': rng.choice(['append', 'extend', 'mixed'])}
            B = _boundaries(c)
            pts = sorted({b + d for b in B for d in (-1, 0, 1) if b + d > 0})
            # requests that end exactly on / around every boundary
            for _ in range(2 if quick else 6):
                cut = sorted(rng.sample(pts, min(len(pts), rng.randint(1, 5)))) if pts else [3]
                sizes = [b - a for a, b in zip([0] + cut, cut)]
                yield dict(c, ops=[['pop', s] for s in sizes if s > 0] + [['pop', rng.randint(1, 60)], ['pop', 40]])
            yield dict(c, ops=[['pop', rng.randint(1, 25)] for _ in range(rng.randint(1, 8))] + [['pop', 120]])
    yield from _audit_cases(quick, rng)
    # a queue to which NOTHING was appended: silence and 'empty' from every class
    for pol in qc.POLICIES:
        for ops in ([['pop', 5], ['pop', 3]], [['pop', 0], ['pop', 1]]):
            yield {'pol': pol, 'gs': 2, 'stims': [], 'fs': rng.choice(FS), 't0': rng.choice([0, 9]), 'seed': 1,
                   'ops': ops, 'fill': 'append'}


def _chunkings(c, rng, k=2, tail=40):
    """request sequences ending at / one before / one after the waveform and delay boundaries of c's timeline"""
    B = _boundaries(c)
    pts = sorted({b + d for b in B for d in (-1, 0, 1) if b + d > 0})
    for _ in range(k):
        cut = sorted(rng.sample(pts, min(len(pts), rng.randint(1, 5)))) if pts else [3]
        sizes = [b - a for a, b in zip([0] + cut, cut)]
        yield [['pop', s] for s in sizes if s > 0] + [['pop', rng.randint(1, 30)], ['pop', tail]]


def _audit_cases(quick, rng):
    """Public surface of queue.py that the generators above never reached (coverage audit): constructor
    variants, argument kinds, sentinel values, boundary values of every comparison, caller aliasing, twins."""
    S2 = [{'len': 3, 'trials': 2, 'kind': 'array', 'delays': 1}, {'len': 2, 'trials': 1, 'kind': 'gen', 'delays': 0},
          {'len': 4, 'trials': 2, 'kind': 'array', 'delays': 2}]
    rep = 1 if quick else 4

    def base(pol, stims, **kw):
        c = {'pol': pol, 'gs': 2, 'stims': stims, 'fs': rng.choice(FS), 't0': rng.choice([0, 17, 12.34]),
             'seed': rng.randint(0, 50), 'fill': rng.choice(['append', 'extend', 'mixed'])}
        c.update(kw)
        return c

    # A. every way of constructing each queue class: class / `queues` dict, fs by keyword / positionally / set_fs(),
    #    fs as float / int / NumPy scalar, options explicit / defaulted / positional / truthy non-bool / NumPy int,
    #    set_t0() never called
    for pol in qc.POLICIES:
        for mk in ({'via': 'dict'}, {'fs': 'set_fs', 'fs_kind': 'np64'}, {'fs': 'pos', 'fs_kind': 'int'},
                   {'opt': 'default', 't0': 'skip'}, {'opt': 'pos', 'fs_kind': 'int'}, {'opt': 'truthy', 'via': 'dict'},
                   {'opt': 'np', 'fs': 'set_fs'}):
            for _ in range(rep):
                c = base(pol, S2, mk=mk, seed=0 if mk.get('opt') == 'default' else rng.randint(0, 9))
                if mk.get('fs_kind') == 'int':
                    c['fs'] = rng.choice([1000.0, 25000.0])
                if mk.get('t0') == 'skip':
                    c['t0'] = 0
                for ops in _chunkings(c, rng, 1):
                    yield dict(c, ops=ops)
    # B. containers and dtypes of array sources, twins of the generator path
    for kind in ('i64', 'i16', 'f32', 'ro', 'view', 'list', 'gen', 'cos2', 'gate', 'notch'):
        stateful = kind in ('gate', 'notch')         # sources whose samples depend on the generator's own history
        for pol in (rng.sample(qc.POLICIES, 4 if stateful else 2) if quick else qc.POLICIES):
            st = [{'len': rng.choice([6, 9, 12] if stateful else [0, 1, 3, 5]), 'trials': rng.randint(2 if stateful else 1, 3), 'kind': kind,
                   'delays': rng.choice([0, 1, 2])},
                  {'len': rng.choice([2, 4]), 'trials': rng.randint(1, 2), 'kind': rng.choice(['array', kind]), 'delays': rng.choice([0, 2])}]
            c = base(pol, st)
            for ops in _chunkings(c, rng, 5 if stateful else 2):
                yield dict(c, ops=ops)
    # C. kinds of trial counts; a zero count (falsy) is presented once by the FIFO-type queues
    for tk in ('np', 'float', 'npf'):
        for pol in (rng.sample(qc.POLICIES, 3) if quick else qc.POLICIES):
            st = [dict(x, tkind=tk) for x in S2]
            c = base(pol, st)
            for ops in _chunkings(c, rng, 1):
                yield dict(c, ops=ops)
    for pol in qc.POLICIES:
        st = [dict(S2[0], trials=0), S2[1]]
        c = base(pol, st)
        for ops in _chunkings(c, rng, 1):
            yield dict(c, ops=ops)
    # D. delays: None / int 0 / NumPy scalar / tuple / ndarray / iterator / generator / itertools.cycle; off-grid and
    #    half-sample values (round half even of delay*fs), tiny negatives that round to 0, negatives that raise,
    #    finite lists exactly as long as needed and one too short (StopIteration)
    dvars = [{'delays': None}, {'delays': 0, 'dkind': 'int0'}, {'delays': 2, 'dkind': 'np'}, {'delays': 0.0},
             {'delays': [1, 0, 2, 3, 0, 1, 2, 0, 1, 1, 0, 2], 'dkind': 'tuple'}, {'delays': [2, 0, 1, 3, 0, 1, 2, 0, 1, 1, 0, 2], 'dkind': 'ndarray'},
             {'delays': [0, 2, 1, 0, 3, 1, 2, 0, 1, 1, 0, 2], 'dkind': 'iter'}, {'delays': [1, 2, 0, 0, 3, 1, 2, 0, 1, 1, 0, 2], 'dkind': 'gen'},
             {'delays': [0, 3], 'dkind': 'cycle'}, {'delays': [2, 0, 1], 'dkind': 'cycle'}, {'delays': [1.4, 0.5, 2.5, 0.3], 'dkind': 'cycle'},
             {'delays': 0.3}, {'delays': 0.5}, {'delays': 1.5}, {'delays': 2.5}, {'delays': 2.7}, {'delays': 0.49999},
             {'delays': -0.2}, {'delays': -0.4}, {'delays': -0.6}, {'delays': -1}, {'delays': []}, {'delays': [], 'dkind': 'ndarray'}]
    for dv in dvars:
        for pol in (rng.sample(qc.POLICIES, 2) if quick else qc.POLICIES):
            st = [dict(S2[0], **dv), dict(S2[1], **rng.choice(dvars[:3] + dvars[11:17])), dict(S2[2], **dv)]
            c = base(pol, st)
            for ops in _chunkings(c, rng, 1):
                yield dict(c, ops=ops)
    for short in (0, 1):
        for pol in ('fifo', 'random', 'inter_nokeep'):
            tr = [rng.randint(1, 3) for _ in range(2)]
            st = [{'len': 2, 'trials': t, 'kind': rng.choice(['array', 'gen']), 'delays': [rng.randint(0, 2) for _ in range(t - short)],
                   'dkind': rng.choice(['auto', 'tuple', 'iter'])} for t in tr]
            c = base(pol, st)
            yield dict(c, ops=[['pop', 3], ['pop', 40], ['pop', 5]])
    # E. start offsets: negative on- and off-grid, tiny, huge
    for t0 in (-5, -7.3, 1e-7, -1e-7, 0.5, 10 ** 9, 10 ** 9 + 0.25):
        for pol in rng.sample(qc.POLICIES, 2 if quick else 5):
            c = base(pol, S2, t0=t0)
            for ops in _chunkings(c, rng, 1):
                yield dict(c, ops=ops)
    # E2. rates: audio rates, a rate that is not a binary fraction, below 1 Hz, very high
    for fs in (44100.0, 48000.0, 1e6 / 3, 0.75, 12207.03125, 1e7):
        for pol in rng.sample(qc.POLICIES, 2 if quick else 7):
            c = base(pol, [dict(S2[0], delays=rng.choice([1, 1.5, 0.3])), dict(S2[1], kind=rng.choice(['gen', 'cos2'])), S2[2]],
                     fs=fs, t0=rng.choice([0, 3, 2.6, -4]))
            for ops in _chunkings(c, rng, 1):
                yield dict(c, ops=ops)
    # E3. extend() given tuples / ndarrays as its parallel sequences
    for pol in qc.POLICIES:
        c = base(pol, [dict(x, tkind=rng.choice(['int', 'np'])) for x in S2], fill='extend_np')
        for ops in _chunkings(c, rng, 1):
            yield dict(c, ops=ops)
        c = base(pol, [dict(S2[0], delays=None), dict(S2[1], delays=[1, 0, 2, 1, 1, 0, 0, 2, 1, 1, 1, 1], dkind='tuple'), S2[2]], fill='extend_np')
        for ops in _chunkings(c, rng, 1):
            yield dict(c, ops=ops)
    # F. request sizes as NumPy integers / by keyword; zero-size and negative requests (an empty buffer, nothing else happens)
    for pol in qc.POLICIES:
        c = base(pol, S2)
        for ops in _chunkings(c, rng, 1):
            yield dict(c, ops=[o + [rng.choice(['np', 'np32', 'kw'])] for o in ops])
    # zero-size requests are ordinary requests: first, last, repeated, and as (a, 0, b) at every boundary
    for pol in qc.POLICIES:
        c = base(pol, S2)
        for ops in _chunkings(c, rng, 2):
            for _ in range(rng.randint(1, 3)):
                ops.insert(rng.randint(0, len(ops)), ['pop', 0, rng.choice(['', '', 'np', 'kw'])])
            yield dict(c, ops=ops)
        B = _boundaries(c)
        for b in (B[1:6] if quick else B[1:]):
            yield dict(c, ops=[['pop', 0], ['pop', b], ['pop', 0], ['pop', 0], ['pop', 5], ['pop', 60], ['pop', 0]])
    if not quick:
        for pol in qc.POLICIES:
            yield dict(base(pol, [dict(S2[0], trials=100), dict(S2[1], trials=60)]), ops=[['pop', 1], ['pop', 1500], ['pop', 7]])   # < 120 shuffle blocks
    # G. pop_buffer(n, decrement=False): trials are set up and notified, the counters stay (no queue ever runs out)
    P = [{'len': 3, 'trials': 2, 'kind': 'array', 'delays': 1}, {'len': 1, 'trials': 1, 'kind': 'gen', 'delays': 0},
         {'len': 0, 'trials': 2, 'kind': 'array', 'delays': 2}]
    for pol in qc.POLICIES:
        for flag in ('nd', 'ndkw'):
            c = base(pol, P)
            sizes = [rng.randint(1, 6) for _ in range(rng.randint(2, 5))] + [25]
            yield dict(c, ops=[['pop', n, flag] for n in sizes])
        c = base(pol, P)
        yield dict(c, ops=[['pop', rng.randint(1, 9), rng.choice(['', 'nd'])] for _ in range(6)] + [['pop', 60]])
    # H. extend() with scalars applied to every source, delays omitted, per-source lists of per-trial delays
    for pol in qc.POLICIES:
        for dl in (None, 0, 2, 1.5):
            st = [{'len': n, 'trials': 2, 'kind': k, 'delays': dl} for n, k in ((3, 'array'), (2, 'gen'), (0, 'array'), (1, 'i64'))]
            c = base(pol, st[:rng.randint(1, 4)], fill='extend_scalar')
            for ops in _chunkings(c, rng, 1):
                yield dict(c, ops=ops)
    # I. declared duration (explicit, equal to / longer / shorter than the waveform, 0) and metadata (incl. falsy)
    metas = [0, '', 'x', {'a': 1}, [1, 2], False, None, 3.5]
    for pol in qc.POLICIES:
        for _ in range(rep):
            st = [dict(x, dur=rng.choice([x['len'], x['len'] + 2, 0, max(0, x['len'] - 1)]), meta=rng.choice(metas)) for x in S2]
            if rng.random() < 0.5:
                del st[1]['dur']
            if rng.random() < 0.5:
                del st[2]['meta']
            c = base(pol, st)
            for ops in _chunkings(c, rng, 1):
                yield dict(c, ops=ops)
    # J. clone() at every phase (fresh, inside a waveform, in a gap, after empty); the original keeps running
    for pol in qc.POLICIES:
        c = base(pol, S2)
        for at in ([0, 2, 4, 9] if quick else range(0, 30)):
            pre = [['pop', at]] if at else []
            yield dict(c, ops=pre + [['clone'], ['pop', 3], ['pop', 2], ['clone'], ['pop', 50], ['pop', 4]])
    # K. get_closest_key(t) around every notified start, on and off the grid, before the first trial
    for pol in qc.POLICIES:
        c = base(pol, S2)
        B = _boundaries(c)
        qs = sorted({b + d for b in B[:8] for d in (-1, -0.5, 0, 0.5, 1)} | {-3})
        yield dict(c, ops=[['closest', 0], ['pop', 7]] + [['closest', k] for k in qs] + [['pop', 60]] + [['closest', k] for k in qs[-4:]])


def impl(case):
    return qc.run_impl(case)


def _tests(args, case):
    from vlib import zlist, zlit
    ns = [o[1] for o in case['ops']]
    t = [f"timeline_test {args} {zlist(ns)}"]
    for i in range(min(len(ns) - 1, 3)):
        t.append(f"split_test {args} {zlist(ns[:i])} {zlit(ns[i])} {zlit(ns[i + 1])}")
    return t


def expr(case, res):
    e, n = qc.coq_expr(case, res, _tests)
    case['_ntests'] = n
    return e


def agree(case, res, mo):
    return qc.compare(case, res, mo, case.get('_ntests', 0))


def nontrivial(case, res):
    added = sum(1 for r in res for e in r.get('events', []) if e[0] == 'added')
    return len(case['ops']) >= 2 and added >= 2


def oracle(case, res):
    """C02 on the implementation alone."""
    fs = case['fs']
    if any('raised' in r for r in res):
        return None   # judged by C03 (must not raise)
    out = []
    added = []
    for r in res:
        out += r.get('wave', [])
        added += [e for e in r['events'] if e[0] == 'added']
    n = len(out)
    if n == 0:
        return None
    # clock
    last = [r for r in res if 'status' in r][-1]['status']
    if last['samples'] != n or not last['ts_exact']:
        return f'queue clock {last["samples"]} != samples emitted {n}'
    # chunk invariance against one single request on a fresh queue
    flags = {('nd' if (len(o) > 2 and o[2] in ('nd', 'ndkw')) else '') for o in case['ops'] if o[0] == 'pop'}
    if len(flags) > 1:
        one = None            # automatic and manual decrement mixed: no single request is equivalent
    else:
        try:
            one = qc.run_impl(dict(case, ops=[['pop', n, flags.pop()]]))[0]
        except Exception as e:
            return f'a single request of {n} samples raised {type(e).__name__}: {e}'
    if one is None:
        pass
    elif 'raised' in one:
        return f'single request raised {one["raised"]}'
    elif one['wave'] != out:
        j = [a != b for a, b in zip(one['wave'], out)].index(True)
        return f'output depends on chunking (first difference at sample {j})'
    elif [e for e in one['events'] if e[0] == 'added'] != added:
        a1 = [e[:3] for e in one['events'] if e[0] == 'added']
        return f'added notifications depend on chunking: {a1[:6]} vs {[e[:3] for e in added][:6]}'
    # timeline rendering
    exp = np.zeros(n)
    prev_end = None
    waves = [qc.expected_wave(st, k, fs) for k, st in enumerate(case['stims'])]
    for e in added:
        k, s, exact = e[1], e[2], e[3]
        if not exact:
            return 'a notified start time is not on the sample grid'
        w = waves[k]
        if np.any(exp[s:s + len(w)] != 0):
            return f'trial at {s} overlaps the previous one'
        exp[s:s + len(w)] = w[:max(0, n - s)]
        prev_end = s + len(w)
    if not np.array_equal(exp, np.asarray(out)):
        j = int(np.argmax(exp != np.asarray(out)))
        return f'output is not the rendering of the notified trials (sample {j}: {out[j]} vs {exp[j]})'
    # spacing: t0_{k+1} = t0_k + len_k + round(delay_k*fs)
    used = [0] * len(case['stims'])
    for (e1, e2) in zip(added, added[1:]):
        k = e1[1]
        d, cyc = qc.eff_delays(case['stims'][k], fs)
        if (not d) or (not cyc and used[k] >= len(d)):
            return f'stimulus {k} was presented {used[k] + 1} times with only {len(d)} per-trial delays queued'
        dl = d[used[k] % len(d)] if cyc else d[used[k]]
        used[k] += 1
        if e2[2] != e1[2] + case['stims'][k]['len'] + dl:
            return f'trials at {e1[2]} and {e2[2]} are not separated by the delay {dl}'
    return None


def distribution(cases, results):
    d = {}
    for c in cases:
        d[c['pol']] = d.get(c['pol'], 0) + 1
    return d


# ================================================= ADDITION (long gaps) ===============================================
# Inter-trial delays of MORE THAN 2**16 SAMPLES consumed by a single request (0.34 s at 195 kHz): the delay branch of
# _pop_buffer must hand out the whole gap however long it is.  Oracle only - C02_timeline has no bound on delays or
# request sizes, but printing 2e5 model samples per case is pointless; chunk invariance against one request, the rendering
# of the notified trials and the exact spacing are judged on the implementation alone (the regular oracle above).
_cases0, _expr0, _agree0 = cases, expr, agree

RULE += (' (long gaps) inter-trial delays of 65537 .. 131073 samples consumed by one request and by requests of 1000 / 66000 '
         'samples: output, notifications and spacing as for short delays.')


def cases(tier, rng):
    yield from _cases0(tier, rng)
    for pol in (rng.sample(qc.POLICIES, 2) if tier == 'quick' else qc.POLICIES):
        gap = rng.choice([65537, 70000, 131073])
        st = [{'len': 3, 'trials': 2, 'kind': 'array', 'delays': gap}, {'len': 2, 'trials': 1, 'kind': 'gen', 'delays': gap + 5}]
        c = {'k': 'longgap', 'pol': pol, 'gs': 2, 'stims': st, 'fs': rng.choice([25000.0, 195312.5]), 't0': 0, 'seed': 1,
             'fill': 'append'}
        total = 3 * gap + 40
        yield dict(c, ops=[['pop', 2], ['pop', gap + 10], ['pop', total]])
        yield dict(c, ops=[['pop', 4], ['pop', 1000], ['pop', 66000], ['pop', total]])


def expr(case, res):
    return '([1] : list Z)' if case.get('k') == 'longgap' else _expr0(case, res)


def agree(case, res, mo):
    return None if case.get('k') == 'longgap' else _agree0(case, res, mo)
# ================================================= end of the long-gap addition =======================================


# ====================================================================================================================
# Translator tie (appended; nothing above is changed).  On every run coq/gen/QueueStepGen.v is REGENERATED from the
# source under test by translate/pyqueue2coq.py: one Gallina definition per method of the generation path of
# AbstractSignalQueue and its subclasses (_get_samples_waveform, _get_samples_generator, remove_key, decrement_key x3,
# next_key x5, pop_key, pop_next, next_trial, _pop_buffer, pop_buffer), statement by statement, and the dispatch of
# next_key / decrement_key as the class hierarchy of the source resolves it.  coq/Queue/ProofsTie.v proves these
# definitions equal to the hand-written model (theorems C02_source_* of coq/Props/C02.v), so a change of the bookkeeping
# in queue.py that the model does not have breaks those proofs (reported by the driver as a broken tie), whether or
# not a generated history reaches it.
import os as _os
import vlib as _vlib
from translate import pyqueue2coq as _pyqueue2coq

GEN = 'gen/QueueStepGen.v'
TRUSTED += [
    'translate/pyqueue2coq.py (fail-closed `ast` translator psiaudio/queue.py -> coq/gen/QueueStepGen.v).  Its tables pin: the '
    'class hierarchy (bases of the seven classes) and the set of method names of every class; the signatures of the translated '
    'methods; whole texts of as_iterator, _notify (the recorder of the harness is the subscriber), AbstractSignalQueue.next_key, '
    'the __init__ of the interleaved / blocked-random / grouped / blocked-FIFO queues and BlockedFIFOSignalQueue.append (the '
    'policy parameters: keep_complete_waveforms and group_size are the arguments of the model\'s policy constructor; a '
    'blocked-FIFO queue is PGrouped (number of stimuli)); in next_trial the source set-up (`self._source = data[\'source\']` + the '
    'try: reset() / except AttributeError block -> the whole waveform of the stimulus, read by the reader that matches its kind), '
    '`delay = next(data[\'delays\'])` + `int(round(delay * self._fs))` -> the model\'s delay iterator in samples (the harness hands the '
    'model that integer), `t0 = self._t0 + self._samples / self._fs` -> the clock in samples; `return self._get_samples(samples)` -> '
    'the reader matching the kind of the queued source; the \'decrement\' notification dropped (no counterpart in the model; checked '
    'by harness/queuecore.py); np.random.randint / RandomState.shuffle -> the model\'s oracles q_choices (the KEY drawn, checked to be '
    'queued) / q_perms; logging dropped.  The fuel of the interleaved queue\'s `while True` is len(_ordering) (the cursor has that '
    'period); out of fuel is an error value, as in the model.  Dicts keyed by uuid are the model\'s lists indexed by insertion '
    'number; a local `data = self._data[key]` is a reference to the shared dict (translated to the key, after the KeyError check); '
    'the other methods of these classes (pause / cancel / requeue / resume / rewind_samples / append / ...) are not translated and '
    'not called by the translated ones: they stay tied by the differential harness.  Self-test on every translation '
    '(translate/pyqueue_selftest.py): 14 real queues (every class, array and factory sources, fs = 1) driven to random states, '
    'every translated entry point run on the REAL object and the outcome - value, exception, all fields and notifications '
    'afterwards, random choices recorded in a dry run - emitted as an Example that Coq checks by vm_compute against the '
    'generated definition)',
    'coq/Queue/TieLib.v: exceptions as values; the object = model state + notifications so far; an ndarray source as a view '
    '(key, start, stop) of the queued waveform with CPython slice adjustment (Common/PySlice py_lo / py_hi), a factory as '
    '(key, position, length) with n_samples_remaining / next / is_complete; np.zeros / np.concatenate refusing a negative length / '
    'an empty list; l[i] with negative indices, list.remove, list.pop, % with ZeroDivisionError']


def translate(repo):
    """Regenerate coq/gen/QueueStepGen.v from the source under test.  Anything the translator cannot digest (or a real
    method that fails in the self-test) is written as a generated file that does not compile, so that the driver reports
    the C02_source_* proofs as broken (fail closed)."""
    info = {'gen_files': [GEN], 'source': [_os.path.join(repo, 'psiaudio/queue.py')], 'gap': None}
    try:
        text, tinfo = _pyqueue2coq.generate(repo)
        info.update(tinfo)
    except _vlib.MachineryError:
        raise
    except Exception as e:
        info['gap'] = f'{type(e).__name__}: {e}'
        msg = ''.join(ch if ch.isalnum() or ch in " _.,:;()[]{}=+-*/<>'`" else ' ' for ch in info['gap'])
        msg = msg.replace('(*', '( *').replace('*)', '* )')[:400]
        # deliberately ill-typed, so that the build fails and coqc's error message carries the reason
        text = ('(* GENERATED by harness/C02.py translate(): translate/pyqueue2coq.py stopped on\n'
                f'   {repo}/psiaudio/queue.py - do not edit. *)\n'
                'From Coq Require Import ZArith String.\n'
                f'Definition translator_gap : Z :=\n  "{msg}"%string.\n')
    with open(_os.path.join(_vlib.COQ, GEN), 'w') as f:      # always rewritten: always re-checked
        f.write(text)
    # the correspondence files only need the hand-written model; make sure it is built even if the tie breaks
    for r in REQUIRES:
        rc, out = _vlib.coq_build(r.replace('.', '/') + '.vo')
        if rc != 0:
            raise _vlib.MachineryError(f'{r} does not build:\n' + out[-3000:])
    return info
