"""C02 - queue output is a faithful, chunk-invariant timeline of the notified trials.  Model: coq/Queue/Model.v."""
import itertools
import numpy as np
import queuecore as qc

PROP = 'C02'
REQUIRES = ['Queue.Model', 'Queue.Spec']
RULE = ('all seven queue classes x stimulus sets (1-4 stimuli; array / FixedWaveform / Cos2-gated-tone sources; lengths 0..12; trials 1..4; '
        'delays 0..5 samples, scalar or per-trial lists) x rates {1000, 25000, 97656.25, 195312.5} x start offsets {0, k/fs, off-grid (k+0.34)/fs}; request sequences: '
        'every composition of totals <= 7 (quick: for 3 configs; thorough: 12), requests ending exactly at / one before / one after every '
        'waveform and delay boundary, then seeded random. No pause. Non-trivial: at least two requests and two trials generated.')
TRUSTED = ['harness/queuecore.py (queue builder, uuid->index mapping, event recorder, decoder)',
           'np.random.randint choices of RandomSignalQueue are taken from the observed notifications (the model checks membership); '
           'RandomState(seed).shuffle blocks are recomputed by the harness']
ASSUMPTIONS = ['per-trial delay lists are at least as long as the number of trials drawn', 'insert() (always raises) and 2-D sources are outside the model']
FS = [1000.0, 25000.0, 97656.25, 195312.5]


def _stimsets(rng, n):
    out = []
    for _ in range(n):
        k = rng.randint(1, 4)
        st = []
        for _ in range(k):
            tr = rng.randint(1, 4)
            d = rng.choice([0, 0, 1, 3, 5, [rng.randint(0, 4) for _ in range(tr + 12)]])
            st.append({'len': rng.choice([0, 1, 2, 5, 7, 12]), 'trials': tr,
                       'kind': rng.choice(['array', 'array', 'gen', 'cos2']), 'delays': d})
        out.append(st)
    return out


def _boundaries(case):
    """sample positions of waveform/delay boundaries of the no-pause timeline (from a reference run)"""
    res = qc.run_impl(dict(case, ops=[['pop', 400]]))
    b = {0}
    if 'raised' in res[0]:
        return sorted(b)
    for e in res[0]['events']:
        if e[0] == 'added':
            st = case['stims'][e[1]]
            b.update([e[2], e[2] + st['len']])
    return sorted(x for x in b if x <= 400)


def cases(tier, rng):
    quick = tier == 'quick'
    base = [
        {'pol': 'fifo', 'stims': [{'len': 3, 'trials': 2, 'kind': 'array', 'delays': 1}, {'len': 2, 'trials': 1, 'kind': 'gen', 'delays': 0}]},
        {'pol': 'inter_keep', 'stims': [{'len': 2, 'trials': 1, 'kind': 'gen', 'delays': 0}, {'len': 0, 'trials': 2, 'kind': 'array', 'delays': 2}]},
        {'pol': 'grouped', 'gs': 2, 'stims': [{'len': 1, 'trials': 1, 'kind': 'array', 'delays': 0}] * 2 + [{'len': 2, 'trials': 2, 'kind': 'cos2', 'delays': 1}] * 2},
    ]
    nconf = 3 if quick else 12
    confs = base[:nconf]
    while len(confs) < nconf:
        confs.append({'pol': rng.choice(qc.POLICIES), 'gs': rng.randint(1, 3), 'stims': _stimsets(rng, 1)[0]})
    for c in confs:
        c = dict(c, fs=rng.choice(FS), t0=rng.choice([0, 17, 12.34]), seed=rng.randint(0, 50))
        for total in range(1, 8):
            for cuts in itertools.product([0, 1], repeat=total - 1):
                sizes, cur = [], 1
                for x in cuts:
                    if x:
                        sizes.append(cur)
                        cur = 1
                    else:
                        cur += 1
                sizes.append(cur)
                yield dict(c, ops=[['pop', s] for s in sizes] + [['pop', 30]])
    for st in _stimsets(rng, 25 if quick else 400):
        for pol in (rng.sample(qc.POLICIES, 3) if quick else qc.POLICIES):
            c = {'pol': pol, 'gs': rng.randint(1, len(st) + 1), 'stims': st, 'fs': rng.choice(FS),
                 't0': rng.choice([0, 0, 5, 1234, 3086.4, 7.77]), 'seed': rng.randint(0, 99), 'fill': rng.choice(['append', 'extend', 'mixed'])}
            B = _boundaries(c)
            pts = sorted({b + d for b in B for d in (-1, 0, 1) if b + d > 0})
            # requests that end exactly on / around every boundary
            for _ in range(2 if quick else 6):
                cut = sorted(rng.sample(pts, min(len(pts), rng.randint(1, 5)))) if pts else [3]
                sizes = [b - a for a, b in zip([0] + cut, cut)]
                yield dict(c, ops=[['pop', s] for s in sizes if s > 0] + [['pop', rng.randint(1, 60)], ['pop', 40]])
            yield dict(c, ops=[['pop', rng.randint(1, 25)] for _ in range(rng.randint(1, 8))] + [['pop', 120]])


def impl(case):
    return qc.run_impl(case)


def _tests(args, case):
    from vlib import zlist, zlit
    ns = [o[1] for o in case['ops']]
    t = [f"timeline_test {args} {zlist(ns)}"]
    for i in range(min(len(ns) - 1, 3)):
        t.append(f"split_test {args} {zlist(ns[:i])} {zlit(ns[i])} {zlit(ns[i + 1])}")
    return t


def expr(case, res):
    e, n = qc.coq_expr(case, res, _tests)
    case['_ntests'] = n
    return e


def agree(case, res, mo):
    return qc.compare(case, res, mo, case.get('_ntests', 0))


def nontrivial(case, res):
    added = sum(1 for r in res for e in r.get('events', []) if e[0] == 'added')
    return len(case['ops']) >= 2 and added >= 2


def oracle(case, res):
    """C02 on the implementation alone."""
    fs = case['fs']
    if any('raised' in r for r in res):
        return None   # judged by C03 (must not raise)
    out = []
    added = []
    for r in res:
        out += r['wave']
        added += [e for e in r['events'] if e[0] == 'added']
    n = len(out)
    # clock
    if res[-1]['status']['samples'] != n or not res[-1]['status']['ts_exact']:
        return f'queue clock {res[-1]["status"]["samples"]} != samples emitted {n}'
    # chunk invariance against one single request on a fresh queue
    one = qc.run_impl(dict(case, ops=[['pop', n]]))[0]
    if 'raised' in one:
        return f'single request raised {one["raised"]}'
    if one['wave'] != out:
        j = [a != b for a, b in zip(one['wave'], out)].index(True)
        return f'output depends on chunking (first difference at sample {j})'
    a1 = [e[:3] for e in one['events'] if e[0] == 'added']
    if a1 != [e[:3] for e in added]:
        return f'added notifications depend on chunking: {a1[:6]} vs {[e[:3] for e in added][:6]}'
    # timeline rendering
    exp = np.zeros(n)
    prev_end = None
    waves = [qc.expected_wave(st, k, fs) for k, st in enumerate(case['stims'])]
    for e in added:
        _, k, s, exact, dur = e
        if not exact:
            return 'a notified start time is not on the sample grid'
        w = waves[k]
        if np.any(exp[s:s + len(w)] != 0):
            return f'trial at {s} overlaps the previous one'
        exp[s:s + len(w)] = w[:max(0, n - s)]
        prev_end = s + len(w)
    if not np.array_equal(exp, np.asarray(out)):
        j = int(np.argmax(exp != np.asarray(out)))
        return f'output is not the rendering of the notified trials (sample {j}: {out[j]} vs {exp[j]})'
    # spacing: t0_{k+1} = t0_k + len_k + round(delay_k*fs)
    used = [0] * len(case['stims'])
    for (e1, e2) in zip(added, added[1:]):
        k = e1[1]
        d, cyc = qc.eff_delays(case['stims'][k], fs)
        dl = d[used[k] % len(d)] if cyc else d[used[k]]
        used[k] += 1
        if e2[2] != e1[2] + case['stims'][k]['len'] + dl:
            return f'trials at {e1[2]} and {e2[2]} are not separated by the delay {dl}'
    return None


def distribution(cases, results):
    d = {}
    for c in cases:
        d[c['pol']] = d.get(c['pol'], 0) + 1
    return d
