"""C16 - spectral and level utilities satisfy their defining identities.

Theorems (coq/Props/C16.v, proofs coq/Spectrum/Proofs.v) are about the definitions of coq/gen/UtilExprGen.v, REGENERATED here
from $PSIAUDIO_REPO/psiaudio/util.py by translate/pyexpr2coq_ext.py (table translate/c16_spec.py), and about the DFT sums
of coq/Spectrum/DFT.v.  This harness ties the rest: np.fft.rfft / irfft = those sums, the array glue of csd / psd / phase /
tone_conv / csd_to_signal (windows, averaging, trimming, batch shapes) = the model evaluated numerically with the generated
scale factors, and judges the identities on the implementation's own return values (oracle)."""
import math
import os

import numpy as np

import vlib
from vlib import zlit, listlit, blit
from translate import pyexpr2coq_ext, c16_spec, c16c08_common

PROP = 'C16'
REQUIRES = ['Spectrum.Glue']
RULE = ('Frames of every length 4..257 (quick: every length 4..40 plus a sample of the longer ones; every admissible bin for '
        'lengths <= 24, random bins above), even and odd, amplitudes 1e-3..1e3, phases in (-pi, pi), sampling rates incl. '
        '195312.5, without window and with hann / flattop / blackman / hamming at every bin k with J < 2k, 2k + J < N (J the order of '
        'the window; the oracle judges those farther than the main lobe from DC and Nyquist), 1..4 averages with per-block amplitudes and 0..B-1 trailing samples to trim, 1-D and batched 2-D / 3-D input; '
        'DC and Nyquist tones; random frames for Parseval and the inverse transform (even: exact inverse, odd: length only); '
        'unit impulses at every block boundary for the trimming / averaging index model; dB helpers on scalars, lists, arrays, '
        'Series.  Variants: detrend constant / linear / default (tone plus offset and slope, 1-2 averages, with and without window, '
        'read-only input, input left untouched), int64 / int32 / int16 / float32 / list frames, batched (2-D / 3-D) inverse transforms, window tuples (general_hamming, '
        'general_cosine, kaiser, tukey, gaussian) and boxcar, rms / rms_rfft along every axis of 1-3-D arrays with and without '
        'detrending and on Series, psd_df / csd_df / phase_df on 1-D / 2-D arrays, DataFrames, Series, tone_conv on batches with '
        'frequency arrays / lists / ints, dB helpers on ints, int arrays, tuples, NumPy scalars, DataFrames, 0 and empty input.  '
        'Non-trivial: every case except dB cases with a single value.  Distinct = distinct case dictionaries.')
TRUSTED = ['translate/pyexpr2coq.py + translate/pyexpr2coq_ext.py + translate/c16_spec.py (fail-closed AST translator; '
           'self-tested on every run by an independent interpreter of the emitted text against the real functions)',
           'harness/C16.py (generators; DFT sums evaluated in binary64 by explicit cos/sin matrices; comparison tolerances)',
           'np.fft.rfft / irfft are the DFT sums of coq/Spectrum/DFT.v; scipy.signal.get_window(name) is the cosine sum of Spectrum/DFT.v; '
           'scipy.signal.detrend is not modelled (exercised / observed, not proved)']
ASSUMPTIONS = ['identities are stated for detrend=None: the default detrend="linear" of csd / psd / tone_conv / tone_power_conv '
               'subtracts the least-squares line, which is not orthogonal to a sinusoid (bin 1 of 16..257 samples reads 0.64 A - '
               '0.98 A depending on phase; the bias falls as 1/k); tone_phase_conv cannot switch detrending off and is judged '
               'as np.angle of tone_conv with the same default',
               'the laws are proved over the real numbers; the implementation evaluates them in binary64 and agreement is '
               'observed to 1e-9 relative',
               'windows: hann, flattop, blackman, hamming as scipy.signal.get_window(name, n) returns them (periodic); that they are '
               'the cosine sums of order 1, 4, 2, 1 about which C16_window_law speaks is checked numerically (1e-12) in every '
               'windowed case; other scipy windows (kaiser, tukey, ...) are not cosine sums and are not covered; the oracle '
               'judges bins more than the main-lobe half-width (2, 5, 3, 2 bins) from DC and Nyquist, the correspondence also '
               'the nearer bins that the theorem covers (J < 2k, 2k + J < N)',
               'phases are compared modulo 2 pi (np.unwrap adds multiples of 2 pi across bins)',
               'csd_to_signal reconstructs n = 2 (len(csd) - 1) samples (numpy irfft default): the inverse law is stated and '
               'checked for even frame lengths; for odd lengths only the returned length N - 1 is checked (the one-sided '
               'spectrum does not carry the parity of N)',
               'arguments of log10 are > 0 (db(0) = -inf is checked separately)',
               'detrend="constant" leaves a whole-cycle tone intact (zero mean) and is judged exactly; detrend="linear" and the default '
               'are judged as projections (adding an offset and slope changes nothing) and against the least-squares model',
               'windows that are not cosine sums (kaiser 8, tukey 0.5, gaussian 7) are judged 8+ bins from DC / Nyquist within 2e-3 / '
               '1e-3 / 1e-3 (their side lobes)']

GEN = 'gen/UtilExprGen.v'
_DEFS = None
TOL = 1e-9
WINDOWS = {'hann': 2, 'hamming': 2, 'blackman': 3, 'flattop': 5}    # main-lobe half-width in bins
# scipy's periodic windows as cosine sums  w_n = sum_j c_j cos(2 pi j n / N)  (Spectrum/DFT.v cos_window)
COSINE = {'hann': [0.5, -0.5], 'hamming': [0.54, -0.46], 'blackman': [0.42, -0.5, 0.08],
          'flattop': [0.21557895, -0.41663158, 0.277263158, -0.083578947, 0.006947368]}


# ====================================================================================================================
# translator tie
def translate(repo):
    """Regenerate coq/gen/UtilExprGen.v from the source under test (a gap becomes a file that does not compile)."""
    global _DEFS
    head = ('(* GENERATED on every run by harness/C16.py translate() with translate/pyexpr2coq_ext.py from\n'
            f'   {repo}/psiaudio/util.py - do not edit.  n = s.shape[-1]; nbins = len(csd); i = np.arange(n) (sample index);\n'
            '   absr = |tone_conv|; meansq = mean(s**2); sumsq = sum(|x|**2).  Array glue: see translate/c16_spec.py. *)\n')
    info, defs = c16c08_common.generate(repo, c16_spec, vlib.COQ, head)
    info['source'] = [os.path.join(repo, 'psiaudio/util.py')]
    _DEFS = defs
    rc, out = vlib.coq_build('Spectrum/Glue.vo')
    if rc != 0:
        raise vlib.MachineryError('Spectrum/Glue.v does not build:\n' + out[-3000:])
    return info


def _gen(name, *args):
    if _DEFS is None:
        return None
    with np.errstate(all='ignore'):
        return pyexpr2coq_ext.evaluate(_DEFS, name, list(args), np)


# ====================================================================================================================
# helpers
def _util():
    from psiaudio import util
    return util


def _fl(a):
    return [float(v) for v in np.asarray(a, dtype=float).ravel()]


def _cx(a):
    a = np.asarray(a)
    return {'re': _fl(a.real), 'im': _fl(a.imag)}


def _arr(c):
    return np.array(c['re']) + 1j * np.array(c['im'])


def _try(f):
    try:
        return f()
    except (ValueError, TypeError, IndexError, AttributeError) as e:
        return {'err': type(e).__name__, 'msg': str(e)[:120]}


def _iserr(x):
    return isinstance(x, dict) and 'err' in x


def dy(x):
    n, d = float(x).as_integer_ratio()
    return f'(dy {zlit(n)} {zlit(-(d.bit_length() - 1))})'


def _tone(N, k, A, p):
    n = np.arange(N)
    return A * np.sqrt(2) * np.cos(2 * np.pi * k * n / N + p)


def _wrap(a):
    """angle difference folded to (-pi, pi]"""
    return (a + math.pi) % (2 * math.pi) - math.pi


def _dft(x, scale=1.0):
    """the DFT sums of Spectrum/DFT.v (dft_re, dft_im) for every one-sided bin, by explicit cos/sin matrices"""
    x = np.asarray(x, dtype=float)
    N = x.shape[-1]
    m = np.arange(N // 2 + 1)
    ang = 2 * np.pi * np.outer(m, np.arange(N)) / N
    return (np.cos(ang) @ x - 1j * (np.sin(ang) @ x)) * scale


def _irfft_model(c, M):
    """Spectrum/DFT.v irfft: len(c) = M + 1 bins -> 2 M samples"""
    N = 2 * M
    n = np.arange(N)
    out = np.full(N, c[0].real)
    for m in range(1, M):
        a = 2 * np.pi * m * n / N
        out = out + 2 * (c[m].real * np.cos(a) - c[m].imag * np.sin(a))
    out = out + c[M].real * np.cos(np.pi * n)
    return out / N


def _block_amps(case):
    return [case['A'] * (1 + 0.25 * b) for b in range(case['B'])]


def _frames(case):
    """(one frame, the long record for psd: B blocks with amplitudes A (1 + b/4) and r trailing samples to trim)"""
    N, k, p = case['N'], case['k'], case['p']
    x = _tone(N, k, case['A'], p)
    long = np.concatenate([_tone(N, k, a, p) for a in _block_amps(case)] + [np.full(case['r'], 7.5)])
    return x, long


# ====================================================================================================================
# implementation side
def _impl_tone(case):
    util = _util()
    N, k, A, p, fs, B, w = case['N'], case['k'], case['A'], case['p'], case['fs'], case['B'], case['window']
    x, long = _frames(case)
    f = k * fs / N
    res = {'csd': _cx(util.csd(x, window=w, detrend=None)),
           'psd1': _fl(util.psd(x, fs, window=w, detrend=None)),
           'psd': _try(lambda: _fl(util.psd(long, fs, window=w, waveform_averages=B, detrend=None))),
           'rms': float(util.rms(x)),
           'phase': _try(lambda: float(util.phase(x, fs, window=w, unwrap=False)[k])),
           'phase_unwrapped': _try(lambda: float(util.phase(x, fs, window=w)[k])),
           'unwrap_steps': _try(lambda: float(np.max(np.abs(np.diff(util.phase(x, fs, window=w)))))),
           'wrapped_max': _try(lambda: float(np.max(np.abs(util.phase(x, fs, window=w, unwrap=False))))),
           'phase_avg': _try(lambda: float(util.phase(np.concatenate([x] * B + [np.full(case['r'], 7.5)]), fs, window=w,
                                                      waveform_averages=B, unwrap=False)[k])),
           'tone_conv': _cx(util.tone_conv(x, fs, f, window=w, detrend=None)),
           'tone_power': float(util.tone_power_conv(x, fs, f, window=w, detrend=None)),
           'tone_phase_default': float(util.tone_phase_conv(x, fs, f, window=w)),
           'tone_conv_default': _cx(util.tone_conv(x, fs, f, window=w)),
           'tone_conv_multi': _cx(util.tone_conv(x, fs, np.array([f, f]), window=w, detrend=None))}
    df = _try(lambda: util.psd_df(long, fs, window=w, waveform_averages=B, detrend=None))
    if _iserr(df):
        res['df'] = df
    else:
        res['df'] = {'freq_k': float(df.index[k]), 'val_k': float(df.iloc[k]), 'n': int(len(df))}
    cdf = util.csd_df(x, fs, window=w, detrend=None)
    res['csd_df'] = {'freq_k': float(cdf.index[k]), 're': float(cdf.iloc[k].real), 'im': float(cdf.iloc[k].imag)}
    if case.get('batch'):
        ks = case['batch']
        rows = np.stack([_tone(N, kk, A, p) for kk in ks])
        res['batch_csd'] = [_cx(r) for r in util.csd(rows, window=w, detrend=None)]
        res['single_csd'] = [_cx(util.csd(r, window=w, detrend=None)) for r in rows]
        longs = np.stack([np.concatenate([_tone(N, kk, a, p) for a in _block_amps(case)] + [np.full(case['r'], 7.5)])
                          for kk in ks])
        res['batch_psd'] = [_fl(r) for r in util.psd(longs, fs, window=w, waveform_averages=B, detrend=None)]
        res['single_psd'] = [_fl(util.psd(r, fs, window=w, waveform_averages=B, detrend=None)) for r in longs]
        cube = np.stack([longs, 2 * longs])
        res['cube_shape'] = list(util.psd(cube, fs, window=w, waveform_averages=B, detrend=None).shape)
        res['cube_ok'] = bool(np.allclose(util.psd(cube, fs, window=w, waveform_averages=B, detrend=None)[1],
                                          2 * np.array(res['batch_psd']), rtol=1e-12, atol=0))
    return res


def _impl_dcnyq(case):
    util = _util()
    N, A, p = case['N'], case['A'], case['p']
    k = 0 if case['which'] == 'dc' else N // 2
    x = _tone(N, k, A, p)
    return {'csd': _cx(util.csd(x, detrend=None)), 'rms': float(util.rms(x))}


def _random_frame(case):
    return np.random.RandomState(case['seed']).uniform(-1, 1, case['N']) * case['amp'] + case['dc']


def _impl_random(case):
    util = _util()
    x = _random_frame(case)
    N = len(x)
    c = util.csd(x, detrend=None)
    back = util.csd_to_signal(c)
    res = {'csd': _cx(c), 'meansq': float(np.mean(x ** 2)), 'rms': float(util.rms(x)), 'rms_rfft': float(util.rms_rfft(c)),
           'back_len': int(len(back)), 'back': _fl(back)}
    # spectrum -> signal -> spectrum, for a spectrum with real DC and Nyquist bins
    rs = np.random.RandomState(case['seed'] + 1)
    nb = N // 2 + 1
    s = rs.uniform(-1, 1, nb) + 1j * rs.uniform(-1, 1, nb)
    s[0] = s[0].real
    s[-1] = s[-1].real
    sig = util.csd_to_signal(s)
    res['spec'] = _cx(s)
    res['spec_sig'] = _fl(sig)
    res['spec_back'] = _cx(util.csd(sig, detrend=None))
    return res


def _impl_impulse(case):
    util = _util()
    n, B, i = case['n'], case['B'], case['i']
    x = np.zeros(n)
    x[i] = 1.0
    p = util.psd(x, 1000.0, waveform_averages=B, detrend=None)
    c = util.csd(np.ones(n), detrend=None)
    return {'psd': _fl(p), 'bins': int(len(p)), 'csd_bins': int(len(c)), 'back_len': int(len(util.csd_to_signal(c))),
            'notrim': _try(lambda: int(len(util.psd(x, 1000.0, waveform_averages=B, trim_samples=False, detrend=None))))}


def _impl_db(case):
    import pandas as pd
    util = _util()
    xs, ds, r, n = case['xs'], case['ds'], case['r'], case['n']

    def mk(v):
        return {'list': list(v), 'array': np.array(v), 'series': pd.Series(v), 'scalar': v[0]}[case['form']]
    x, d = mk(xs), mk(ds)
    dbv = util.db(x, r)
    return {'db': _fl(dbv), 'dbi_db': _fl(util.dbi(dbv, r)), 'dbi': _fl(util.dbi(d, r)), 'db_dbi': _fl(util.db(util.dbi(d, r), r)),
            'patodb': _fl(util.patodb(x)), 'dbtopa_patodb': _fl(util.dbtopa(util.patodb(x))),
            'dbtopa': _fl(util.dbtopa(d)), 'patodb_dbtopa': _fl(util.patodb(util.dbtopa(d))),
            'patodb_1': float(util.patodb(1)), 'dbtopa_0': float(util.dbtopa(0)), 'db_default': _fl(util.db(x)),
            'band': _fl(util.spectrum_to_band_level(np.asarray(d), n)),
            'band_back': _fl(util.band_to_spectrum_level(util.spectrum_to_band_level(np.asarray(d), n), n)),
            'spec': _fl(util.band_to_spectrum_level(np.asarray(d), n)),
            'spec_back': _fl(util.spectrum_to_band_level(util.band_to_spectrum_level(np.asarray(d), n), n))}


def _impl_known(case):
    util = _util()
    if case['what'] == 'odd-inverse':
        x = np.random.RandomState(5).uniform(-1, 1, case['N'])
        back = util.csd_to_signal(util.csd(x, detrend=None))
        return {'x': _fl(x), 'back': _fl(back)}
    if case['what'] == 'batch-inverse':
        X = np.stack([_tone(case['N'], 3 + 2 * i, 1.0 + i, 0.3) for i in range(case['rows'])])
        back = util.csd_to_signal(util.csd(X, detrend=None))
        return {'shape': list(back.shape), 'ratio': float(back[0, 0] / X[0, 0]), 'rowwise_ok': bool(np.allclose(
            np.stack([util.csd_to_signal(util.csd(r, detrend=None)) for r in X]), X))}
    if case['what'] == 'int16-rms':
        x = np.round(_tone(case['N'], 3, case['A'], 0.3)).astype(np.int16)
        return {'int16': float(util.rms(x)), 'float': float(util.rms(x.astype(float)))}
    if case['what'] == 'default-detrend':
        x = _tone(case['N'], case['k'], 1.0, case['p'])
        return {'default': float(abs(util.csd(x)[case['k']])), 'none': float(abs(util.csd(x, detrend=None)[case['k']])),
                'tone_power_default': float(util.tone_power_conv(x, 1000.0, case['k'] * 1000.0 / case['N']))}
    if case['what'] == 'fft-frequency-ignored':
        N, fs = case['N'], case['fs']
        x = _tone(N, case['k1'], 1.0, 0.3) + _tone(N, case['k2'], 0.25, 0.3)
        return {'power_at_k2': float(util.tone_power_fft(x, fs, case['k2'] * fs / N)),
                'power_at_k1': float(util.tone_power_fft(x, fs, case['k1'] * fs / N))}
    raise KeyError(case['what'])


# ----------------------------------------------------------------------------------------------------------------
# variants of the argument kinds: detrend modes, dtypes, window tuples, axes, labelled (pandas) twins, batches
LOOSE = {'kaiser': 2e-3, 'tukey': 1e-3, 'gaussian': 1e-3}      # how well a non-cosine-sum window reads a tone 8+ bins from the ends


def _line(case, n):
    return case['a'] + case['b'] * np.arange(n)


def _impl_var(case):
    import pandas as pd
    util = _util()
    w = case['what']
    if w == 'detrend':
        N, k, A, p, fs, B = case['N'], case['k'], case['A'], case['p'], case['fs'], case['B']
        win = case.get('window')
        dk = {'constant': {'detrend': 'constant'}, 'linear': {'detrend': 'linear'}, 'default': {}}[case['mode']]
        x = np.concatenate([_tone(N, k, A, p)] * B)
        y = x + (_line(case, len(x)) if case['mode'] != 'constant' else case['a'])
        y0 = y.copy()
        yr = y.copy()
        yr.setflags(write=False)
        f = k * fs / N
        res = {'csd_y': _cx(util.csd(y[:N], window=win, **dk)), 'csd_x': _cx(util.csd(x[:N], window=win, **dk)),
               'psd_y': _fl(util.psd(y, fs, window=win, waveform_averages=B, **dk)),
               'psd_x': _fl(util.psd(x, fs, window=win, waveform_averages=B, **dk)),
               'tc_y': _cx(util.tone_conv(y[:N], fs, f, window=win, **dk)), 'tc_x': _cx(util.tone_conv(x[:N], fs, f, window=win, **dk)),
               'tp_y': float(util.tone_power_conv(y[:N], fs, f, window=win, **dk)),
               'tp_x': float(util.tone_power_conv(x[:N], fs, f, window=win, **dk)),
               'tph_y': float(util.tone_phase_conv(y[:N], fs, f, window=win)), 'tph_x': float(util.tone_phase_conv(x[:N], fs, f, window=win)),
               'default_is_linear': bool(np.array_equal(util.csd(y[:N], window=win), util.csd(y[:N], window=win, detrend='linear'))
                                         and np.array_equal(util.tone_conv(y[:N], fs, f), util.tone_conv(y[:N], fs, f, detrend='linear'))
                                         and np.array_equal(util.psd(y, fs), util.psd(y, fs, detrend='linear'))),
               'readonly': _try(lambda: _cx(util.csd(yr[:N], window=win, **dk))),
               'readonly_tc': _try(lambda: _cx(util.tone_conv(yr[:N], fs, f, window=win, **dk))),
               'readonly_psd': _try(lambda: _fl(util.psd(yr, fs, window=win, waveform_averages=B, **dk)))}
        res['unchanged'] = bool(np.array_equal(y, y0))
        return res
    if w == 'dtype':
        N, k, A, p, fs, B, dt = case['N'], case['k'], case['A'], case['p'], case['fs'], case['B'], case['dtype']
        x = _tone(N, k, A, p)
        if dt == 'list':
            xq = [float(v) for v in x]
            xf = np.array(xq)
        else:
            xq = (x if dt == 'float32' else np.round(x)).astype(dt)
            xf = xq.astype(np.float64)
        f = k * fs / N
        lq = xq * B if dt == 'list' else np.concatenate([xq] * B)
        lf = np.concatenate([xf] * B)

        def dev(fn):
            a, b = fn(xq, lq), fn(xf, lf)
            return float(np.max(np.abs(np.asarray(a) - np.asarray(b)))) / A
        res = {'psd': dev(lambda x1, l1: util.psd(l1, fs, waveform_averages=B, detrend=None)),
               'psd_default': dev(lambda x1, l1: util.psd(l1, fs, waveform_averages=B)),
               'psd_bin': float(util.psd(lq, fs, waveform_averages=B, detrend=None)[k]), 'want': float(np.abs(_dft(xf)[k]) * np.sqrt(2) / N)}
        if dt != 'list':
            res.update(csd=dev(lambda x1, l1: util.csd(x1, detrend=None)), csd_default=dev(lambda x1, l1: util.csd(x1)),
                       csd_hann=dev(lambda x1, l1: util.csd(x1, window='hann', detrend=None)),
                       phase=dev(lambda x1, l1: util.phase(x1, fs, unwrap=False)[k]),
                       tone_conv=dev(lambda x1, l1: util.tone_conv(x1, fs, f, detrend=None)),
                       tone_power=dev(lambda x1, l1: util.tone_power_conv(x1, fs, f)),
                       rms=dev(lambda x1, l1: util.rms(x1)), rms_detrend=dev(lambda x1, l1: util.rms(x1, detrend=True)),
                       same_input=bool(np.array_equal(xq, (x if dt == 'float32' else np.round(x)).astype(dt))))
        return res
    if w == 'fftpow':
        # single-frequency estimators asked for the EXACT analysis frequency k * fs / n (computed in binary64 as a caller would)
        n, k, A, p, fs = case['n'], case['k'], case['A'], case['p'], case['fs']
        x = _tone(n, k, A, p)
        f = k * fs / n
        X = np.stack([x, 0.5 * x, 2.0 * x])
        return {'f': f, 'ratio': f / fs * n, 'fft': float(util.tone_power_fft(x, fs, f)),
                'fft_hann': float(util.tone_power_fft(x, fs, f, window='hann')), 'fft_kw': float(util.tone_power_fft(x, fs, frequency=f, window=None)),
                'fft_batch': _fl(util.tone_power_fft(X, fs, f)), 'fft_batch_hann': _fl(util.tone_power_fft(X, fs, f, 'hann')),
                'conv': float(util.tone_power_conv(x, fs, f, detrend=None)), 'conv_hann': float(util.tone_power_conv(x, fs, f, 'hann', None)),
                'conv_default': float(util.tone_power_conv(x, fs, f)), 'conv_batch': _fl(util.tone_power_conv(X, fs, f, detrend=None)),
                'phase_conv': float(util.tone_phase_conv(x, fs, f)), 'phase_conv_hann': float(util.tone_phase_conv(x, fs, f, 'hann')),
                'psd_df_at_f': float(util.psd_df(x, fs, detrend=None).loc[f]) if f in util.psd_df(x, fs, detrend=None).index else None}
    if w == 'batchinv':
        X = np.random.RandomState(case['seed']).uniform(-1, 1, case['shape']) * case['amp']
        C = util.csd(X, detrend=None)
        back = util.csd_to_signal(C)
        flat = X.reshape(-1, X.shape[-1])
        rowwise = np.stack([util.csd_to_signal(util.csd(r, detrend=None)) for r in flat]).reshape(X.shape)
        return {'shape': list(back.shape), 'dev': float(np.max(np.abs(back - X))) / case['amp'],
                'dev_rowwise': float(np.max(np.abs(back - rowwise))) / case['amp'],
                'as_list': _try(lambda: float(np.max(np.abs(util.csd_to_signal([list(r) for r in C.reshape(-1, C.shape[-1])])
                                                          - flat))) / case['amp'])}
    if w == 'winkind':
        N, k, A, p, fs = case['N'], case['k'], case['A'], case['p'], case['fs']
        win = _wspec(case['window'])
        x = _tone(N, k, A, p)
        f = k * fs / N
        return {'csd': _cx(util.csd(x, window=win, detrend=None)), 'psd_k': float(util.psd(x, fs, window=win, detrend=None)[k]),
                'tc': _cx(util.tone_conv(x, fs, f, window=win, detrend=None)),
                'tp': float(util.tone_power_conv(x, fs, f, win, None)),          # positional twin of window=, detrend=
                'phase_k': float(util.phase(x, fs, win, unwrap=False)[k])}
    if w == 'rmsax':
        X = np.random.RandomState(case['seed']).uniform(-1, 1, case['shape'])
        ax = case['axis']
        idx = np.arange(X.shape[ax]).reshape([-1 if i == ax % X.ndim else 1 for i in range(X.ndim)])
        # a line along `ax` whose offset and slope change QUADRATICALLY along the other axes: removed by detrending along
        # `ax`, not by detrending along any other axis
        q = np.zeros_like(X)
        for i in range(X.ndim):
            if i != ax % X.ndim:
                q = q + (np.arange(X.shape[i]).reshape([-1 if j == i else 1 for j in range(X.ndim)]) ** 2)
        line = (case['a'] + case['b'] * idx) * (1 + q)
        C = util.csd(X, detrend=None)
        flat = C.reshape(-1, C.shape[-1])
        return {'r': _fl(util.rms(X, axis=ax)), 'shape': list(np.shape(util.rms(X, axis=ax))), 'r_default': _fl(util.rms(X)),
                'r_explicit_false': _fl(util.rms(X, False, ax)),
                'rd_y': _fl(util.rms(X + line, detrend=True, axis=ax)), 'rd_x': _fl(util.rms(X, detrend=True, axis=ax)),
                'rd_line': float(np.max(util.rms(line, detrend=True, axis=ax))), 'r_line': float(np.max(util.rms(line, axis=ax))),
                'rfft_rows': _fl(util.rms_rfft(C)), 'rfft_shape': list(np.shape(util.rms_rfft(C))),
                'rfft_series': float(util.rms_rfft(pd.Series(flat[0]))), 'rfft_1d': float(util.rms_rfft(flat[0])),
                'rfft_list_ok': _try(lambda: float(util.rms_rfft(list(flat[0]))))}
    if w == 'df':
        N, fs, B, ks, form = case['N'], case['fs'], case['B'], case['ks'], case['form']
        amps = [1.0 + 0.5 * i for i in range(len(ks))]
        rows = np.stack([np.concatenate([_tone(N, kk, a, 0.4)] * B + [np.full(case['r'], 3.0)]) for kk, a in zip(ks, amps)])
        labels = [f'ch{i}' for i in range(len(ks))] if case.get('labels') != 'int0' else list(range(len(ks)))
        def mk(arr):
            if form == 'frame':
                return pd.DataFrame(arr, index=labels)
            if form == 'series':
                return pd.Series(arr[0], name='first')
            return arr[0] if form == 'array1d' else arr
        arg = mk(rows)
        Bk = None if B == 1 and case.get('none_for_one') else B
        out = {}
        for name, fn, kw in (('psd', util.psd_df, {'detrend': None}), ('phase', util.phase_df, {'unwrap': False})):
            d = fn(arg, fs, waveform_averages=Bk, **kw)
            out[name] = {'cls': type(d).__name__, 'freqs': _fl(d.columns if d.ndim == 2 else d.index),
                         'index': [str(v) for v in d.index] if d.ndim == 2 else None, 'name': str(getattr(d, 'name', None)),
                         'freq_name': str((d.columns if d.ndim == 2 else d.index).name),
                         'at_bin': [float(d.iloc[i, kk]) for i, kk in enumerate(ks)] if d.ndim == 2 else [float(d.iloc[ks[0]])],
                         'plain': bool(np.allclose(np.asarray(d), (util.psd(rows if d.ndim == 2 else rows[0], fs, waveform_averages=Bk, detrend=None)
                                                                  if name == 'psd' else
                                                                  util.phase(rows if d.ndim == 2 else rows[0], fs, waveform_averages=Bk, unwrap=False)),
                                                   rtol=1e-12, atol=1e-12))}
        c = util.csd_df(mk(rows[:, :N]), fs, detrend=None)            # csd_df has no averaging: one block
        out['csd'] = {'cls': type(c).__name__, 'freqs': _fl(c.columns if c.ndim == 2 else c.index),
                      'index': [str(v) for v in c.index] if c.ndim == 2 else None, 'name': str(getattr(c, 'name', None)),
                      'at_bin': ([_cx(c.iloc[i, kk]) for i, kk in enumerate(ks)] if c.ndim == 2 else [_cx(c.iloc[ks[0]])])}
        out['amps'], out['labels'] = amps, [str(v) for v in labels]
        return out
    if w == 'batchconv':
        N, fs, ks = case['N'], case['fs'], case['ks']
        amps = [1.0 + 0.5 * i for i in range(len(ks))]
        X = np.stack([_tone(N, kk, a, 0.2 + 0.3 * i) for i, (kk, a) in enumerate(zip(ks, amps))])
        fr = [kk * fs / N for kk in ks]
        F = {'array': np.array(fr), 'list': fr, 'int': [int(v) for v in fr], 'intarray': np.array([int(v) for v in fr])}[case['freq_kind']]
        r = util.tone_conv(X, fs, F, detrend=None)
        pw = util.tone_power_conv(X, fs, F, detrend=None)
        one = util.tone_conv(X[1], fs, F[1] if case['freq_kind'] != 'array' else float(F[1]), detrend=None)
        return {'shape': list(r.shape), 're': [_fl(v) for v in r.real], 'im': [_fl(v) for v in r.imag], 'pw': [_fl(v) for v in pw],
                'one': _cx(one), 'amps': amps}
    if w == 'dbkinds':
        x, r = case['x'], case['r']          # x: a positive integer, r: a positive integer reference
        fr = pd.DataFrame([[1.0, float(x)], [2.0, 4.0]], index=['a', 'b'], columns=[10.0, 20.0])
        dbf = util.db(fr)
        return {'db_int': float(util.db(x)), 'db_int_ref': float(util.db(x, r)), 'db_npint': float(util.db(np.int64(x), np.int32(r))),
                'db_intarray': _fl(util.db(np.array([1, x, 10 * x]), r)), 'db_tuple': _fl(util.db((1, x), r)),
                'db_f32': float(util.db(np.float32(x), r)), 'db_refarray': _fl(util.db(float(x), np.array([1.0, float(r)]))),
                'dbi_int': float(util.dbi(case['d'])), 'dbi_int_ref': float(util.dbi(case['d'], r)),
                'dbi_intarray': _fl(util.dbi(np.array([0, case['d'], -case['d']]), r)), 'dbi_tuple': _fl(util.dbi((0, case['d']))),
                'dbtopa_int': float(util.dbtopa(case['d'])), 'patodb_int': float(util.patodb(x)),
                'patodb_intarray': _fl(util.patodb(np.array([x, 2 * x]))),
                'frame_cls': type(dbf).__name__, 'frame_vals': _fl(dbf.values), 'frame_index': [str(v) for v in dbf.index],
                'frame_back': _fl(util.dbi(dbf).values),
                'db_zero': repr(float(util.db(0.0))), 'db_int_zero': repr(float(util.db(0))), 'dbi_db_zero': float(util.dbi(util.db(0.0), r)),
                'db_empty': len(util.db([])), 'dbi_empty': len(util.dbi(np.array([]))),
                'band_npint': float(util.spectrum_to_band_level(case['d'], np.int64(x))),
                'band_int': float(util.spectrum_to_band_level(case['d'], x)), 'band_float': float(util.spectrum_to_band_level(float(case['d']), float(x))),
                'band_arrays': _fl(util.spectrum_to_band_level(np.array([0, case['d']]), np.array([x, 10 * x]))),
                'spec_int': float(util.band_to_spectrum_level(case['d'], x)),
                'spec_arrays': _fl(util.band_to_spectrum_level(np.array([0, case['d']]), np.array([x, 10 * x]))),
                'band_series': _fl(util.spectrum_to_band_level(pd.Series([0.0, float(case['d'])]), x))}
    raise KeyError(w)


def _glue_var(case, res):
    bad = []
    w = case['what']
    if w == 'detrend':
        N, k, A, B = case['N'], case['k'], case['A'], case['B']
        x = _tone(N, k, A, case['p'])
        y = x + (_line(case, N) if case['mode'] != 'constant' else case['a'])
        n = np.arange(N)
        # what detrending is: subtraction of the mean / of the least-squares line (scipy.signal.detrend), then the model
        yd = y - np.mean(y) if case['mode'] == 'constant' else y - np.polyval(np.polyfit(n, y, 1), n)
        sc = A + abs(case['a']) + abs(case['b']) * N
        if not _close(_arr(res['csd_y']), _model_csd(yd, case.get('window')), sc):
            bad.append(f'csd with detrend={case["mode"]} differs from the model applied to the frame minus its '
                       + ('mean' if case['mode'] == 'constant' else 'least-squares line'))
    elif w == 'winkind':
        N, A = case['N'], case['A']
        x = _tone(N, case['k'], A, case['p'])
        win = _wspec(case['window'])
        if _cos_coeffs(win) is not None:
            from scipy import signal
            sw = signal.get_window(win, N)
            if not _close(sw / sw.mean(), _window(win, N), 1.0, 1e-12):
                bad.append(f'scipy window {win} of {N} points is not the cosine sum {_cos_coeffs(win)}')
        if not _close(_arr(res['csd']), _model_csd(x, win), A):
            bad.append(f'csd with window {win} differs from the DFT sum of the windowed frame times the generated csd_scale')
    elif w == 'dtype' and case['dtype'] != 'list':
        N, A = case['N'], case['A']
        x = _tone(N, case['k'], A, case['p'])
        xq = (x if case['dtype'] == 'float32' else np.round(x)).astype(case['dtype']).astype(float)
        if not abs(res['psd_bin'] - abs(_model_csd(xq, None)[case['k']])) <= 1e-6 * A:
            bad.append('psd of the typed frame differs from the model on the same values')
    return bad


def _oracle_var(case, res):
    w = case['what']
    if w == 'detrend':
        N, k, A, p, mode = case['N'], case['k'], case['A'], case['p'], case['mode']
        sc = A + abs(case['a']) + abs(case['b']) * N * case['B']
        tag = f"N={N} bin {k} A={A} detrend={mode} offset {case['a']} slope {case['b']} window={case.get('window')} averages={case['B']}"
        if not res['unchanged']:
            return f'{tag}: the caller\'s array was modified by the spectrum helpers'
        for key in ('readonly', 'readonly_tc', 'readonly_psd'):
            if _iserr(res[key]):
                return f'{tag}: a read-only input was refused ({key}): {res[key]}'
        if not res['default_is_linear']:
            return f'{tag}: the default detrend is not "linear"'
        cy, cx = _arr(res['csd_y']), _arr(res['csd_x'])
        tol = TOL * sc
        if mode == 'constant':
            # a whole-cycle tone has zero mean: removing the mean leaves it intact and silences DC
            if not abs(cy[k] - A * np.exp(1j * p)) <= tol:
                return f'{tag}: csd reads {cy[k]} at the bin: expected A exp(ip) (the mean of a whole-cycle tone is 0)'
            if case.get('window') is None and np.max(np.abs(np.delete(cy, k))) > tol:
                return f'{tag}: csd reads {np.max(np.abs(np.delete(cy, k)))} away from the bin (DC must be removed)'
            if not abs(res['psd_y'][k] - A) <= tol or not abs(res['tp_y'] - A) <= tol:
                return f'{tag}: psd reads {res["psd_y"][k]}, tone_power_conv {res["tp_y"]}'
            if not abs(_arr(res['tc_y']) - A * np.sqrt(2) * np.exp(1j * p)) <= tol:
                return f'{tag}: tone_conv returns {_arr(res["tc_y"])}'
        # detrending is a projection: what is removed from x + (offset / line) is that offset / line plus what is removed from x
        for a, b, what in ((cy, cx, 'csd'), (np.array(res['psd_y']), np.array(res['psd_x']), 'psd'),
                           (_arr(res['tc_y']), _arr(res['tc_x']), 'tone_conv'), (res['tp_y'], res['tp_x'], 'tone_power_conv')):
            if not np.all(np.abs(np.asarray(a) - np.asarray(b)) <= tol):
                return (f'{tag}: {what} of the tone plus an {"offset" if mode == "constant" else "offset and slope"} differs from '
                        f'{what} of the tone alone by {np.max(np.abs(np.asarray(a) - np.asarray(b)))}')
        if not abs(_wrap(res['tph_y'] - res['tph_x'])) <= 1e-7 * sc / A:
            return f'{tag}: tone_phase_conv changes with an added offset / slope: {res["tph_y"]} vs {res["tph_x"]}'
        return None
    if w == 'dtype':
        tol = 2e-6 if case['dtype'] == 'float32' else 1e-12
        tag = f"N={case['N']} bin {case['k']} A={case['A']} as {case['dtype']}"
        for key in ('psd', 'psd_default', 'csd', 'csd_default', 'csd_hann', 'phase', 'tone_conv', 'tone_power', 'rms', 'rms_detrend'):
            if key in res and not res[key] <= tol:
                return f'{tag}: {key} differs from the result for the same values as float64 by {res[key]} (relative to A)'
        if not abs(res['psd_bin'] - res['want']) <= 1e-6 * case['A']:
            return f'{tag}: psd reads {res["psd_bin"]} at the bin, the values have {res["want"]}'
        if res.get('same_input') is False:
            return f'{tag}: the input array was modified'
        return None
    if w == 'fftpow':
        n, k, A, p, fs = case['n'], case['k'], case['A'], case['p'], case['fs']
        tag = (f"tone of RMS {A} at the exact bin {k} of {n} samples, fs {fs} (frequency {res['f']!r}, frequency / fs * n = "
               f"{res['ratio']!r})")
        # tone_power_fft and the default tone_power_conv / tone_phase_conv detrend linearly: the least-squares line of a tone
        # of k cycles biases the reading by less than 1.5 / k^2 (observed: 0.6 / k^2); a wrong bin is off by A/2 or more
        loose = 1.5 / (k * k) + 1e-5
        for key, want, tol in (('fft', A, loose), ('fft_hann', A, loose), ('fft_kw', A, loose), ('conv', A, TOL), ('conv_hann', A, TOL),
                               ('conv_default', A, loose)):
            if not abs(res[key] - want) <= tol * A:
                return f'{tag}: {key} reads {res[key]}, expected {want} (tolerance {tol})'
        for key, tol in (('fft_batch', loose), ('fft_batch_hann', loose), ('conv_batch', TOL)):
            if len(res[key]) != 3 or not all(abs(v - m * A) <= tol * m * A for v, m in zip(res[key], (1.0, 0.5, 2.0))):
                return f'{tag}: {key} of the rows (A, A/2, 2A) reads {res[key]}'
        for key in ('phase_conv', 'phase_conv_hann'):
            if not abs(_wrap(res[key] - p)) <= 2.0 / (k * k):
                return f'{tag}: {key} reads {res[key]}, expected {p}'
        if res['psd_df_at_f'] is not None and not abs(res['psd_df_at_f'] - A) <= TOL * A:
            return f'{tag}: psd_df labelled {res["f"]} Hz reads {res["psd_df_at_f"]}'
        return None
    if w == 'batchinv':
        tag = f"csd_to_signal(csd(X)) for a batch X of shape {case['shape']}"
        if res['shape'] != case['shape']:
            return f'{tag}: returns shape {res["shape"]}'
        if not res['dev'] <= TOL or not res['dev_rowwise'] <= TOL:
            return f'{tag}: differs from X by {res["dev"]} (from the row-by-row inverse by {res["dev_rowwise"]}) of the amplitude'
        if not _iserr(res['as_list']) and not res['as_list'] <= TOL:
            return f'{tag}: a nested list of spectra is inverted with error {res["as_list"]}'
        return None
    if w == 'winkind':
        N, k, A, p = case['N'], case['k'], case['A'], case['p']
        win = _wspec(case['window'])
        c = _cos_coeffs(win)
        tag = f'N={N} bin {k} A={A} window={win}'
        if c is not None:
            J = len(c) - 1
            if not (J < 2 * k and 2 * k + J < N):
                return None
            tol = TOL
        else:
            if not (k >= 8 and N / 2 - k >= 8):
                return None
            tol = LOOSE[win[0]]
        cs = _arr(res['csd'])
        for what, got, want in (('csd', cs[k], A * np.exp(1j * p)), ('psd', res['psd_k'], A), ('tone_power_conv', res['tp'], A),
                                ('tone_conv', _arr(res['tc']), A * np.sqrt(2) * np.exp(1j * p))):
            if not abs(got - want) <= tol * abs(want):
                return f'{tag}: {what} reads {got}, expected {want} (tolerance {tol})'
        if not abs(_wrap(res['phase_k'] - p)) <= max(tol, TOL):
            return f'{tag}: phase reads {res["phase_k"]}, expected {p}'
        if c is not None and len(c) > 1 and 2 * k - 1 > J and 2 * k + 1 + J < N:
            # the window is really applied: the first neighbour carries |c1| / (2 c0) of the amplitude
            want = abs(c[1]) / (2 * c[0]) * A
            if not abs(abs(cs[k + 1]) - want) <= TOL * A:
                return f'{tag}: the bin next to the tone reads {abs(cs[k + 1])}, a cosine-sum window puts {want} there'
        return None
    if w == 'rmsax':
        X = np.random.RandomState(case['seed']).uniform(-1, 1, case['shape'])
        ax = case['axis']
        tag = f"rms of shape {case['shape']} along axis {ax}"
        want = np.sqrt(np.mean(X ** 2, axis=ax))
        if res['shape'] != list(want.shape) or not np.allclose(res['r'], want.ravel(), rtol=1e-12, atol=0):
            return f'{tag}: shape {res["shape"]} / values differ from sqrt(mean(x^2, axis))'
        if not np.allclose(res['r_default'], np.sqrt(np.mean(X ** 2, axis=-1)).ravel(), rtol=1e-12, atol=0):
            return f'{tag}: rms(x) is not along the last axis'
        if res['r_explicit_false'] != res['r']:
            return f'{tag}: rms(x, False, axis) differs from rms(x, axis=axis)'
        sc = (1 + abs(case['a']) + abs(case['b']) * X.shape[ax]) * (1 + sum(v * v for v in X.shape))
        if not np.allclose(res['rd_y'], res['rd_x'], rtol=0, atol=1e-9 * sc):
            return f'{tag}: rms(detrend=True) of the data plus a line along the axis differs from that of the data'
        if not res['rd_line'] <= 1e-9 * sc:
            return f'{tag}: rms(detrend=True) of a pure line is {res["rd_line"]}'
        if abs(case['b']) > 0 and X.shape[ax] > 1 and not res['r_line'] > 1e-3 * abs(case['b']):
            return f'{tag}: rms without detrending lost the line'
        C = _util().csd(X, detrend=None)
        wantr = np.sqrt(np.sum(np.abs(C) ** 2, axis=-1))
        if res['rfft_shape'] != list(wantr.shape) or not np.allclose(res['rfft_rows'], wantr.ravel(), rtol=1e-12, atol=0):
            return f'{tag}: rms_rfft of a batch of spectra differs from sqrt(sum |c|^2) along the last axis'
        if not abs(res['rfft_series'] - res['rfft_1d']) <= 1e-12 * res['rfft_1d'] or not abs(res['rfft_1d'] - wantr.ravel()[0]) <= 1e-12:
            return f'{tag}: rms_rfft of a Series {res["rfft_series"]} / 1-D array {res["rfft_1d"]}, expected {wantr.ravel()[0]}'
        return None
    if w == 'df':
        N, fs, B, ks, form = case['N'], case['fs'], case['B'], case['ks'], case['form']
        freqs = np.fft.rfftfreq(N, 1 / fs)
        tag = f'labelled twins on {form} input, {len(ks)} rows of {B} x {N} (+{case["r"]}) samples'
        two = form in ('frame', 'array2d')
        for name in ('psd', 'phase', 'csd'):
            o = res[name]
            if o['cls'] != ('DataFrame' if two else 'Series'):
                return f'{tag}: {name}_df returned a {o["cls"]}'
            if len(o['freqs']) != len(freqs) or not np.allclose(o['freqs'], freqs, rtol=1e-12, atol=0):
                return f'{tag}: {name}_df labels its bins {o["freqs"][:3]}..., expected rfftfreq({N}, 1/{fs})'
            if form == 'frame' and o['index'] != res['labels']:
                return f'{tag}: {name}_df lost the row labels of the DataFrame: {o["index"]}'
            if form == 'series' and o['name'] != 'first':
                return f'{tag}: {name}_df lost the name of the Series: {o["name"]}'
        if not res['psd']['plain'] or not res['phase']['plain']:
            return f'{tag}: the labelled result differs from psd / phase on the bare array'
        rows = range(len(ks)) if two else [0]
        for i in rows:
            if not abs(res['psd']['at_bin'][i if two else 0] - res['amps'][i]) <= TOL * 10:
                return f'{tag}: psd_df reads {res["psd"]["at_bin"]} at the bins, expected {res["amps"]}'
            if not abs(_wrap(res['phase']['at_bin'][i if two else 0] - 0.4)) <= TOL:
                return f'{tag}: phase_df reads {res["phase"]["at_bin"]} at the bins, expected 0.4'
            c = _arr(res['csd']['at_bin'][i if two else 0])
            if not abs(c - res['amps'][i] * np.exp(0.4j)) <= TOL * 10:
                return f'{tag}: csd_df reads {c} at the bin'
        return None
    if w == 'batchconv':
        ks, amps = case['ks'], res['amps']
        r = np.array(res['re']) + 1j * np.array(res['im'])
        tag = f"tone_conv of {len(ks)} rows with {len(ks)} frequencies given as {case['freq_kind']}"
        if res['shape'] != [len(ks), len(ks)]:
            return f'{tag}: result shape {res["shape"]}'
        for i in range(len(ks)):
            for j in range(len(ks)):
                want = amps[j] * np.sqrt(2) * np.exp(1j * (0.2 + 0.3 * j)) if i == j else 0.0
                if not abs(r[i, j] - want) <= TOL * 10:
                    return f'{tag}: frequency {i} against row {j} gives {r[i, j]}, expected {want}'
                if not abs(res['pw'][i][j] - (amps[j] if i == j else 0.0)) <= TOL * 10:
                    return f'{tag}: tone_power_conv[{i}][{j}] = {res["pw"][i][j]}'
        if not abs(_arr(res['one']) - r[1, 1]) <= 1e-12:
            return f'{tag}: the scalar-frequency call on one row differs from the batched call'
        return None
    if w == 'dbkinds':
        x, r, d = case['x'], case['r'], case['d']
        L10 = math.log10

        def ok(a, b):
            return abs(a - b) <= TOL * max(1.0, abs(a), abs(b))
        checks = [('db(int)', res['db_int'], 20 * L10(x)), ('db(int, int reference)', res['db_int_ref'], 20 * L10(x / r)),
                  ('db(np.int64, np.int32)', res['db_npint'], 20 * L10(x / r)), ('db(np.float32)', res['db_f32'], 20 * L10(x / r)),
                  ('dbi(int)', res['dbi_int'], 10 ** (d / 20)), ('dbi(int, int reference)', res['dbi_int_ref'], 10 ** (d / 20) * r),
                  ('dbtopa(int)', res['dbtopa_int'], 20e-6 * 10 ** (d / 20)), ('patodb(int)', res['patodb_int'], 20 * L10(x / 20e-6)),
                  ('dbi(db(0.0))', res['dbi_db_zero'], 0.0),
                  ('band level, n np.int64', res['band_npint'], d + 10 * L10(x)), ('band level, int n', res['band_int'], d + 10 * L10(x)),
                  ('band level, floats', res['band_float'], d + 10 * L10(x)), ('spectrum level, ints', res['spec_int'], d - 10 * L10(x))]
        lists = [('db(int array)', res['db_intarray'], [20 * L10(v / r) for v in (1, x, 10 * x)]),
                 ('db(tuple)', res['db_tuple'], [20 * L10(v / r) for v in (1, x)]),
                 ('db(x, reference array)', res['db_refarray'], [20 * L10(x), 20 * L10(x / r)]),
                 ('dbi(int array)', res['dbi_intarray'], [r * 10 ** (v / 20) for v in (0, d, -d)]),
                 ('dbi(tuple)', res['dbi_tuple'], [1.0, 10 ** (d / 20)]),
                 ('patodb(int array)', res['patodb_intarray'], [20 * L10(v / 20e-6) for v in (x, 2 * x)]),
                 ('db(DataFrame)', res['frame_vals'], [0.0, 20 * L10(x), 20 * L10(2), 20 * L10(4)]),
                 ('dbi(db(DataFrame))', res['frame_back'], [1.0, float(x), 2.0, 4.0]),
                 ('band level of arrays', res['band_arrays'], [10 * L10(x), d + 10 * L10(10 * x)]),
                 ('spectrum level of arrays', res['spec_arrays'], [-10 * L10(x), d - 10 * L10(10 * x)]),
                 ('band level of a Series', res['band_series'], [10 * L10(x), d + 10 * L10(x)])]
        for what, got, want in checks:
            if not ok(got, want):
                return f'{what} = {got}, expected {want} (x={x}, reference={r}, d={d})'
        for what, got, want in lists:
            if len(got) != len(want) or not all(ok(a, b) for a, b in zip(got, want)):
                return f'{what} = {got}, expected {want} (x={x}, reference={r}, d={d})'
        if res['frame_cls'] != 'DataFrame' or res['frame_index'] != ['a', 'b']:
            return f'db(DataFrame) returned {res["frame_cls"]} with index {res["frame_index"]}'
        if res['db_zero'] != '-inf' or res['db_int_zero'] != '-inf':
            return f'db(0) = {res["db_zero"]} / {res["db_int_zero"]}, expected -inf'
        if res['db_empty'] != 0 or res['dbi_empty'] != 0:
            return 'db / dbi of an empty input is not empty'
        return None
    raise KeyError(w)


def impl(case):
    import warnings
    with warnings.catch_warnings():
        warnings.simplefilter('ignore')
        return {'tone': _impl_tone, 'dcnyq': _impl_dcnyq, 'random': _impl_random, 'impulse': _impl_impulse,
                'db': _impl_db, 'known': _impl_known, 'var': _impl_var}[case['kind']](case)


# ====================================================================================================================
# model side: the DFT sums of Spectrum/DFT.v with the GENERATED scale factors, evaluated in binary64, against the
# implementation (np.fft.rfft / irfft, windows, averaging, trimming, batch shapes: the glue the translator does not see)
def _close(a, b, scale, tol=TOL):
    return bool(np.all(np.abs(np.asarray(a) - np.asarray(b)) <= tol * max(scale, 1e-300)))


def _wspec(w):
    """window specification as scipy takes it: JSON lists become the (name, parameter) tuples"""
    return tuple(w) if isinstance(w, list) else w


def _cos_coeffs(w):
    """cosine-sum coefficients (Spectrum/DFT.v cos_window) of the window specifications C16_window_law covers, else None"""
    if isinstance(w, str):
        return COSINE.get(w) or ([1.0] if w == 'boxcar' else None)
    if w[0] == 'general_hamming':
        return [w[1], -(1 - w[1])]
    if w[0] == 'general_cosine':
        return [(-1) ** j * a for j, a in enumerate(w[1])]
    return None


def _window(name, n):
    """Spectrum/DFT.v: cos_window divided by its mean, which is its constant coefficient (C16_window_mean); windows that
    are not cosine sums (kaiser, tukey, gaussian) are taken from scipy (oracle primitive) and divided by their mean"""
    c = _cos_coeffs(name)
    if c is None:
        from scipy import signal
        w = signal.get_window(_wspec(name), n)
        return w / w.mean()
    k = np.arange(n)
    w = sum(cj * np.cos(2 * np.pi * j * k / n) for j, cj in enumerate(c))
    return w / c[0]


def _model_csd(x, w):
    x = np.asarray(x, dtype=float)
    if w is not None:
        x = _window(w, len(x)) * x
    return _dft(x, float(_gen('csd_scale', float(len(x)))))


def _model_psd(long, B, w):
    L = len(long) // B
    return np.mean([np.abs(_model_csd(long[b * L:(b + 1) * L], w)) for b in range(B)], axis=0)


def _glue(case, res):
    if _DEFS is None:
        return []
    bad = []
    k = case['kind']
    if k == 'var':
        return _glue_var(case, res)
    if k == 'tone':
        N, A, fs, B, w = case['N'], case['A'], case['fs'], case['B'], case['window']
        x, long = _frames(case)
        if w is not None:
            from scipy import signal
            sw = signal.get_window(w, N)
            if not _close(sw / sw.mean(), _window(w, N), 1.0, 1e-12):
                bad.append(f'scipy window {w} of {N} points is not the cosine sum {COSINE[w]} normalised by its constant term')
        if not _close(_arr(res['csd']), _model_csd(x, w), A):
            bad.append('csd differs from the DFT sum times the generated csd_scale')
        if not _iserr(res['psd']) and not _close(res['psd'], _model_psd(long, B, w), A):
            bad.append('psd differs from the block average of |DFT sum * csd_scale| (trimmed to B * (len // B) samples)')
        xw = x if w is None else _window(w, N) * x
        f = case['k'] * fs / N
        idx = np.arange(N, dtype=float)
        tr = np.mean(_gen('tone_conv_re', xw, idx, fs, f))          # the generated definition is elementwise
        ti = np.mean(_gen('tone_conv_im', xw, idx, fs, f))
        if not _close(_arr(res['tone_conv']), tr + 1j * ti, A):
            bad.append('tone_conv differs from the mean of the generated per-sample value')
        if not _close(res['tone_power'], _gen('tone_power_of_abs', abs(tr + 1j * ti)), A):
            bad.append('tone_power_conv differs from generated |tone_conv| / sqrt 2')
        if not _close(res['rms'], _gen('rms_of_meansq', float(np.mean(x ** 2))), A):
            bad.append('rms differs from generated sqrt(mean square)')
    elif k == 'dcnyq':
        x = _tone(case['N'], 0 if case['which'] == 'dc' else case['N'] // 2, case['A'], case['p'])
        if not _close(_arr(res['csd']), _model_csd(x, None), case['A']):
            bad.append('csd differs from the DFT sum times the generated csd_scale')
    elif k == 'random':
        x = _random_frame(case)
        sc = float(np.max(np.abs(x)))
        c = _model_csd(x, None)
        if not _close(_arr(res['csd']), c, sc):
            bad.append('csd differs from the DFT sum times the generated csd_scale')
        if not _close(res['rms_rfft'], _gen('rms_rfft_of_sumsq', float(np.sum(np.abs(_arr(res['csd'])) ** 2))), sc):
            bad.append('rms_rfft differs from generated sqrt(sum |c|^2)')
        nb = len(c)
        M = nb - 1
        if M >= 1:
            m = _irfft_model(_arr(res['csd']) / float(_gen('csd_to_signal_scale', float(nb))), M)
            if len(m) != res['back_len'] or not _close(res['back'], m, sc):
                bad.append('csd_to_signal differs from the inverse-DFT sum of Spectrum/DFT.v with the generated scale')
    elif k == 'db':
        n = len(case['xs']) if case['form'] != 'scalar' else 1
        for i in range(n):
            x, d = case['xs'][i], case['ds'][i]
            for name, args, key in (('u_db', (x, case['r']), 'db'), ('u_dbi', (d, case['r']), 'dbi'),
                                    ('u_patodb', (x,), 'patodb'), ('u_dbtopa', (d,), 'dbtopa'),
                                    ('u_spectrum_to_band_level', (d, float(case['n'])), 'band'),
                                    ('u_band_to_spectrum_level', (d, float(case['n'])), 'spec')):
                m = float(_gen(name, *args))
                if not abs(m - res[key][i]) <= 1e-12 * max(1.0, abs(m)):
                    bad.append(f'{name}{args} = {m} but the implementation returned {res[key][i]}')
    return bad


def term(case, res):
    glue = _glue(case, res)
    res['glue'] = glue[:5]
    parts = [blit(not glue)]
    if case['kind'] == 'impulse':
        sq = listlit([dy(v * v) for v in res['psd']])
        parts.append(f"check_psd {zlit(case['n'])} {zlit(case['B'])} {zlit(case['i'])} {zlit(res['bins'])} {sq}")
        parts.append(f"check_shapes {zlit(case['n'])} {zlit(res['csd_bins'])} {zlit(res['back_len'])}")
    elif case['kind'] == 'tone':
        # which averaging counts util.phase answers (model: Spectrum/Glue.v phase_detrend)
        parts.append(f"check_phase None {blit(not _iserr(res['phase']))}")
        parts.append(f"check_phase (Some {zlit(case['B'])}) {blit(not _iserr(res['phase_avg']))}")
    elif case['kind'] == 'random':
        parts.append(f"check_shapes {zlit(case['N'])} {zlit(len(res['csd']['re']))} {zlit(res['back_len'])}")
    return ' && '.join(f'({p})' for p in parts)


# ====================================================================================================================
# the property, judged on the implementation's answers only
def _oracle_tone(case, res):
    N, k, A, p, fs, B, w = case['N'], case['k'], case['A'], case['p'], case['fs'], case['B'], case['window']
    tag = f"N={N} bin {k} A={A} p={p} window={w} averages={B} trim={case['r']}"
    c = _arr(res['csd'])
    if not _in_property_range(N, k, w):
        # nearer to DC / Nyquist than the main-lobe width (but inside the range of C16_window_law): the property text is
        # silent here; agreement with the model is still required by the correspondence (term)
        return None
    if not abs(c[k] - A * np.exp(1j * p)) <= TOL * A:
        return f'{tag}: csd at its bin reads |{abs(c[k])}|, phase {np.angle(c[k])}: expected A and p'
    if w is None:
        others = np.delete(np.abs(c), k)
        if len(others) and np.max(others) > TOL * A:
            return f'{tag}: csd at another bin ({int(np.argmax(others))}) reads {np.max(others)}, expected ~0'
        if not abs(res['rms'] - A) <= TOL * A:
            return f'{tag}: util.rms of the sinusoid is {res["rms"]}'
    if not abs(res['psd1'][k] - A) <= TOL * A:
        return f'{tag}: psd without averaging reads {res["psd1"][k]} at the bin'
    want = float(np.mean(_block_amps(case)))
    if _iserr(res['psd']):
        return f'{tag}: psd with {B} averages raised {res["psd"]}'
    if len(res['psd']) != N // 2 + 1:
        return f'{tag}: psd with {B} averages of {N} samples (+{case["r"]} to trim) has {len(res["psd"])} bins'
    if not abs(res['psd'][k] - want) <= TOL * A:
        return f'{tag}: psd averaged over blocks of RMS {_block_amps(case)} reads {res["psd"][k]} at the bin, expected {want}'
    if w is None:
        o = np.delete(np.array(res['psd']), k)
        if len(o) and np.max(o) > TOL * A:
            return f'{tag}: averaged psd at another bin reads {np.max(o)}'
    # unwrap=False is the principal value: p itself (p lies inside (-pi, pi)); unwrap=True has no jump above pi between bins
    if not _iserr(res['phase']) and not abs(res['phase'] - p) <= TOL:
        return f'{tag}: util.phase(unwrap=False) reads {res["phase"]} at the bin, the principal value is {p}'
    if not _iserr(res['wrapped_max']) and not res['wrapped_max'] <= math.pi + 1e-12:
        return f'{tag}: util.phase(unwrap=False) leaves (-pi, pi]: {res["wrapped_max"]}'
    if not _iserr(res['unwrap_steps']) and not res['unwrap_steps'] <= math.pi + 1e-9:
        return f'{tag}: util.phase(unwrap=True) jumps by {res["unwrap_steps"]} between neighbouring bins'
    for key in ('phase', 'phase_unwrapped', 'phase_avg'):
        v = res[key]
        if _iserr(v):
            return f'{tag}: util.phase ({key}) raised {v["err"]}: {v["msg"]}'
        if not abs(_wrap(v - p)) <= TOL:
            return f'{tag}: util.phase ({key}) reads {v} at the bin (mod 2 pi), expected {p}'
    df = res['df']
    if _iserr(df):
        return f'{tag}: psd_df raised {df}'
    if df['n'] != N // 2 + 1 or not abs(df['freq_k'] - k * fs / N) <= 1e-9 * fs or not abs(df['val_k'] - want) <= TOL * A:
        return f'{tag}: psd_df labels bin {k} as {df["freq_k"]} Hz with value {df["val_k"]} ({df["n"]} bins); expected {k * fs / N} Hz, {want}'
    cd = res['csd_df']
    if not abs(cd['freq_k'] - k * fs / N) <= 1e-9 * fs or not abs(complex(cd['re'], cd['im']) - A * np.exp(1j * p)) <= TOL * A:
        return f'{tag}: csd_df at bin {k}: {cd}'
    tc = _arr(res['tone_conv'])
    if not abs(tc - A * np.sqrt(2) * np.exp(1j * p)) <= TOL * A:
        return f'{tag}: tone_conv returns {tc}: expected the peak phasor A sqrt2 exp(ip)'
    if not abs(res['tone_power'] - A) <= TOL * A:
        return f'{tag}: tone_power_conv returns {res["tone_power"]}'
    tm = _arr(res['tone_conv_multi'])
    if tm.shape != (2,) or not np.all(np.abs(tm - tc) <= 1e-12 * A):
        return f'{tag}: tone_conv with an array of frequencies differs from the scalar call'
    if not abs(_wrap(res['tone_phase_default'] - np.angle(_arr(res['tone_conv_default'])))) <= 1e-12:
        return f'{tag}: tone_phase_conv is not the angle of tone_conv'
    if case.get('batch'):
        for i, kk in enumerate(case['batch']):
            if not np.all(np.abs(_arr(res['batch_csd'][i]) - _arr(res['single_csd'][i])) <= 1e-12 * A):
                return f'{tag}: csd of a 2-D array differs from row-wise csd (row {i})'
            if not np.all(np.abs(np.array(res['batch_psd'][i]) - np.array(res['single_psd'][i])) <= 1e-12 * A):
                return f'{tag}: psd of a 2-D array differs from row-wise psd (row {i})'
            if not abs(res['batch_psd'][i][kk] - want) <= TOL * A:
                return f'{tag}: batched psd row {i} reads {res["batch_psd"][i][kk]} at bin {kk}'
        if res['cube_shape'] != [2, len(case['batch']), N // 2 + 1] or not res['cube_ok']:
            return f'{tag}: psd of a 3-D array has shape {res["cube_shape"]} / wrong values'
    return None


def _oracle_dcnyq(case, res):
    N, A, p = case['N'], case['A'], case['p']
    k = 0 if case['which'] == 'dc' else N // 2
    c = _arr(res['csd'])
    tag = f"N={N} {case['which']} tone A={A} p={p}"
    # the frame is the constant / alternating sequence A sqrt2 cos p (-1)^n: RMS A sqrt2 |cos p|; one-sided scaling doubles
    if not abs(c[k] - 2 * A * math.cos(p)) <= TOL * A:
        return f'{tag}: bin {k} reads {c[k]}, the doubled one-sided scaling gives 2 A cos p = {2 * A * math.cos(p)}'
    if not abs(abs(c[k]) - math.sqrt(2) * res['rms']) <= TOL * A:
        return f'{tag}: bin {k} is not sqrt 2 times the RMS {res["rms"]}'
    o = np.delete(np.abs(c), k)
    if len(o) and np.max(o) > TOL * A:
        return f'{tag}: another bin reads {np.max(o)}'
    return None


def _oracle_random(case, res):
    N = case['N']
    c = _arr(res['csd'])
    sc = case['amp'] + abs(case['dc'])
    total = float(np.sum(np.abs(c) ** 2))
    once = total - abs(c[0]) ** 2 / 2 - (abs(c[-1]) ** 2 / 2 if N % 2 == 0 else 0.0)
    tag = f"N={N} random frame (seed {case['seed']})"
    if not abs(once - res['meansq']) <= TOL * sc * sc:
        return (f'{tag}: spectrum power {total} minus half the DC{" and Nyquist" if N % 2 == 0 else ""} bin = {once}, '
                f'mean square of the signal = {res["meansq"]}')
    if not abs(res['rms_rfft'] ** 2 - total) <= TOL * sc * sc:
        return f'{tag}: rms_rfft^2 = {res["rms_rfft"] ** 2}, sum of |csd|^2 = {total}'
    if not abs(res['rms'] ** 2 - res['meansq']) <= TOL * sc * sc:
        return f'{tag}: rms^2 = {res["rms"] ** 2}, mean square = {res["meansq"]}'
    x = _random_frame(case)
    if N % 2 == 0:
        if res['back_len'] != N or not np.all(np.abs(np.array(res['back']) - x) <= TOL * sc):
            return f'{tag}: csd_to_signal(csd(x)) differs from x (length {res["back_len"]}, max error {np.max(np.abs(np.array(res["back"])[:N] - x[:res["back_len"]]))})'
    elif res['back_len'] != N - 1:
        return f'{tag}: csd_to_signal of {len(c)} bins returned {res["back_len"]} samples'
    s, sb = _arr(res['spec']), _arr(res['spec_back'])
    if len(res['spec_sig']) != 2 * (len(s) - 1) or len(sb) != len(s) or not np.all(np.abs(sb - s) <= TOL * 2):
        return f'{tag}: csd(csd_to_signal(c)) differs from c for a spectrum with real DC and Nyquist bins'
    return None


def _oracle_impulse(case, res):
    n, B, i = case['n'], case['B'], case['i']
    L = n // B
    want = math.sqrt(2) / L / B if i < L * B else 0.0
    tag = f'psd of a unit impulse at {i} of {n} samples, {B} averages'
    if res['bins'] != L // 2 + 1:
        return f'{tag}: {res["bins"]} bins, blocks of {L} samples have {L // 2 + 1}'
    if not np.all(np.abs(np.array(res['psd']) - want) <= TOL * max(want, 1e-300)):
        return f'{tag}: reads {res["psd"][:3]}..., expected {want} in every bin ({"inside" if want else "trimmed"})'
    if n % B == 0:
        if _iserr(res['notrim']) or res['notrim'] != res['bins']:
            return f'{tag}: trim_samples=False on a record that divides evenly gives {res["notrim"]}'
    elif not _iserr(res['notrim']):
        return f'{tag}: trim_samples=False on a record that does not divide evenly did not raise'
    return None


def _oracle_db(case, res):
    n = len(case['xs']) if case['form'] != 'scalar' else 1
    r, nb = case['r'], case['n']

    def ok(a, b):
        return abs(a - b) <= TOL * max(1.0, abs(a), abs(b))
    for i in range(n):
        x, d = case['xs'][i], case['ds'][i]
        for what, got, exp in (('db(x, r) = 20 log10(x / r)', res['db'][i], 20 * math.log10(x / r)),
                               ('dbi(db(x, r), r) = x', res['dbi_db'][i], x),
                               ('dbi(d, r) = 10^(d/20) r', res['dbi'][i], 10 ** (d / 20) * r),
                               ('db(dbi(d, r), r) = d', res['db_dbi'][i], d),
                               ('patodb(x) = 20 log10(x / 20e-6)', res['patodb'][i], 20 * math.log10(x / 20e-6)),
                               ('dbtopa(patodb(x)) = x', res['dbtopa_patodb'][i], x),
                               ('dbtopa(d) = 20e-6 10^(d/20)', res['dbtopa'][i], 20e-6 * 10 ** (d / 20)),
                               ('patodb(dbtopa(d)) = d', res['patodb_dbtopa'][i], d),
                               ('db default reference 1', res['db_default'][i], 20 * math.log10(x)),
                               ('band level = spectrum level + 10 log10 n', res['band'][i], d + 10 * math.log10(nb)),
                               ('band -> spectrum -> band', res['spec_back'][i], d),
                               ('spectrum -> band -> spectrum', res['band_back'][i], d),
                               ('spectrum level = band level - 10 log10 n', res['spec'][i], d - 10 * math.log10(nb))):
            if not ok(got, exp):
                return f'{what} fails at x={x}, d={d}, reference={r}, n={nb}: got {got}, expected {exp}'
    if not ok(res['patodb_1'], 20 * math.log10(1 / 20e-6)) or not ok(res['dbtopa_0'] * 1e6, 20.0):
        return f'SPL reference: patodb(1) = {res["patodb_1"]}, dbtopa(0) = {res["dbtopa_0"]}'
    return None


def _oracle_known(case, res):
    if case['what'] == 'odd-inverse':
        if len(res['back']) != len(res['x']):
            return (f'csd_to_signal(csd(x)) of an odd-length frame ({len(res["x"])} samples) returns {len(res["back"])} samples: '
                    'the one-sided spectrum does not carry the parity of the length')
        return None
    if case['what'] == 'batch-inverse':
        if abs(res['ratio'] - 1.0) > 1e-9:
            return (f'csd_to_signal(csd(X)) of a batch X of shape ({case["rows"]}, {case["N"]}) returns X times {res["ratio"]}: the '
                    f'length is taken from len(csd) = number of ROWS (n = 2 (rows - 1)), not from the number of bins; row by row it '
                    f'{"is exact" if res["rowwise_ok"] else "also fails"}')
        return None
    if case['what'] == 'int16-rms':
        if abs(res['int16'] - res['float']) > 1e-9 * res['float']:
            return (f'util.rms of an int16 array of RMS {res["float"]} returns {res["int16"]}: s**2 overflows in int16 (the same '
                    'values as int32 / int64 / float are exact)')
        return None
    if case['what'] == 'default-detrend':
        if abs(res['default'] - 1.0) > 1e-6:
            return (f'with the DEFAULT detrend="linear", csd of a unit-RMS sinusoid at bin {case["k"]} of {case["N"]} samples reads '
                    f'{res["default"]} (tone_power_conv: {res["tone_power_default"]}); with detrend=None it reads {res["none"]}')
        return None
    if case['what'] == 'fft-frequency-ignored':
        if abs(res['power_at_k2'] - 0.25) > 1e-6:
            return (f'tone_power_fft at the frequency of the weaker of two tones (RMS 0.25 at bin {case["k2"]}, RMS 1 at bin '
                    f'{case["k1"]}) returns {res["power_at_k2"]}: the mask is computed from the bin frequencies, not from `frequency`')
        return None


def oracle(case, res):
    return {'tone': _oracle_tone, 'dcnyq': _oracle_dcnyq, 'random': _oracle_random, 'impulse': _oracle_impulse,
            'db': _oracle_db, 'known': _oracle_known, 'var': _oracle_var}[case['kind']](case, res)


def nontrivial(case, res):
    return not (case['kind'] == 'db' and len(case['xs']) == 1)


KNOWN_WITNESSES = {
    'csd_to_signal:odd-length': {'kind': 'known', 'what': 'odd-inverse', 'N': 9},
    'detrend:default-linear-biases-low-bins': {'kind': 'known', 'what': 'default-detrend', 'N': 257, 'k': 1, 'p': 1.0},
}
# outside the property text (it speaks of ONE sinusoid), kept for replay: tone_power_fft / tone_phase_fft ignore `frequency`
OBSERVATIONS = {'tone_power_fft:frequency-ignored': {'kind': 'known', 'what': 'fft-frequency-ignored', 'N': 64, 'fs': 1000.0,
                                                     'k1': 5, 'k2': 20}}


def key(case, res):
    if case and case.get('kind') == 'known':
        return {'odd-inverse': 'csd_to_signal:odd-length', 'default-detrend': 'detrend:default-linear-biases-low-bins',
                'batch-inverse': 'csd_to_signal:batch-scale', 'int16-rms': 'rms:int16-overflow',
                'fft-frequency-ignored': 'tone_power_fft:frequency-ignored'}[case['what']]
    return None


def distribution(cases, results):
    d = {'kinds': {}, 'lengths': {'even': 0, 'odd': 0, 'min': None, 'max': None}, 'windows': {}, 'averages': {},
         'trimmed_samples': {}, 'batched': 0}
    for c in cases:
        kk = c['kind'] if c['kind'] != 'var' else 'var:' + c['what']
        d['kinds'][kk] = d['kinds'].get(kk, 0) + 1
        N = c.get('N', c.get('n'))
        if N is not None and c['kind'] != 'db':
            d['lengths']['even' if N % 2 == 0 else 'odd'] += 1
            d['lengths']['min'] = N if d['lengths']['min'] is None else min(N, d['lengths']['min'])
            d['lengths']['max'] = N if d['lengths']['max'] is None else max(N, d['lengths']['max'])
        if c['kind'] == 'tone':
            d['windows'][str(c['window'])] = d['windows'].get(str(c['window']), 0) + 1
            d['averages'][c['B']] = d['averages'].get(c['B'], 0) + 1
            d['trimmed_samples'][c['r']] = d['trimmed_samples'].get(c['r'], 0) + 1
            d['batched'] += bool(c.get('batch'))
    return d


# ====================================================================================================================
# generators
RATES = [1000.0, 25000.0, 100000.0, 195312.5, 44100.0]


def _tone_case(rng, N, k, window=None):
    B = rng.choice([1, 1, 2, 3, 4])
    case = {'kind': 'tone', 'N': N, 'k': k, 'A': float(10 ** rng.uniform(-3, 3)) if rng.random() < 0.7 else 1.0,
            'p': rng.uniform(-3.1, 3.1) if rng.random() < 0.8 else rng.choice([0.0, math.pi / 2, -math.pi / 2, 1.0]),
            'fs': rng.choice(RATES), 'B': B, 'r': rng.randrange(B), 'window': window}
    lo, hi = _bins(N, window)
    if rng.random() < 0.25 and hi - lo >= 2:
        case['batch'] = sorted(rng.sample(range(lo, hi + 1), 3))
    return case


def _bins(N, window):
    """admissible bins: 0 < 2k < N without window; more than the main-lobe half-width from DC and Nyquist with one"""
    if window is None:
        return 1, (N - 1) // 2
    J = len(COSINE[window]) - 1                   # C16_window_law: J < 2k and 2k + J < N
    return J // 2 + 1, (N - J - 1) // 2


def _in_property_range(N, k, window):
    """the bins the property text speaks about: farther than the main-lobe width from DC and Nyquist"""
    return window is None or (k > WINDOWS[window] and N / 2 - k > WINDOWS[window])


def _random_case(rng, N):
    return {'kind': 'random', 'N': N, 'seed': rng.randrange(10 ** 6), 'amp': float(10 ** rng.uniform(-2, 2)),
            'dc': rng.choice([0.0, 0.0, rng.uniform(-2, 2)])}


def _db_case(rng):
    n = rng.randint(1, 5)
    return {'kind': 'db', 'xs': [float(10 ** rng.uniform(-6, 4)) for _ in range(n)],
            'ds': [rng.choice([float(rng.randint(-120, 140)), rng.uniform(-120, 140)]) for _ in range(n)],
            'r': rng.choice([1.0, 20e-6, float(10 ** rng.uniform(-5, 2))]),
            'n': rng.choice([1, 2, 10, 1000, rng.randint(1, 50000), float(10 ** rng.uniform(0, 4))]),
            'form': rng.choice(['list', 'array', 'series', 'scalar'])}


def _var_cases(rng, quick):
    def nk(lo_n=16, hi_n=96):
        N = rng.randint(lo_n, hi_n)
        return N, rng.randint(1, (N - 1) // 2)
    for mode in ('constant', 'linear', 'default'):
        for win in (None, 'hann'):
            for B in (1, 2):
                for _ in range(2 if quick else 12):
                    N, k = nk()
                    if win:
                        k = min(max(k, 2), (N - 2) // 2)
                    A = float(10 ** rng.uniform(-2, 2))
                    yield {'kind': 'var', 'what': 'detrend', 'N': N, 'k': k, 'A': A, 'p': rng.uniform(-3, 3), 'fs': rng.choice(RATES),
                           'mode': mode, 'a': rng.choice([0.0, A * rng.uniform(-20, 20)]), 'b': rng.choice([0.0, A * rng.uniform(-0.5, 0.5)]),
                           'B': B, 'window': win}
    for dt in ('int64', 'int32', 'int16', 'float32', 'list'):
        for _ in range(3 if quick else 20):
            N, k = nk()
            yield {'kind': 'var', 'what': 'dtype', 'N': N, 'k': k, 'A': rng.choice([50.0, 700.0, float(rng.randint(20, 3000))]),
                   'p': rng.uniform(-3, 3), 'fs': rng.choice(RATES), 'B': rng.choice([1, 3]), 'dtype': dt}
    wins = [['general_hamming', 0.6], ['general_hamming', 0.75], ['general_cosine', [0.5, 0.3, 0.2]], ['general_cosine', [0.4, 0.3, 0.2, 0.1]],
            'boxcar', ['kaiser', 8.0], ['tukey', 0.5], ['gaussian', 7.0]]
    for win in wins:
        for _ in range(2 if quick else 12):
            N = rng.randint(40, 128)
            k = rng.randint(8, N // 2 - 8) if rng.random() < 0.6 else rng.randint(2, (N - 5) // 2)
            yield {'kind': 'var', 'what': 'winkind', 'N': N, 'k': k, 'A': float(10 ** rng.uniform(-2, 2)), 'p': rng.uniform(-3, 3),
                   'fs': rng.choice(RATES), 'window': win}
    for shape, axes in (([7], [0, -1]), ([3, 8], [0, 1, -1, -2]), ([2, 3, 5], [0, 1, 2, -1]), ([1, 4], [0, 1])):
        for ax in axes:
            yield {'kind': 'var', 'what': 'rmsax', 'shape': shape, 'axis': ax, 'seed': rng.randrange(10 ** 6),
                   'a': rng.uniform(-5, 5), 'b': rng.choice([0.0, rng.uniform(-2, 2), 1.5])}
    # the single-frequency estimators at exact bins of realistic records (rates x durations) and of arbitrary lengths
    grid = [(fs, int(round(fs * dur))) for fs in (48000.0, 44100.0, 100000.0, 195312.5, 97656.25) for dur in (0.05, 0.1, 0.2)]
    yield {'kind': 'var', 'what': 'fftpow', 'fs': 48000.0, 'n': 2400, 'k': 55, 'A': 1.0, 'p': 0.3}          # 1100 Hz, 50 ms
    for fs, n in grid:
        top = n // 2 - 12
        for k in sorted({12, top} | {rng.randint(12, top) for _ in range(4 if quick else 40)}):
            yield {'kind': 'var', 'what': 'fftpow', 'fs': fs, 'n': n, 'k': k, 'A': float(10 ** rng.uniform(-2, 2)), 'p': rng.uniform(-3, 3)}
    for _ in range(80 if quick else 1500):
        n = rng.randint(100, 2000)
        yield {'kind': 'var', 'what': 'fftpow', 'fs': rng.choice([48000.0, 44100.0, 100000.0, 195312.5, 97656.25, 25000.0]), 'n': n,
               'k': rng.randint(12, n // 2 - 12), 'A': float(10 ** rng.uniform(-2, 2)), 'p': rng.uniform(-3, 3)}
    for shape in ([3, 64], [2, 8], [1, 10], [5, 4], [2, 3, 16], [4, 1, 6]):
        yield {'kind': 'var', 'what': 'batchinv', 'shape': shape, 'seed': rng.randrange(10 ** 6), 'amp': float(10 ** rng.uniform(-2, 2))}
    for form in ('array2d', 'frame', 'series', 'array1d'):
        for B in (1, 2, 3):
            N = rng.choice([16, 25, 40])
            ks = sorted(rng.sample(range(1, (N - 1) // 2 + 1), 3))
            yield {'kind': 'var', 'what': 'df', 'N': N, 'fs': rng.choice(RATES), 'B': B, 'r': rng.randrange(B), 'ks': ks, 'form': form,
                   'none_for_one': rng.random() < 0.5, 'labels': rng.choice(['str', 'int0'])}
    for fk in ('array', 'list', 'int', 'intarray'):
        N = rng.choice([20, 50, 100])
        yield {'kind': 'var', 'what': 'batchconv', 'N': N, 'fs': 1000.0, 'ks': sorted(rng.sample(range(1, (N - 1) // 2 + 1), 3)),
               'freq_kind': fk}
    for _ in range(6 if quick else 60):
        yield {'kind': 'var', 'what': 'dbkinds', 'x': rng.choice([1, 2, 10, rng.randint(1, 5000)]), 'r': rng.choice([1, 2, 7]),
               'd': rng.choice([0, 20, -20, rng.randint(-120, 140)])}


def corpus():
    return [{'kind': 'tone', 'N': 16, 'k': 1, 'A': 1.0, 'p': 1.0, 'fs': 1000.0, 'B': 2, 'r': 1, 'window': None, 'batch': [1, 3, 7]},
            {'kind': 'tone', 'N': 257, 'k': 128, 'A': 0.5, 'p': -2.0, 'fs': 195312.5, 'B': 4, 'r': 3, 'window': None},
            {'kind': 'tone', 'N': 64, 'k': 6, 'A': 2.0, 'p': 0.5, 'fs': 100000.0, 'B': 3, 'r': 2, 'window': 'flattop'},
            {'kind': 'dcnyq', 'N': 8, 'which': 'dc', 'A': 3.0, 'p': 0.0}, {'kind': 'dcnyq', 'N': 8, 'which': 'nyq', 'A': 3.0, 'p': 0.7},
            {'kind': 'random', 'N': 8, 'seed': 1, 'amp': 1.0, 'dc': 0.5}, {'kind': 'random', 'N': 9, 'seed': 2, 'amp': 1.0, 'dc': 0.5},
            {'kind': 'impulse', 'n': 11, 'B': 3, 'i': 9}, {'kind': 'impulse', 'n': 11, 'B': 3, 'i': 8}]


def cases(tier, rng):
    quick = tier == 'quick'
    lengths = list(range(4, 258)) if not quick else list(range(4, 41)) + sorted(rng.sample(range(41, 258), 24)) + [256, 257]
    for N in lengths:
        lo, hi = _bins(N, None)
        ks = range(lo, hi + 1) if (N <= 24 or not quick) else sorted({lo, hi} | set(rng.sample(range(lo, hi + 1), min(3, hi - lo + 1))))
        for k in ks:
            yield _tone_case(rng, N, k)
        for w in WINDOWS:
            lo, hi = _bins(N, w)
            if hi >= lo:
                ws = range(lo, hi + 1) if not quick and N <= 64 else sorted({lo, hi, rng.randint(lo, hi)})
                for k in ws:
                    yield _tone_case(rng, N, k, w)
        yield {'kind': 'dcnyq', 'N': N, 'which': 'dc', 'A': float(10 ** rng.uniform(-2, 2)), 'p': rng.uniform(-3, 3)}
        if N % 2 == 0:
            yield {'kind': 'dcnyq', 'N': N, 'which': 'nyq', 'A': float(10 ** rng.uniform(-2, 2)), 'p': rng.uniform(-3, 3)}
        for _ in range(1 if quick else 3):
            yield _random_case(rng, N)
    for n in (range(4, 40) if quick else range(4, 130)):
        for B in (1, 2, 3, 4):
            L = n // B
            if L < 2:
                continue
            for i in sorted({0, L - 1, L % n, (L * B - 1), min(L * B, n - 1), n - 1, rng.randrange(n)}):
                yield {'kind': 'impulse', 'n': n, 'B': B, 'i': i}
    for _ in range(60 if quick else 600):
        yield _db_case(rng)
    yield from _var_cases(rng, quick)


def search(tier, rng):
    """Called by the driver when a theorem about the regenerated definitions (or the correspondence) broke: look for a
    concrete input on which the IMPLEMENTATION violates one of the identities."""
    found = []
    gens = [lambda: _tone_case(rng, *_nk(rng)), lambda: _random_case(rng, rng.randint(4, 64)), lambda: _db_case(rng),
            lambda: {'kind': 'dcnyq', 'N': 2 * rng.randint(2, 30), 'which': rng.choice(['dc', 'nyq']), 'A': 1.5, 'p': rng.uniform(-3, 3)},
            lambda: {'kind': 'impulse', 'n': rng.randint(8, 60), 'B': rng.randint(1, 4), 'i': rng.randrange(8)}]
    for i in range(300 if tier == 'quick' else 3000):
        case = gens[i % len(gens)]()
        try:
            res = impl(case)
            msg = oracle(case, res)
        except Exception as e:          # behaviour the property does not allow
            msg = f'unexpected {type(e).__name__}: {e}'
        if msg:
            found.append((case, msg))
            if len(found) >= 3:
                break
    return found


def _nk(rng):
    N = rng.randint(4, 128)
    lo, hi = _bins(N, None)
    return N, rng.randint(lo, hi)
