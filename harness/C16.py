"""C16 - spectral and level utilities satisfy their defining identities.

Theorems (coq/Props/C16.v, proofs coq/Spectrum/Proofs.v) are about the definitions of coq/gen/UtilExprGen.v, REGENERATED here
from $PSIAUDIO_REPO/psiaudio/util.py by translate/pyexpr2coq_ext.py (table translate/c16_spec.py), and about the DFT sums
of coq/Spectrum/DFT.v.  This harness ties the rest: np.fft.rfft / irfft = those sums, the array glue of csd / psd / phase /
tone_conv / csd_to_signal (windows, averaging, trimming, batch shapes) = the model evaluated numerically with the generated
scale factors, and judges the identities on the implementation's own return values (oracle)."""
import math
import os

import numpy as np

import vlib
from vlib import zlit, listlit, blit
from translate import pyexpr2coq_ext, c16_spec, c16c08_common

PROP = 'C16'
REQUIRES = ['Spectrum.Glue']
RULE = ('Frames of every length 4..257 (quick: every length 4..40 plus a sample of the longer ones; every admissible bin for '
        'lengths <= 24, random bins above), even and odd, amplitudes 1e-3..1e3, phases in (-pi, pi), sampling rates incl. '
        '195312.5, without window and with hann / flattop / blackman / hamming at every bin k with J < 2k, 2k + J < N (J the order of '
        'the window; the oracle judges those farther than the main lobe from DC and Nyquist), 1..4 averages with per-block amplitudes and 0..B-1 trailing samples to trim, 1-D and batched 2-D / 3-D input; '
        'DC and Nyquist tones; random frames for Parseval and the inverse transform (even: exact inverse, odd: length only); '
        'unit impulses at every block boundary for the trimming / averaging index model; dB helpers on scalars, lists, arrays, '
        'Series.  Non-trivial: every case except dB cases with a single value.  Distinct = distinct case dictionaries.')
TRUSTED = ['translate/pyexpr2coq.py + translate/pyexpr2coq_ext.py + translate/c16_spec.py (fail-closed AST translator; '
           'self-tested on every run by an independent interpreter of the emitted text against the real functions)',
           'harness/C16.py (generators; DFT sums evaluated in binary64 by explicit cos/sin matrices; comparison tolerances)',
           'np.fft.rfft / irfft are the DFT sums of coq/Spectrum/DFT.v; scipy.signal.get_window(name) is the cosine sum of Spectrum/DFT.v; '
           'scipy.signal.detrend is not modelled (exercised / observed, not proved)']
ASSUMPTIONS = ['identities are stated for detrend=None: the default detrend="linear" of csd / psd / tone_conv / tone_power_conv '
               'subtracts the least-squares line, which is not orthogonal to a sinusoid (bin 1 of 16..257 samples reads 0.64 A - '
               '0.98 A depending on phase; the bias falls as 1/k); tone_phase_conv cannot switch detrending off and is judged '
               'as np.angle of tone_conv with the same default',
               'the laws are proved over the real numbers; the implementation evaluates them in binary64 and agreement is '
               'observed to 1e-9 relative',
               'windows: hann, flattop, blackman, hamming as scipy.signal.get_window(name, n) returns them (periodic); that they are '
               'the cosine sums of order 1, 4, 2, 1 about which C16_window_law speaks is checked numerically (1e-12) in every '
               'windowed case; other scipy windows (kaiser, tukey, ...) are not cosine sums and are not covered; the oracle '
               'judges bins more than the main-lobe half-width (2, 5, 3, 2 bins) from DC and Nyquist, the correspondence also '
               'the nearer bins that the theorem covers (J < 2k, 2k + J < N)',
               'phases are compared modulo 2 pi (np.unwrap adds multiples of 2 pi across bins)',
               'csd_to_signal reconstructs n = 2 (len(csd) - 1) samples (numpy irfft default): the inverse law is stated and '
               'checked for even frame lengths; for odd lengths only the returned length N - 1 is checked (the one-sided '
               'spectrum does not carry the parity of N)',
               'arguments of log10 are > 0']

GEN = 'gen/UtilExprGen.v'
_DEFS = None
TOL = 1e-9
WINDOWS = {'hann': 2, 'hamming': 2, 'blackman': 3, 'flattop': 5}    # main-lobe half-width in bins
# scipy's periodic windows as cosine sums  w_n = sum_j c_j cos(2 pi j n / N)  (Spectrum/DFT.v cos_window)
COSINE = {'hann': [0.5, -0.5], 'hamming': [0.54, -0.46], 'blackman': [0.42, -0.5, 0.08],
          'flattop': [0.21557895, -0.41663158, 0.277263158, -0.083578947, 0.006947368]}


# ====================================================================================================================
# translator tie
def translate(repo):
    """Regenerate coq/gen/UtilExprGen.v from the source under test (a gap becomes a file that does not compile)."""
    global _DEFS
    head = ('(* GENERATED on every run by harness/C16.py translate() with translate/pyexpr2coq_ext.py from\n'
            f'   {repo}/psiaudio/util.py - do not edit.  n = s.shape[-1]; nbins = len(csd); i = np.arange(n) (sample index);\n'
            '   absr = |tone_conv|; meansq = mean(s**2); sumsq = sum(|x|**2).  Array glue: see translate/c16_spec.py. *)\n')
    info, defs = c16c08_common.generate(repo, c16_spec, vlib.COQ, head)
    info['source'] = [os.path.join(repo, 'psiaudio/util.py')]
    _DEFS = defs
    rc, out = vlib.coq_build('Spectrum/Glue.vo')
    if rc != 0:
        raise vlib.MachineryError('Spectrum/Glue.v does not build:\n' + out[-3000:])
    return info


def _gen(name, *args):
    if _DEFS is None:
        return None
    with np.errstate(all='ignore'):
        return pyexpr2coq_ext.evaluate(_DEFS, name, list(args), np)


# ====================================================================================================================
# helpers
def _util():
    from psiaudio import util
    return util


def _fl(a):
    return [float(v) for v in np.asarray(a, dtype=float).ravel()]


def _cx(a):
    a = np.asarray(a)
    return {'re': _fl(a.real), 'im': _fl(a.imag)}


def _arr(c):
    return np.array(c['re']) + 1j * np.array(c['im'])


def _try(f):
    try:
        return f()
    except (ValueError, TypeError, IndexError, AttributeError) as e:
        return {'err': type(e).__name__, 'msg': str(e)[:120]}


def _iserr(x):
    return isinstance(x, dict) and 'err' in x


def dy(x):
    n, d = float(x).as_integer_ratio()
    return f'(dy {zlit(n)} {zlit(-(d.bit_length() - 1))})'


def _tone(N, k, A, p):
    n = np.arange(N)
    return A * np.sqrt(2) * np.cos(2 * np.pi * k * n / N + p)


def _wrap(a):
    """angle difference folded to (-pi, pi]"""
    return (a + math.pi) % (2 * math.pi) - math.pi


def _dft(x, scale=1.0):
    """the DFT sums of Spectrum/DFT.v (dft_re, dft_im) for every one-sided bin, by explicit cos/sin matrices"""
    x = np.asarray(x, dtype=float)
    N = x.shape[-1]
    m = np.arange(N // 2 + 1)
    ang = 2 * np.pi * np.outer(m, np.arange(N)) / N
    return (np.cos(ang) @ x - 1j * (np.sin(ang) @ x)) * scale


def _irfft_model(c, M):
    """Spectrum/DFT.v irfft: len(c) = M + 1 bins -> 2 M samples"""
    N = 2 * M
    n = np.arange(N)
    out = np.full(N, c[0].real)
    for m in range(1, M):
        a = 2 * np.pi * m * n / N
        out = out + 2 * (c[m].real * np.cos(a) - c[m].imag * np.sin(a))
    out = out + c[M].real * np.cos(np.pi * n)
    return out / N


def _block_amps(case):
    return [case['A'] * (1 + 0.25 * b) for b in range(case['B'])]


def _frames(case):
    """(one frame, the long record for psd: B blocks with amplitudes A (1 + b/4) and r trailing samples to trim)"""
    N, k, p = case['N'], case['k'], case['p']
    x = _tone(N, k, case['A'], p)
    long = np.concatenate([_tone(N, k, a, p) for a in _block_amps(case)] + [np.full(case['r'], 7.5)])
    return x, long


# ====================================================================================================================
# implementation side
def _impl_tone(case):
    util = _util()
    N, k, A, p, fs, B, w = case['N'], case['k'], case['A'], case['p'], case['fs'], case['B'], case['window']
    x, long = _frames(case)
    f = k * fs / N
    res = {'csd': _cx(util.csd(x, window=w, detrend=None)),
           'psd1': _fl(util.psd(x, fs, window=w, detrend=None)),
           'psd': _try(lambda: _fl(util.psd(long, fs, window=w, waveform_averages=B, detrend=None))),
           'rms': float(util.rms(x)),
           'phase': _try(lambda: float(util.phase(x, fs, window=w, unwrap=False)[k])),
           'phase_unwrapped': _try(lambda: float(util.phase(x, fs, window=w)[k])),
           'phase_avg': _try(lambda: float(util.phase(np.concatenate([x] * B + [np.full(case['r'], 7.5)]), fs, window=w,
                                                      waveform_averages=B, unwrap=False)[k])),
           'tone_conv': _cx(util.tone_conv(x, fs, f, window=w, detrend=None)),
           'tone_power': float(util.tone_power_conv(x, fs, f, window=w, detrend=None)),
           'tone_phase_default': float(util.tone_phase_conv(x, fs, f, window=w)),
           'tone_conv_default': _cx(util.tone_conv(x, fs, f, window=w)),
           'tone_conv_multi': _cx(util.tone_conv(x, fs, np.array([f, f]), window=w, detrend=None))}
    df = _try(lambda: util.psd_df(long, fs, window=w, waveform_averages=B, detrend=None))
    if _iserr(df):
        res['df'] = df
    else:
        res['df'] = {'freq_k': float(df.index[k]), 'val_k': float(df.iloc[k]), 'n': int(len(df))}
    cdf = util.csd_df(x, fs, window=w, detrend=None)
    res['csd_df'] = {'freq_k': float(cdf.index[k]), 're': float(cdf.iloc[k].real), 'im': float(cdf.iloc[k].imag)}
    if case.get('batch'):
        ks = case['batch']
        rows = np.stack([_tone(N, kk, A, p) for kk in ks])
        res['batch_csd'] = [_cx(r) for r in util.csd(rows, window=w, detrend=None)]
        res['single_csd'] = [_cx(util.csd(r, window=w, detrend=None)) for r in rows]
        longs = np.stack([np.concatenate([_tone(N, kk, a, p) for a in _block_amps(case)] + [np.full(case['r'], 7.5)])
                          for kk in ks])
        res['batch_psd'] = [_fl(r) for r in util.psd(longs, fs, window=w, waveform_averages=B, detrend=None)]
        res['single_psd'] = [_fl(util.psd(r, fs, window=w, waveform_averages=B, detrend=None)) for r in longs]
        cube = np.stack([longs, 2 * longs])
        res['cube_shape'] = list(util.psd(cube, fs, window=w, waveform_averages=B, detrend=None).shape)
        res['cube_ok'] = bool(np.allclose(util.psd(cube, fs, window=w, waveform_averages=B, detrend=None)[1],
                                          2 * np.array(res['batch_psd']), rtol=1e-12, atol=0))
    return res


def _impl_dcnyq(case):
    util = _util()
    N, A, p = case['N'], case['A'], case['p']
    k = 0 if case['which'] == 'dc' else N // 2
    x = _tone(N, k, A, p)
    return {'csd': _cx(util.csd(x, detrend=None)), 'rms': float(util.rms(x))}


def _random_frame(case):
    return np.random.RandomState(case['seed']).uniform(-1, 1, case['N']) * case['amp'] + case['dc']


def _impl_random(case):
    util = _util()
    x = _random_frame(case)
    N = len(x)
    c = util.csd(x, detrend=None)
    back = util.csd_to_signal(c)
    res = {'csd': _cx(c), 'meansq': float(np.mean(x ** 2)), 'rms': float(util.rms(x)), 'rms_rfft': float(util.rms_rfft(c)),
           'back_len': int(len(back)), 'back': _fl(back)}
    # spectrum -> signal -> spectrum, for a spectrum with real DC and Nyquist bins
    rs = np.random.RandomState(case['seed'] + 1)
    nb = N // 2 + 1
    s = rs.uniform(-1, 1, nb) + 1j * rs.uniform(-1, 1, nb)
    s[0] = s[0].real
    s[-1] = s[-1].real
    sig = util.csd_to_signal(s)
    res['spec'] = _cx(s)
    res['spec_sig'] = _fl(sig)
    res['spec_back'] = _cx(util.csd(sig, detrend=None))
    return res


def _impl_impulse(case):
    util = _util()
    n, B, i = case['n'], case['B'], case['i']
    x = np.zeros(n)
    x[i] = 1.0
    p = util.psd(x, 1000.0, waveform_averages=B, detrend=None)
    c = util.csd(np.ones(n), detrend=None)
    return {'psd': _fl(p), 'bins': int(len(p)), 'csd_bins': int(len(c)), 'back_len': int(len(util.csd_to_signal(c))),
            'notrim': _try(lambda: int(len(util.psd(x, 1000.0, waveform_averages=B, trim_samples=False, detrend=None))))}


def _impl_db(case):
    import pandas as pd
    util = _util()
    xs, ds, r, n = case['xs'], case['ds'], case['r'], case['n']

    def mk(v):
        return {'list': list(v), 'array': np.array(v), 'series': pd.Series(v), 'scalar': v[0]}[case['form']]
    x, d = mk(xs), mk(ds)
    dbv = util.db(x, r)
    return {'db': _fl(dbv), 'dbi_db': _fl(util.dbi(dbv, r)), 'dbi': _fl(util.dbi(d, r)), 'db_dbi': _fl(util.db(util.dbi(d, r), r)),
            'patodb': _fl(util.patodb(x)), 'dbtopa_patodb': _fl(util.dbtopa(util.patodb(x))),
            'dbtopa': _fl(util.dbtopa(d)), 'patodb_dbtopa': _fl(util.patodb(util.dbtopa(d))),
            'patodb_1': float(util.patodb(1)), 'dbtopa_0': float(util.dbtopa(0)), 'db_default': _fl(util.db(x)),
            'band': _fl(util.spectrum_to_band_level(np.asarray(d), n)),
            'band_back': _fl(util.band_to_spectrum_level(util.spectrum_to_band_level(np.asarray(d), n), n)),
            'spec': _fl(util.band_to_spectrum_level(np.asarray(d), n)),
            'spec_back': _fl(util.spectrum_to_band_level(util.band_to_spectrum_level(np.asarray(d), n), n))}


def _impl_known(case):
    util = _util()
    if case['what'] == 'odd-inverse':
        x = np.random.RandomState(5).uniform(-1, 1, case['N'])
        back = util.csd_to_signal(util.csd(x, detrend=None))
        return {'x': _fl(x), 'back': _fl(back)}
    if case['what'] == 'default-detrend':
        x = _tone(case['N'], case['k'], 1.0, case['p'])
        return {'default': float(abs(util.csd(x)[case['k']])), 'none': float(abs(util.csd(x, detrend=None)[case['k']])),
                'tone_power_default': float(util.tone_power_conv(x, 1000.0, case['k'] * 1000.0 / case['N']))}
    if case['what'] == 'fft-frequency-ignored':
        N, fs = case['N'], case['fs']
        x = _tone(N, case['k1'], 1.0, 0.3) + _tone(N, case['k2'], 0.25, 0.3)
        return {'power_at_k2': float(util.tone_power_fft(x, fs, case['k2'] * fs / N)),
                'power_at_k1': float(util.tone_power_fft(x, fs, case['k1'] * fs / N))}
    raise KeyError(case['what'])


def impl(case):
    import warnings
    with warnings.catch_warnings():
        warnings.simplefilter('ignore')
        return {'tone': _impl_tone, 'dcnyq': _impl_dcnyq, 'random': _impl_random, 'impulse': _impl_impulse,
                'db': _impl_db, 'known': _impl_known}[case['kind']](case)


# ====================================================================================================================
# model side: the DFT sums of Spectrum/DFT.v with the GENERATED scale factors, evaluated in binary64, against the
# implementation (np.fft.rfft / irfft, windows, averaging, trimming, batch shapes: the glue the translator does not see)
def _close(a, b, scale, tol=TOL):
    return bool(np.all(np.abs(np.asarray(a) - np.asarray(b)) <= tol * max(scale, 1e-300)))


def _window(name, n):
    """Spectrum/DFT.v: cos_window divided by its mean, which is its constant coefficient (C16_window_mean)"""
    c = COSINE[name]
    k = np.arange(n)
    w = sum(cj * np.cos(2 * np.pi * j * k / n) for j, cj in enumerate(c))
    return w / c[0]


def _model_csd(x, w):
    x = np.asarray(x, dtype=float)
    if w is not None:
        x = _window(w, len(x)) * x
    return _dft(x, float(_gen('csd_scale', float(len(x)))))


def _model_psd(long, B, w):
    L = len(long) // B
    return np.mean([np.abs(_model_csd(long[b * L:(b + 1) * L], w)) for b in range(B)], axis=0)


def _glue(case, res):
    if _DEFS is None:
        return []
    bad = []
    k = case['kind']
    if k == 'tone':
        N, A, fs, B, w = case['N'], case['A'], case['fs'], case['B'], case['window']
        x, long = _frames(case)
        if w is not None:
            from scipy import signal
            sw = signal.get_window(w, N)
            if not _close(sw / sw.mean(), _window(w, N), 1.0, 1e-12):
                bad.append(f'scipy window {w} of {N} points is not the cosine sum {COSINE[w]} normalised by its constant term')
        if not _close(_arr(res['csd']), _model_csd(x, w), A):
            bad.append('csd differs from the DFT sum times the generated csd_scale')
        if not _iserr(res['psd']) and not _close(res['psd'], _model_psd(long, B, w), A):
            bad.append('psd differs from the block average of |DFT sum * csd_scale| (trimmed to B * (len // B) samples)')
        xw = x if w is None else _window(w, N) * x
        f = case['k'] * fs / N
        idx = np.arange(N, dtype=float)
        tr = np.mean(_gen('tone_conv_re', xw, idx, fs, f))          # the generated definition is elementwise
        ti = np.mean(_gen('tone_conv_im', xw, idx, fs, f))
        if not _close(_arr(res['tone_conv']), tr + 1j * ti, A):
            bad.append('tone_conv differs from the mean of the generated per-sample value')
        if not _close(res['tone_power'], _gen('tone_power_of_abs', abs(tr + 1j * ti)), A):
            bad.append('tone_power_conv differs from generated |tone_conv| / sqrt 2')
        if not _close(res['rms'], _gen('rms_of_meansq', float(np.mean(x ** 2))), A):
            bad.append('rms differs from generated sqrt(mean square)')
    elif k == 'dcnyq':
        x = _tone(case['N'], 0 if case['which'] == 'dc' else case['N'] // 2, case['A'], case['p'])
        if not _close(_arr(res['csd']), _model_csd(x, None), case['A']):
            bad.append('csd differs from the DFT sum times the generated csd_scale')
    elif k == 'random':
        x = _random_frame(case)
        sc = float(np.max(np.abs(x)))
        c = _model_csd(x, None)
        if not _close(_arr(res['csd']), c, sc):
            bad.append('csd differs from the DFT sum times the generated csd_scale')
        if not _close(res['rms_rfft'], _gen('rms_rfft_of_sumsq', float(np.sum(np.abs(_arr(res['csd'])) ** 2))), sc):
            bad.append('rms_rfft differs from generated sqrt(sum |c|^2)')
        nb = len(c)
        M = nb - 1
        if M >= 1:
            m = _irfft_model(_arr(res['csd']) / float(_gen('csd_to_signal_scale', float(nb))), M)
            if len(m) != res['back_len'] or not _close(res['back'], m, sc):
                bad.append('csd_to_signal differs from the inverse-DFT sum of Spectrum/DFT.v with the generated scale')
    elif k == 'db':
        n = len(case['xs']) if case['form'] != 'scalar' else 1
        for i in range(n):
            x, d = case['xs'][i], case['ds'][i]
            for name, args, key in (('u_db', (x, case['r']), 'db'), ('u_dbi', (d, case['r']), 'dbi'),
                                    ('u_patodb', (x,), 'patodb'), ('u_dbtopa', (d,), 'dbtopa'),
                                    ('u_spectrum_to_band_level', (d, float(case['n'])), 'band'),
                                    ('u_band_to_spectrum_level', (d, float(case['n'])), 'spec')):
                m = float(_gen(name, *args))
                if not abs(m - res[key][i]) <= 1e-12 * max(1.0, abs(m)):
                    bad.append(f'{name}{args} = {m} but the implementation returned {res[key][i]}')
    return bad


def term(case, res):
    glue = _glue(case, res)
    res['glue'] = glue[:5]
    parts = [blit(not glue)]
    if case['kind'] == 'impulse':
        sq = listlit([dy(v * v) for v in res['psd']])
        parts.append(f"check_psd {zlit(case['n'])} {zlit(case['B'])} {zlit(case['i'])} {zlit(res['bins'])} {sq}")
        parts.append(f"check_shapes {zlit(case['n'])} {zlit(res['csd_bins'])} {zlit(res['back_len'])}")
    elif case['kind'] == 'tone':
        # which averaging counts util.phase answers (model: Spectrum/Glue.v phase_detrend)
        parts.append(f"check_phase None {blit(not _iserr(res['phase']))}")
        parts.append(f"check_phase (Some {zlit(case['B'])}) {blit(not _iserr(res['phase_avg']))}")
    elif case['kind'] == 'random':
        parts.append(f"check_shapes {zlit(case['N'])} {zlit(len(res['csd']['re']))} {zlit(res['back_len'])}")
    return ' && '.join(f'({p})' for p in parts)


# ====================================================================================================================
# the property, judged on the implementation's answers only
def _oracle_tone(case, res):
    N, k, A, p, fs, B, w = case['N'], case['k'], case['A'], case['p'], case['fs'], case['B'], case['window']
    tag = f"N={N} bin {k} A={A} p={p} window={w} averages={B} trim={case['r']}"
    c = _arr(res['csd'])
    if not _in_property_range(N, k, w):
        # nearer to DC / Nyquist than the main-lobe width (but inside the range of C16_window_law): the property text is
        # silent here; agreement with the model is still required by the correspondence (term)
        return None
    if not abs(c[k] - A * np.exp(1j * p)) <= TOL * A:
        return f'{tag}: csd at its bin reads |{abs(c[k])}|, phase {np.angle(c[k])}: expected A and p'
    if w is None:
        others = np.delete(np.abs(c), k)
        if len(others) and np.max(others) > TOL * A:
            return f'{tag}: csd at another bin ({int(np.argmax(others))}) reads {np.max(others)}, expected ~0'
        if not abs(res['rms'] - A) <= TOL * A:
            return f'{tag}: util.rms of the sinusoid is {res["rms"]}'
    if not abs(res['psd1'][k] - A) <= TOL * A:
        return f'{tag}: psd without averaging reads {res["psd1"][k]} at the bin'
    want = float(np.mean(_block_amps(case)))
    if _iserr(res['psd']):
        return f'{tag}: psd with {B} averages raised {res["psd"]}'
    if len(res['psd']) != N // 2 + 1:
        return f'{tag}: psd with {B} averages of {N} samples (+{case["r"]} to trim) has {len(res["psd"])} bins'
    if not abs(res['psd'][k] - want) <= TOL * A:
        return f'{tag}: psd averaged over blocks of RMS {_block_amps(case)} reads {res["psd"][k]} at the bin, expected {want}'
    if w is None:
        o = np.delete(np.array(res['psd']), k)
        if len(o) and np.max(o) > TOL * A:
            return f'{tag}: averaged psd at another bin reads {np.max(o)}'
    for key in ('phase', 'phase_unwrapped', 'phase_avg'):
        v = res[key]
        if _iserr(v):
            return f'{tag}: util.phase ({key}) raised {v["err"]}: {v["msg"]}'
        if not abs(_wrap(v - p)) <= TOL:
            return f'{tag}: util.phase ({key}) reads {v} at the bin (mod 2 pi), expected {p}'
    df = res['df']
    if _iserr(df):
        return f'{tag}: psd_df raised {df}'
    if df['n'] != N // 2 + 1 or not abs(df['freq_k'] - k * fs / N) <= 1e-9 * fs or not abs(df['val_k'] - want) <= TOL * A:
        return f'{tag}: psd_df labels bin {k} as {df["freq_k"]} Hz with value {df["val_k"]} ({df["n"]} bins); expected {k * fs / N} Hz, {want}'
    cd = res['csd_df']
    if not abs(cd['freq_k'] - k * fs / N) <= 1e-9 * fs or not abs(complex(cd['re'], cd['im']) - A * np.exp(1j * p)) <= TOL * A:
        return f'{tag}: csd_df at bin {k}: {cd}'
    tc = _arr(res['tone_conv'])
    if not abs(tc - A * np.sqrt(2) * np.exp(1j * p)) <= TOL * A:
        return f'{tag}: tone_conv returns {tc}: expected the peak phasor A sqrt2 exp(ip)'
    if not abs(res['tone_power'] - A) <= TOL * A:
        return f'{tag}: tone_power_conv returns {res["tone_power"]}'
    tm = _arr(res['tone_conv_multi'])
    if tm.shape != (2,) or not np.all(np.abs(tm - tc) <= 1e-12 * A):
        return f'{tag}: tone_conv with an array of frequencies differs from the scalar call'
    if not abs(_wrap(res['tone_phase_default'] - np.angle(_arr(res['tone_conv_default'])))) <= 1e-12:
        return f'{tag}: tone_phase_conv is not the angle of tone_conv'
    if case.get('batch'):
        for i, kk in enumerate(case['batch']):
            if not np.all(np.abs(_arr(res['batch_csd'][i]) - _arr(res['single_csd'][i])) <= 1e-12 * A):
                return f'{tag}: csd of a 2-D array differs from row-wise csd (row {i})'
            if not np.all(np.abs(np.array(res['batch_psd'][i]) - np.array(res['single_psd'][i])) <= 1e-12 * A):
                return f'{tag}: psd of a 2-D array differs from row-wise psd (row {i})'
            if not abs(res['batch_psd'][i][kk] - want) <= TOL * A:
                return f'{tag}: batched psd row {i} reads {res["batch_psd"][i][kk]} at bin {kk}'
        if res['cube_shape'] != [2, len(case['batch']), N // 2 + 1] or not res['cube_ok']:
            return f'{tag}: psd of a 3-D array has shape {res["cube_shape"]} / wrong values'
    return None


def _oracle_dcnyq(case, res):
    N, A, p = case['N'], case['A'], case['p']
    k = 0 if case['which'] == 'dc' else N // 2
    c = _arr(res['csd'])
    tag = f"N={N} {case['which']} tone A={A} p={p}"
    # the frame is the constant / alternating sequence A sqrt2 cos p (-1)^n: RMS A sqrt2 |cos p|; one-sided scaling doubles
    if not abs(c[k] - 2 * A * math.cos(p)) <= TOL * A:
        return f'{tag}: bin {k} reads {c[k]}, the doubled one-sided scaling gives 2 A cos p = {2 * A * math.cos(p)}'
    if not abs(abs(c[k]) - math.sqrt(2) * res['rms']) <= TOL * A:
        return f'{tag}: bin {k} is not sqrt 2 times the RMS {res["rms"]}'
    o = np.delete(np.abs(c), k)
    if len(o) and np.max(o) > TOL * A:
        return f'{tag}: another bin reads {np.max(o)}'
    return None


def _oracle_random(case, res):
    N = case['N']
    c = _arr(res['csd'])
    sc = case['amp'] + abs(case['dc'])
    total = float(np.sum(np.abs(c) ** 2))
    once = total - abs(c[0]) ** 2 / 2 - (abs(c[-1]) ** 2 / 2 if N % 2 == 0 else 0.0)
    tag = f"N={N} random frame (seed {case['seed']})"
    if not abs(once - res['meansq']) <= TOL * sc * sc:
        return (f'{tag}: spectrum power {total} minus half the DC{" and Nyquist" if N % 2 == 0 else ""} bin = {once}, '
                f'mean square of the signal = {res["meansq"]}')
    if not abs(res['rms_rfft'] ** 2 - total) <= TOL * sc * sc:
        return f'{tag}: rms_rfft^2 = {res["rms_rfft"] ** 2}, sum of |csd|^2 = {total}'
    if not abs(res['rms'] ** 2 - res['meansq']) <= TOL * sc * sc:
        return f'{tag}: rms^2 = {res["rms"] ** 2}, mean square = {res["meansq"]}'
    x = _random_frame(case)
    if N % 2 == 0:
        if res['back_len'] != N or not np.all(np.abs(np.array(res['back']) - x) <= TOL * sc):
            return f'{tag}: csd_to_signal(csd(x)) differs from x (length {res["back_len"]}, max error {np.max(np.abs(np.array(res["back"])[:N] - x[:res["back_len"]]))})'
    elif res['back_len'] != N - 1:
        return f'{tag}: csd_to_signal of {len(c)} bins returned {res["back_len"]} samples'
    s, sb = _arr(res['spec']), _arr(res['spec_back'])
    if len(res['spec_sig']) != 2 * (len(s) - 1) or len(sb) != len(s) or not np.all(np.abs(sb - s) <= TOL * 2):
        return f'{tag}: csd(csd_to_signal(c)) differs from c for a spectrum with real DC and Nyquist bins'
    return None


def _oracle_impulse(case, res):
    n, B, i = case['n'], case['B'], case['i']
    L = n // B
    want = math.sqrt(2) / L / B if i < L * B else 0.0
    tag = f'psd of a unit impulse at {i} of {n} samples, {B} averages'
    if res['bins'] != L // 2 + 1:
        return f'{tag}: {res["bins"]} bins, blocks of {L} samples have {L // 2 + 1}'
    if not np.all(np.abs(np.array(res['psd']) - want) <= TOL * max(want, 1e-300)):
        return f'{tag}: reads {res["psd"][:3]}..., expected {want} in every bin ({"inside" if want else "trimmed"})'
    if n % B == 0:
        if _iserr(res['notrim']) or res['notrim'] != res['bins']:
            return f'{tag}: trim_samples=False on a record that divides evenly gives {res["notrim"]}'
    elif not _iserr(res['notrim']):
        return f'{tag}: trim_samples=False on a record that does not divide evenly did not raise'
    return None


def _oracle_db(case, res):
    n = len(case['xs']) if case['form'] != 'scalar' else 1
    r, nb = case['r'], case['n']

    def ok(a, b):
        return abs(a - b) <= TOL * max(1.0, abs(a), abs(b))
    for i in range(n):
        x, d = case['xs'][i], case['ds'][i]
        for what, got, exp in (('db(x, r) = 20 log10(x / r)', res['db'][i], 20 * math.log10(x / r)),
                               ('dbi(db(x, r), r) = x', res['dbi_db'][i], x),
                               ('dbi(d, r) = 10^(d/20) r', res['dbi'][i], 10 ** (d / 20) * r),
                               ('db(dbi(d, r), r) = d', res['db_dbi'][i], d),
                               ('patodb(x) = 20 log10(x / 20e-6)', res['patodb'][i], 20 * math.log10(x / 20e-6)),
                               ('dbtopa(patodb(x)) = x', res['dbtopa_patodb'][i], x),
                               ('dbtopa(d) = 20e-6 10^(d/20)', res['dbtopa'][i], 20e-6 * 10 ** (d / 20)),
                               ('patodb(dbtopa(d)) = d', res['patodb_dbtopa'][i], d),
                               ('db default reference 1', res['db_default'][i], 20 * math.log10(x)),
                               ('band level = spectrum level + 10 log10 n', res['band'][i], d + 10 * math.log10(nb)),
                               ('band -> spectrum -> band', res['spec_back'][i], d),
                               ('spectrum -> band -> spectrum', res['band_back'][i], d),
                               ('spectrum level = band level - 10 log10 n', res['spec'][i], d - 10 * math.log10(nb))):
            if not ok(got, exp):
                return f'{what} fails at x={x}, d={d}, reference={r}, n={nb}: got {got}, expected {exp}'
    if not ok(res['patodb_1'], 20 * math.log10(1 / 20e-6)) or not ok(res['dbtopa_0'] * 1e6, 20.0):
        return f'SPL reference: patodb(1) = {res["patodb_1"]}, dbtopa(0) = {res["dbtopa_0"]}'
    return None


def _oracle_known(case, res):
    if case['what'] == 'odd-inverse':
        if len(res['back']) != len(res['x']):
            return (f'csd_to_signal(csd(x)) of an odd-length frame ({len(res["x"])} samples) returns {len(res["back"])} samples: '
                    'the one-sided spectrum does not carry the parity of the length')
        return None
    if case['what'] == 'default-detrend':
        if abs(res['default'] - 1.0) > 1e-6:
            return (f'with the DEFAULT detrend="linear", csd of a unit-RMS sinusoid at bin {case["k"]} of {case["N"]} samples reads '
                    f'{res["default"]} (tone_power_conv: {res["tone_power_default"]}); with detrend=None it reads {res["none"]}')
        return None
    if case['what'] == 'fft-frequency-ignored':
        if abs(res['power_at_k2'] - 0.25) > 1e-6:
            return (f'tone_power_fft at the frequency of the weaker of two tones (RMS 0.25 at bin {case["k2"]}, RMS 1 at bin '
                    f'{case["k1"]}) returns {res["power_at_k2"]}: the mask is computed from the bin frequencies, not from `frequency`')
        return None


def oracle(case, res):
    return {'tone': _oracle_tone, 'dcnyq': _oracle_dcnyq, 'random': _oracle_random, 'impulse': _oracle_impulse,
            'db': _oracle_db, 'known': _oracle_known}[case['kind']](case, res)


def nontrivial(case, res):
    return not (case['kind'] == 'db' and len(case['xs']) == 1)


KNOWN_WITNESSES = {
    'csd_to_signal:odd-length': {'kind': 'known', 'what': 'odd-inverse', 'N': 9},
    'detrend:default-linear-biases-low-bins': {'kind': 'known', 'what': 'default-detrend', 'N': 257, 'k': 1, 'p': 1.0},
}
# outside the property text (it speaks of ONE sinusoid), kept for replay: tone_power_fft / tone_phase_fft ignore `frequency`
OBSERVATIONS = {'tone_power_fft:frequency-ignored': {'kind': 'known', 'what': 'fft-frequency-ignored', 'N': 64, 'fs': 1000.0,
                                                     'k1': 5, 'k2': 20}}


def key(case, res):
    if case and case.get('kind') == 'known':
        return {'odd-inverse': 'csd_to_signal:odd-length', 'default-detrend': 'detrend:default-linear-biases-low-bins',
                'fft-frequency-ignored': 'tone_power_fft:frequency-ignored'}[case['what']]
    return None


def distribution(cases, results):
    d = {'kinds': {}, 'lengths': {'even': 0, 'odd': 0, 'min': None, 'max': None}, 'windows': {}, 'averages': {},
         'trimmed_samples': {}, 'batched': 0}
    for c in cases:
        d['kinds'][c['kind']] = d['kinds'].get(c['kind'], 0) + 1
        N = c.get('N', c.get('n'))
        if N is not None and c['kind'] != 'db':
            d['lengths']['even' if N % 2 == 0 else 'odd'] += 1
            d['lengths']['min'] = N if d['lengths']['min'] is None else min(N, d['lengths']['min'])
            d['lengths']['max'] = N if d['lengths']['max'] is None else max(N, d['lengths']['max'])
        if c['kind'] == 'tone':
            d['windows'][str(c['window'])] = d['windows'].get(str(c['window']), 0) + 1
            d['averages'][c['B']] = d['averages'].get(c['B'], 0) + 1
            d['trimmed_samples'][c['r']] = d['trimmed_samples'].get(c['r'], 0) + 1
            d['batched'] += bool(c.get('batch'))
    return d


# ====================================================================================================================
# generators
RATES = [1000.0, 25000.0, 100000.0, 195312.5, 44100.0]


def _tone_case(rng, N, k, window=None):
    B = rng.choice([1, 1, 2, 3, 4])
    case = {'kind': 'tone', 'N': N, 'k': k, 'A': float(10 ** rng.uniform(-3, 3)) if rng.random() < 0.7 else 1.0,
            'p': rng.uniform(-3.1, 3.1) if rng.random() < 0.8 else rng.choice([0.0, math.pi / 2, -math.pi / 2, 1.0]),
            'fs': rng.choice(RATES), 'B': B, 'r': rng.randrange(B), 'window': window}
    lo, hi = _bins(N, window)
    if rng.random() < 0.25 and hi - lo >= 2:
        case['batch'] = sorted(rng.sample(range(lo, hi + 1), 3))
    return case


def _bins(N, window):
    """admissible bins: 0 < 2k < N without window; more than the main-lobe half-width from DC and Nyquist with one"""
    if window is None:
        return 1, (N - 1) // 2
    J = len(COSINE[window]) - 1                   # C16_window_law: J < 2k and 2k + J < N
    return J // 2 + 1, (N - J - 1) // 2


def _in_property_range(N, k, window):
    """the bins the property text speaks about: farther than the main-lobe width from DC and Nyquist"""
    return window is None or (k > WINDOWS[window] and N / 2 - k > WINDOWS[window])


def _random_case(rng, N):
    return {'kind': 'random', 'N': N, 'seed': rng.randrange(10 ** 6), 'amp': float(10 ** rng.uniform(-2, 2)),
            'dc': rng.choice([0.0, 0.0, rng.uniform(-2, 2)])}


def _db_case(rng):
    n = rng.randint(1, 5)
    return {'kind': 'db', 'xs': [float(10 ** rng.uniform(-6, 4)) for _ in range(n)],
            'ds': [rng.choice([float(rng.randint(-120, 140)), rng.uniform(-120, 140)]) for _ in range(n)],
            'r': rng.choice([1.0, 20e-6, float(10 ** rng.uniform(-5, 2))]),
            'n': rng.choice([1, 2, 10, 1000, rng.randint(1, 50000), float(10 ** rng.uniform(0, 4))]),
            'form': rng.choice(['list', 'array', 'series', 'scalar'])}


def corpus():
    return [{'kind': 'tone', 'N': 16, 'k': 1, 'A': 1.0, 'p': 1.0, 'fs': 1000.0, 'B': 2, 'r': 1, 'window': None, 'batch': [1, 3, 7]},
            {'kind': 'tone', 'N': 257, 'k': 128, 'A': 0.5, 'p': -2.0, 'fs': 195312.5, 'B': 4, 'r': 3, 'window': None},
            {'kind': 'tone', 'N': 64, 'k': 6, 'A': 2.0, 'p': 0.5, 'fs': 100000.0, 'B': 3, 'r': 2, 'window': 'flattop'},
            {'kind': 'dcnyq', 'N': 8, 'which': 'dc', 'A': 3.0, 'p': 0.0}, {'kind': 'dcnyq', 'N': 8, 'which': 'nyq', 'A': 3.0, 'p': 0.7},
            {'kind': 'random', 'N': 8, 'seed': 1, 'amp': 1.0, 'dc': 0.5}, {'kind': 'random', 'N': 9, 'seed': 2, 'amp': 1.0, 'dc': 0.5},
            {'kind': 'impulse', 'n': 11, 'B': 3, 'i': 9}, {'kind': 'impulse', 'n': 11, 'B': 3, 'i': 8}]


def cases(tier, rng):
    quick = tier == 'quick'
    lengths = list(range(4, 258)) if not quick else list(range(4, 41)) + sorted(rng.sample(range(41, 258), 24)) + [256, 257]
    for N in lengths:
        lo, hi = _bins(N, None)
        ks = range(lo, hi + 1) if (N <= 24 or not quick) else sorted({lo, hi} | set(rng.sample(range(lo, hi + 1), min(3, hi - lo + 1))))
        for k in ks:
            yield _tone_case(rng, N, k)
        for w in WINDOWS:
            lo, hi = _bins(N, w)
            if hi >= lo:
                ws = range(lo, hi + 1) if not quick and N <= 64 else sorted({lo, hi, rng.randint(lo, hi)})
                for k in ws:
                    yield _tone_case(rng, N, k, w)
        yield {'kind': 'dcnyq', 'N': N, 'which': 'dc', 'A': float(10 ** rng.uniform(-2, 2)), 'p': rng.uniform(-3, 3)}
        if N % 2 == 0:
            yield {'kind': 'dcnyq', 'N': N, 'which': 'nyq', 'A': float(10 ** rng.uniform(-2, 2)), 'p': rng.uniform(-3, 3)}
        for _ in range(1 if quick else 3):
            yield _random_case(rng, N)
    for n in (range(4, 40) if quick else range(4, 130)):
        for B in (1, 2, 3, 4):
            L = n // B
            if L < 2:
                continue
            for i in sorted({0, L - 1, L % n, (L * B - 1), min(L * B, n - 1), n - 1, rng.randrange(n)}):
                yield {'kind': 'impulse', 'n': n, 'B': B, 'i': i}
    for _ in range(60 if quick else 600):
        yield _db_case(rng)


def search(tier, rng):
    """Called by the driver when a theorem about the regenerated definitions (or the correspondence) broke: look for a
    concrete input on which the IMPLEMENTATION violates one of the identities."""
    found = []
    gens = [lambda: _tone_case(rng, *_nk(rng)), lambda: _random_case(rng, rng.randint(4, 64)), lambda: _db_case(rng),
            lambda: {'kind': 'dcnyq', 'N': 2 * rng.randint(2, 30), 'which': rng.choice(['dc', 'nyq']), 'A': 1.5, 'p': rng.uniform(-3, 3)},
            lambda: {'kind': 'impulse', 'n': rng.randint(8, 60), 'B': rng.randint(1, 4), 'i': rng.randrange(8)}]
    for i in range(300 if tier == 'quick' else 3000):
        case = gens[i % len(gens)]()
        try:
            res = impl(case)
            msg = oracle(case, res)
        except Exception as e:          # behaviour the property does not allow
            msg = f'unexpected {type(e).__name__}: {e}'
        if msg:
            found.append((case, msg))
            if len(found) >= 3:
                break
    return found


def _nk(rng):
    N = rng.randint(4, 128)
    lo, hi = _bins(N, None)
    return N, rng.randint(lo, hi)
